"""Hand tool (not a check): generic behaviour-preserving edits (vt/sweep.py) applied one at a time to every function of the tree, all
quick checks run in memory on each variant; prints which rules raise new findings (= refactor-brittle rules).
usage: preserve_sweep.py [kind ...]   kinds: see vt.sweep.ALL_KINDS + EXTRA_KINDS"""
import os, sys, multiprocessing as mp
sys.path.insert(0, os.path.dirname(os.path.dirname(os.path.abspath(__file__))))
from vt import sweep
from vt.props import PROPS


def work(v):
    return sweep._work((v, sorted(PROPS)))


if __name__ == "__main__":
    kinds = sys.argv[1:] or sweep.ALL_KINDS
    vs = sweep.gen_variants(kinds=kinds)
    print(len(vs), "variants", file=sys.stderr)
    with mp.Pool(16) as pool:
        results = pool.map(work, vs, chunksize=4)
    bad = [r for r in results if r[2]]
    byrule = {}
    for v, fname, new in bad:
        for p, rule, cons in new:
            byrule.setdefault(rule, []).append((v[0], v[1], fname, v[3], p, cons))
    print(f"{len(results)} variants, {len(bad)} with new findings")
    for rule, items in sorted(byrule.items(), key=lambda kv: -len(kv[1])):
        print(f"== {rule}: {len(items)}")
        seen = set()
        for it in items:
            k = (it[0], it[1], it[2], it[3])
            if k in seen:
                continue
            seen.add(k)
            print("   ", it)

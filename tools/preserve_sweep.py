"""Hand tool (not a check): generic behaviour-preserving edits applied one at a time to every function of the tree, all quick checks
run in memory on each variant; prints which rules raise new findings (= refactor-brittle rules).
usage: preserve_sweep.py [kind ...]   kinds: rename swapif log augassign"""
import ast, os, sys, json, multiprocessing as mp
sys.path.insert(0, os.path.dirname(os.path.dirname(os.path.abspath(__file__))))
from vt.core import Tree, REPO, AnalysisError
from vt.selftest import swap_if_else

KINDS = sys.argv[1:] or ["rename", "swapif", "log", "augassign"]


def functions(mod):
    for n in ast.walk(mod):
        if isinstance(n, ast.FunctionDef):
            yield n


def gen_variants():
    t = Tree()
    out = []
    for m in t.modules.values():
        if m.short in ("log", "about", "key", "quic.udp_output_builder"):
            continue
        mod = ast.parse(m.src)
        fns = list(functions(mod))
        for fi, fn in enumerate(fns):
            if "rename" in KINDS:
                params = {a.arg for a in fn.args.args + fn.args.kwonlyargs}
                locs = []
                for n in ast.walk(fn):
                    if isinstance(n, ast.Name) and isinstance(n.ctx, ast.Store) and n.id not in params and n.id not in locs:
                        locs.append(n.id)
                globs = {x for n in ast.walk(fn) if isinstance(n, ast.Global) for x in n.names}
                for name in locs:
                    if name in globs:
                        continue
                    out.append((m.relpath, "rename", fi, name))
            if "swapif" in KINDS:
                k = 0
                for n in ast.walk(fn):
                    if isinstance(n, ast.If) and n.orelse and not (len(n.orelse) == 1 and isinstance(n.orelse[0], ast.If)):
                        out.append((m.relpath, "swapif", fi, k))
                        k += 1
            if "log" in KINDS:
                out.append((m.relpath, "log", fi, 0))
            if "swapand" in KINDS:
                k = 0
                for n in ast.walk(fn):
                    if isinstance(n, ast.BoolOp) and len(n.values) == 2 and all(isinstance(v, (ast.Compare, ast.Name, ast.Attribute)) for v in n.values):
                        out.append((m.relpath, "swapand", fi, k))
                        k += 1
            if "elsereturn" in KINDS:
                k = 0
                for n in ast.walk(fn):
                    if isinstance(n, ast.If) and n.orelse and not (len(n.orelse) == 1 and isinstance(n.orelse[0], ast.If)) and n.body and isinstance(n.body[-1], (ast.Return, ast.Continue)):
                        out.append((m.relpath, "elsereturn", fi, k))
                        k += 1
            if "noop" in KINDS:
                out.append((m.relpath, "noop", fi, 0))
            if "swapeq" in KINDS:
                k = 0
                for n in ast.walk(fn):
                    if isinstance(n, ast.Compare) and len(n.ops) == 1 and isinstance(n.ops[0], (ast.Eq, ast.NotEq)):
                        out.append((m.relpath, "swapeq", fi, k))
                        k += 1
            if "range0" in KINDS:
                k = 0
                for n in ast.walk(fn):
                    if isinstance(n, ast.Call) and isinstance(n.func, ast.Name) and n.func.id == "range" and len(n.args) == 2 and isinstance(n.args[0], ast.Constant) and n.args[0].value == 0:
                        out.append((m.relpath, "range0", fi, k))
                        k += 1
            if "temp" in KINDS:
                k = 0
                for n in ast.walk(fn):
                    if isinstance(n, ast.Assign) and isinstance(n.value, ast.Call) and n.value.args and not isinstance(n.value.args[0], (ast.Constant, ast.Name, ast.Starred)):
                        out.append((m.relpath, "temp", fi, k))
                        k += 1
            if "augassign" in KINDS:
                k = 0
                for n in ast.walk(fn):
                    if isinstance(n, ast.AugAssign) and isinstance(n.target, (ast.Name, ast.Attribute)):
                        out.append((m.relpath, "augassign", fi, k))
                        k += 1
    return out


def apply(v):
    rel, kind, fi, arg = v
    src = open(os.path.join(REPO, rel)).read()
    mod = ast.parse(src)
    fn = list(functions(mod))[fi]
    if kind == "rename":
        # do not rename if nested function shares the name as a parameter, keep it simple
        for n in ast.walk(fn):
            if isinstance(n, ast.Name) and n.id == arg:
                n.id = arg + "_rn"
            elif isinstance(n, ast.arg) and n.arg == arg:
                return None
    elif kind == "swapif":
        k = 0
        for n in ast.walk(fn):
            if isinstance(n, ast.If) and n.orelse and not (len(n.orelse) == 1 and isinstance(n.orelse[0], ast.If)):
                if k == arg:
                    new = swap_if_else(n)
                    n.test, n.body, n.orelse = new.test, new.body, new.orelse
                    break
                k += 1
    elif kind == "log":
        idx = 1 if (fn.body and isinstance(fn.body[0], ast.Expr) and isinstance(fn.body[0].value, ast.Constant)) else 0
        fn.body.insert(idx, ast.parse("logging.debug('enter')").body[0])
        if "import logging" not in src:
            mod.body.insert(0, ast.parse("import logging").body[0])
    elif kind == "swapand":
        k = 0
        for n in ast.walk(fn):
            if isinstance(n, ast.BoolOp) and len(n.values) == 2 and all(isinstance(v, (ast.Compare, ast.Name, ast.Attribute)) for v in n.values):
                if k == arg:
                    n.values.reverse()
                    break
                k += 1
    elif kind == "elsereturn":
        k = 0
        done = False
        for p in ast.walk(fn):
            for fld in ("body", "orelse", "finalbody"):
                lst = getattr(p, fld, None)
                if not isinstance(lst, list):
                    continue
                for i, n in enumerate(lst):
                    if isinstance(n, ast.If) and n.orelse and not (len(n.orelse) == 1 and isinstance(n.orelse[0], ast.If)) and n.body and isinstance(n.body[-1], (ast.Return, ast.Continue)):
                        if k == arg and not done:
                            tail = n.orelse
                            n.orelse = []
                            lst[i + 1:i + 1] = tail
                            done = True
                        k += 1
                if done:
                    break
            if done:
                break
    elif kind == "noop":
        idx = 1 if (fn.body and isinstance(fn.body[0], ast.Expr) and isinstance(fn.body[0].value, ast.Constant)) else 0
        fn.body.insert(idx, ast.parse("unused_marker = 0").body[0])
    elif kind == "swapeq":
        k = 0
        for n in ast.walk(fn):
            if isinstance(n, ast.Compare) and len(n.ops) == 1 and isinstance(n.ops[0], (ast.Eq, ast.NotEq)):
                if k == arg:
                    n.left, n.comparators[0] = n.comparators[0], n.left
                    break
                k += 1
    elif kind == "range0":
        k = 0
        for n in ast.walk(fn):
            if isinstance(n, ast.Call) and isinstance(n.func, ast.Name) and n.func.id == "range" and len(n.args) == 2 and isinstance(n.args[0], ast.Constant) and n.args[0].value == 0:
                if k == arg:
                    n.args = n.args[1:]
                    break
                k += 1
    elif kind == "temp":
        k = 0
        for n in ast.walk(fn):
            if isinstance(n, ast.Assign) and isinstance(n.value, ast.Call) and n.value.args and not isinstance(n.value.args[0], (ast.Constant, ast.Name, ast.Starred)):
                if k == arg:
                    tmp = ast.Assign(targets=[ast.Name("tmp_arg", ast.Store())], value=n.value.args[0])
                    n.value.args[0] = ast.Name("tmp_arg", ast.Load())
                    for p in ast.walk(fn):
                        for fld in ("body", "orelse", "finalbody"):
                            lst = getattr(p, fld, None)
                            if isinstance(lst, list) and n in lst:
                                lst.insert(lst.index(n), tmp)
                                break
                    break
                k += 1
    elif kind == "augassign":
        k = 0
        for n in ast.walk(fn):
            if isinstance(n, ast.AugAssign) and isinstance(n.target, (ast.Name, ast.Attribute)):
                if k == arg:
                    import copy
                    load = copy.deepcopy(n.target)
                    for x in ast.walk(load):
                        if hasattr(x, "ctx"):
                            x.ctx = ast.Load()
                    newst = ast.Assign(targets=[n.target], value=ast.BinOp(left=load, op=n.op, right=n.value))
                    # replace in parent: brute force
                    for p in ast.walk(fn):
                        for fld in ("body", "orelse", "finalbody"):
                            lst = getattr(p, fld, None)
                            if isinstance(lst, list) and n in lst:
                                lst[lst.index(n)] = newst
                    break
                k += 1
    ast.fix_missing_locations(mod)
    return ast.unparse(mod), fn.name


_base = None


def work(v):
    global _base
    from vt.check import run_property
    from vt.props import PROPS
    if _base is None:
        t0 = Tree()
        _base = {}
        for p in PROPS:
            c, res, viol, known = run_property(p, "quick", quiet=True, write=False, tree=t0, controls=False)
            _base[p] = {(f.rule, f.construct) for f in viol + [k[0] for k in known]}
    r = apply(v)
    if r is None:
        return (v, None, [])
    new_src, fname = r
    try:
        compile(new_src, v[0], "exec")
    except SyntaxError:
        return (v, fname, [("-", "SYNTAX", "")])
    tree = Tree(overrides={v[0]: new_src})
    new = []
    for p in PROPS:
        try:
            c, res, viol, known = run_property(p, "quick", quiet=True, write=False, tree=tree, controls=False)
            for f in viol + [k[0] for k in known]:
                if (f.rule, f.construct) not in _base[p]:
                    new.append((p, f.rule, f.construct))
        except AnalysisError as e:
            new.append((p, "ANALYSIS-ERROR", str(e)[:120]))
        except Exception as e:
            new.append((p, "CRASH", f"{type(e).__name__}: {e}"[:120]))
    return (v, fname, new)


if __name__ == "__main__":
    vs = gen_variants()
    print(len(vs), "variants", file=sys.stderr)
    with mp.Pool(16) as pool:
        results = pool.map(work, vs, chunksize=4)
    bad = [r for r in results if r[2]]
    byrule = {}
    for v, fname, new in bad:
        for p, rule, cons in new:
            byrule.setdefault(rule, []).append((v[0], v[1], fname, v[3], p, cons))
    print(f"{len(results)} variants, {len(bad)} with new findings")
    for rule, items in sorted(byrule.items(), key=lambda kv: -len(kv[1])):
        print(f"== {rule}: {len(items)}")
        seen = set()
        for it in items:
            k = (it[0], it[1], it[2], it[3])
            if k in seen:
                continue
            seen.add(k)
            print("   ", it)

"""Hand tool (NOT a check): export every sample capture with a given checkout and print one digest line per sample.
usage: export_samples.py <repo checkout> <out dir>"""
import glob, hashlib, os, subprocess, sys
repo, out = sys.argv[1], sys.argv[2]
os.makedirs(out, exist_ok=True)
S = os.path.join(repo, "tlexport/pcaps_und_keylogs")
for d in sorted(os.listdir(S)):
    dd = os.path.join(S, d)
    logs = sorted(glob.glob(dd + "/*.log") + glob.glob(dd + "/*.txt"))
    for cap in sorted(glob.glob(dd + "/*.pcapng")):
        base = os.path.basename(cap)[:-7]
        log = next((l for l in logs if os.path.basename(l).startswith(base)), logs[0] if logs else None)
        o = os.path.join(out, base + ".out.pcapng")
        cmd = ["/venv/bin/python", "-W", "ignore", "-m", "tlexport.main", "-i", cap, "-o", o, "-p", "44330", "4433"] + (sys.argv[3:])
        if log:
            cmd += ["-s", log]
        p = subprocess.run(cmd, cwd=repo, capture_output=True, text=True, env={**os.environ, "PYTHONPATH": repo})
        h = hashlib.sha256(open(o, "rb").read()).hexdigest()[:16] if os.path.exists(o) else "-"
        print(f"{d}/{base:45s} rc={p.returncode} size={os.path.getsize(o) if os.path.exists(o) else -1:8d} sha={h}")

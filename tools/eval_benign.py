"""Hand tool: false-alarm measurement on behaviour-preserving changes.
usage: eval_benign.py [-j N] <dir-or-diff> ...     (a directory contributes every *.diff in it; benign/<id>/patch.diff layout is accepted too)
Per diff: copies /repo/tlexport's *.py into a scratch directory under /tmp, applies the diff, runs `python3 -m vt.check --all --no-write`
with VT_REPO=<scratch>. A VIOLATION or ANALYSIS-ERROR line is a false alarm of the machinery (the diff is behaviour-preserving by
construction / by its author's argument, which I re-read before keeping it). Prints the report lines per alarming diff; exit 0 iff silent."""
import glob, os, shutil, subprocess, sys, tempfile
from concurrent.futures import ThreadPoolExecutor

ROOT = os.path.dirname(os.path.dirname(os.path.abspath(__file__)))


def one(diff):
    wt = tempfile.mkdtemp(prefix="vtben-")
    try:
        for base, dirs, files in os.walk("/repo/tlexport"):
            dirs[:] = [x for x in dirs if x not in ("pcaps_und_keylogs", "__pycache__")]
            for f in files:
                if f.endswith(".py"):
                    dst = os.path.join(wt, os.path.relpath(base, "/repo"))
                    os.makedirs(dst, exist_ok=True)
                    shutil.copy(os.path.join(base, f), dst)
        p = subprocess.run(["patch", "-p1", "-s", "-i", os.path.abspath(diff)], cwd=wt, capture_output=True, text=True)
        if p.returncode != 0:
            return diff, "noapply", [(p.stdout + p.stderr)[-300:]]
        q = subprocess.run([sys.executable, "-m", "vt.check", "--all", "--no-write"], cwd=ROOT, env=dict(os.environ, VT_REPO=wt),
                           capture_output=True, text=True)
        out = (q.stdout + q.stderr).splitlines()
        rep = sorted({l[5:260] for l in out if l.startswith("[vt] ") and " @ " in l})
        err = [l[:260] for l in out if l.startswith("ANALYSIS-ERROR")]
        props = sorted({l.split()[1] for l in out if l.startswith("VIOLATION")})
        if q.returncode == 0:
            return diff, "silent", []
        return diff, f"rc{q.returncode} {' '.join(props)}", rep + err
    finally:
        shutil.rmtree(wt, ignore_errors=True)


def main():
    args = sys.argv[1:]
    j = 8
    if args[:1] == ["-j"]:
        j = int(args[1]); args = args[2:]
    diffs = []
    for a in args:
        if os.path.isdir(a):
            diffs += sorted(glob.glob(os.path.join(a, "*.diff"))) + sorted(glob.glob(os.path.join(a, "*", "patch.diff")))
        else:
            diffs.append(a)
    bad = 0
    with ThreadPoolExecutor(j) as ex:
        for diff, st, lines in ex.map(one, diffs):
            print(f"{diff}: {st}", flush=True)
            for l in lines:
                print("    " + l)
            bad += st != "silent"
    print(f"summary: {len(diffs) - bad} silent of {len(diffs)}")
    sys.exit(1 if bad else 0)


main()

"""Prints the markdown table of seeded changes for DESIGN.md §10.5 from seeded/*/meta.json."""
import json, glob, os
rows = []
for p in sorted(glob.glob(os.path.join(os.path.dirname(os.path.dirname(os.path.abspath(__file__))), "seeded", "C*", "meta.json"))):
    m = json.load(open(p))
    desc = " ".join(m["description"].split())
    desc = desc.split(" - ", 1)[-1] if desc[:3] in ("m1:", "m2:") else desc
    rules = sorted({r.split()[0] for r in m.get("reports", []) if r})
    fr = m.get("first_run", "")
    tag = "✓" if fr.startswith("reported") or fr.startswith("own") else ("◐" if fr.startswith("other") else "✗")
    rows.append((m["id"], desc[:150].replace("|", "/"), ", ".join(m.get("detected_by", [])), ", ".join(rules), tag))
print("| seed | change (abridged) | reported by checks | rules | first run |")
print("|---|---|---|---|---|")
for r in rows:
    print("| " + " | ".join(r) + " |")

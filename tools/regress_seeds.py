"""Hand tool: regression of every kept seeded change against the *targeted property's* quick check (no controls).
usage: regress_seeds.py [-j N] [glob ...]        (default: all of seeded/C*)
Per seed: copies /repo/tlexport's *.py into a scratch directory under /tmp, applies patch.diff there (git apply), runs
`python3 -m vt.check <prop> --no-write` with VT_REPO=<scratch>; expects exit 1 with a VIOLATION line. Scratch directories are removed.
Prints one line per seed that is not reported (or cannot be applied) and a summary; exit 0 iff all are reported."""
import glob, json, os, shutil, subprocess, sys, tempfile
from concurrent.futures import ThreadPoolExecutor

ROOT = os.path.dirname(os.path.dirname(os.path.abspath(__file__)))


def one(d):
    meta = json.load(open(os.path.join(d, "meta.json")))
    if meta.get("retired"):
        return d, "retired", ""
    prop = meta["property"]
    wt = tempfile.mkdtemp(prefix="vtreg-")
    try:
        for base, dirs, files in os.walk("/repo/tlexport"):
            dirs[:] = [x for x in dirs if x not in ("pcaps_und_keylogs", "__pycache__")]
            for f in files:
                if f.endswith(".py"):
                    dst = os.path.join(wt, os.path.relpath(base, "/repo"))
                    os.makedirs(dst, exist_ok=True)
                    shutil.copy(os.path.join(base, f), dst)
        p = subprocess.run(["git", "apply", "--unsafe-paths", "--directory", wt, os.path.join(d, "patch.diff")], cwd=wt, capture_output=True, text=True)
        if p.returncode != 0:
            p = subprocess.run(["patch", "-p1", "-s", "-i", os.path.join(d, "patch.diff")], cwd=wt, capture_output=True, text=True)
            if p.returncode != 0:
                return d, "noapply", (p.stdout + p.stderr)[-200:]
        env = dict(os.environ, VT_REPO=wt)
        q = subprocess.run([sys.executable, "-m", "vt.check", prop, "--no-write", "--no-controls"], cwd=ROOT, env=env, capture_output=True, text=True)
        out = q.stdout + q.stderr
        if "unrecognized arguments" in out:
            q = subprocess.run([sys.executable, "-m", "vt.check", prop, "--no-write"], cwd=ROOT, env=env, capture_output=True, text=True)
            out = q.stdout + q.stderr
        if q.returncode == 1 and "VIOLATION" in out:
            return d, "ok", ""
        return d, f"rc{q.returncode}", " | ".join(l for l in out.splitlines() if l.startswith(("ANALYSIS", "VIOLATION")))[:300]
    finally:
        shutil.rmtree(wt, ignore_errors=True)


def main():
    args = sys.argv[1:]
    j = 16
    if args[:1] == ["-j"]:
        j = int(args[1]); args = args[2:]
    dirs = []
    for g in (args or ["C*"]):
        dirs += sorted(glob.glob(os.path.join(ROOT, "seeded", g)))
    dirs = [d for d in dirs if os.path.exists(os.path.join(d, "patch.diff"))]
    bad = 0
    stat = {}
    with ThreadPoolExecutor(j) as ex:
        for d, st, msg in ex.map(one, dirs):
            stat[st] = stat.get(st, 0) + 1
            if st not in ("ok", "retired"):
                bad += 1
                print(f"{os.path.basename(d)}: {st} {msg}", flush=True)
    print("summary:", stat, "of", len(dirs))
    sys.exit(1 if bad else 0)


main()

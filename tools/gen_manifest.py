"""Generates MANIFEST.json from vt/props.py + vt/manifest_texts.py (run by hand after changing the property table)."""
import json, sys, os
sys.path.insert(0, os.path.dirname(os.path.dirname(os.path.abspath(__file__))))
from vt.props import PROPS
from vt.manifest_texts import texts_for, NOT_APPLICABLE
from vt.check import run_property

BASE = "cd /repo && /venv/bin/python -m pytest -ra -q -p no:cacheprovider --timeout=900 --continue-on-collection-errors"
checks = []
for pid in sorted(PROPS):
    _code, _results, _v, _k = run_property(pid, "quick", quiet=True, write=False, controls=False)
    rules = " Rules evaluated on every run: " + "; ".join(f"{r.rule} — {r.title}" for r in _results) + "."
    t = texts_for(pid, PROPS[pid]['explanation'] + rules)
    checks.append({
        "property_id": pid,
        "quick_cmd": f"python3 -m vt.check {pid} --tier quick",
        "thorough_cmd": f"python3 -m vt.check {pid} --tier thorough",
        "evidence_file": f"/verif/evidence/{pid}.json",
        "replay_cmd_template": "python3 -m vt.check --explain {path}",
        "engine": "vt",
        "level_claimed": {"category": t.get("category", "other"), "text": t["level_text"], "design_ref": t.get("design_ref", f"DESIGN.md §4 {pid}")},
        "level_note": t["level_note"],
        "technique": t["technique"],
    })
man = {
    "version": 1,
    "setup_cmd": "python3 -m compileall -q vt && python3 -m vt.check --selfcheck",
    "hooks": {
        "guard": "FKIE_CAD_TLEXPORT_VERIF",
        "enable": "no hooks: the checks are static analyses that read /repo's source; nothing in /repo is instrumented",
        "baseline_off_cmd": BASE,
        "source_commits": [],
        "add_only": True,
    },
    "engines": [{"name": "vt", "path": "/verif/vt", "serves_properties": sorted(PROPS),
                 "kind_free_text": "repository-specific static analyser: ast loader, symbol/class model, statement CFG with dominators, "
                                   "def-use / definite assignment, resolved call graph, constant folder, role normaliser, finite-domain guard evaluation; "
                                   "~75 rules (path, mirror, table, provenance, spec-shape)"}],
    "checks": checks,
    "notes": "Static analysis only: every verdict is computed from /repo's source on disk at run time; no repo code is imported or executed. "
             "Exit 0 held / 1 VIOLATION / 2 ANALYSIS-ERROR. Known findings: /verif/known_findings.json. See DESIGN.md.",
    "not_applicable": [{"property_id": k, "reason": v} for k, v in sorted(NOT_APPLICABLE.items()) if k not in PROPS],
}
json.dump(man, open(os.path.join(os.path.dirname(os.path.dirname(os.path.abspath(__file__))), "MANIFEST.json"), "w"), indent=1)
print("checks:", len(checks), "not_applicable:", len(man["not_applicable"]))

"""Hand tool: evaluate one seeded change against the checks without touching /repo.
usage: eval_seed.py <patch.diff> <demo.py> [--keep]
Creates a scratch worktree of /repo HEAD under /tmp/seedwt-<pid>, applies the patch, runs the 60 tests, the demo (with / without the
change) and every quick check with VT_REPO pointing at the scratch tree; prints a JSON summary; removes the worktree."""
import json, os, subprocess, sys, tempfile, shutil

patch, demo = os.path.abspath(sys.argv[1]), os.path.abspath(sys.argv[2])
wt = f"/tmp/seedwt-{os.getpid()}"
res = {"patch": patch}


def sh(cmd, cwd=None, env=None, timeout=900):
    e = dict(os.environ)
    if env:
        e.update(env)
    p = subprocess.run(cmd, shell=True, cwd=cwd, env=e, capture_output=True, text=True, timeout=timeout)
    return p.returncode, p.stdout + p.stderr


try:
    sh(f"git -C /repo worktree add -q --detach {wt} HEAD")
    rc, out = sh(f"/venv/bin/python -W ignore {demo} {wt}", cwd=wt, env={"PYTHONPATH": wt})
    res["demo_clean_rc"] = rc
    rc, out = sh(f"git -C {wt} apply {patch}")
    res["applies"] = rc == 0
    if rc != 0:
        res["apply_err"] = out[-300:]
    else:
        rc, out = sh("/venv/bin/python -m pytest -q -p no:cacheprovider --timeout=900 2>&1 | tail -3", cwd=wt)
        res["tests"] = out.strip().splitlines()[-1] if out.strip() else ""
        rc, out = sh(f"/venv/bin/python -W ignore {demo} {wt}", cwd=wt, env={"PYTHONPATH": wt})
        res["demo_mutant_rc"] = rc
        res["demo_tail"] = out.strip().splitlines()[-1][:200] if out.strip() else ""
        rc, out = sh("python3 -m vt.check --all --no-write", cwd="/verif", env={"VT_REPO": wt})
        viol = [l for l in out.splitlines() if l.startswith("[vt] ") and " @ " in l]
        res["violations"] = sorted({l.split(" replay=")[0] for l in out.splitlines() if l.startswith("VIOLATION")})
        res["reports"] = [l[5:230] for l in viol][:8]
        res["analysis_errors"] = [l[:200] for l in out.splitlines() if l.startswith("ANALYSIS-ERROR")]
finally:
    sh(f"git -C /repo worktree remove --force {wt}")
print(json.dumps(res, indent=1))

"""One-off builder of ref/iana_tls_cipher_suites.json (run by hand, output committed).

Sources available offline: scapy's layers/tls/crypto/suites.py (class names + val), `openssl ciphers -V
-stdname`, plus hand-transcribed rows from RFC 6655 / RFC 8442 / RFC 8492 / RFC 8998 that neither has.
The repo under analysis is NOT consulted.
"""
import json, re, subprocess, sys
sys.path.insert(0, "/venv/lib/python3.12/site-packages")
rows = {}
src = {}
try:
    import logging
    logging.getLogger("scapy").setLevel(logging.ERROR)
    from scapy.layers.tls.crypto.suites import _tls_cipher_suites
    for val, name in _tls_cipher_suites.items():
        rows[val] = name
        src[val] = ["scapy"]
except Exception as e:
    print("scapy unavailable:", e)
try:
    out = subprocess.run(["openssl", "ciphers", "-V", "-stdname", "ALL:COMPLEMENTOFALL:@SECLEVEL=0"], capture_output=True, text=True).stdout
    for line in out.splitlines():
        m = re.match(r"\s*0x([0-9A-F]{2}),0x([0-9A-F]{2})\s+-\s+(\S+)\s+-", line)
        if m:
            val = int(m.group(1) + m.group(2), 16)
            name = m.group(3)
            if val in rows and rows[val] != name:
                print("DISAGREE", hex(val), rows[val], name)
                src.setdefault(val, []).append("openssl-disagrees:" + name)
            else:
                rows[val] = name
                src.setdefault(val, []).append("openssl")
except Exception as e:
    print("openssl unavailable:", e)
# IANA spellings / rows neither source has (transcribed from the RFCs)
manual = {
    0xC0AA: "TLS_PSK_DHE_WITH_AES_128_CCM_8",   # RFC 6655 (registry keeps the irregular PSK_DHE spelling)
    0xC0AB: "TLS_PSK_DHE_WITH_AES_256_CCM_8",
    0xC0B0: "TLS_ECDHE_ECDSA_WITH_AES_128_CCM_8".replace("_8", "") if False else "TLS_ECDHE_ECDSA_WITH_AES_128_CCM_8",
}
manual = {
    0xC0AA: "TLS_PSK_DHE_WITH_AES_128_CCM_8",
    0xC0AB: "TLS_PSK_DHE_WITH_AES_256_CCM_8",
    0xC0AC: "TLS_ECDHE_ECDSA_WITH_AES_128_CCM",      # RFC 7251
    0xC0AD: "TLS_ECDHE_ECDSA_WITH_AES_256_CCM",
    0xC0AE: "TLS_ECDHE_ECDSA_WITH_AES_128_CCM_8",
    0xC0AF: "TLS_ECDHE_ECDSA_WITH_AES_256_CCM_8",
    0xC0B0: "TLS_ECCPWD_WITH_AES_128_GCM_SHA256",    # RFC 8492
    0xC0B1: "TLS_ECCPWD_WITH_AES_256_GCM_SHA384",
    0xC0B2: "TLS_ECCPWD_WITH_AES_128_CCM_SHA256",
    0xC0B3: "TLS_ECCPWD_WITH_AES_256_CCM_SHA384",
    0xD001: "TLS_ECDHE_PSK_WITH_AES_128_GCM_SHA256", # RFC 8442
    0xD002: "TLS_ECDHE_PSK_WITH_AES_256_GCM_SHA384",
    0xD003: "TLS_ECDHE_PSK_WITH_AES_128_CCM_8_SHA256",
    0xD005: "TLS_ECDHE_PSK_WITH_AES_128_CCM_SHA256",
}
for val, name in manual.items():
    if val in rows and rows[val] != name:
        print("MANUAL overrides", hex(val), rows[val], "->", name)
    rows[val] = name
    src.setdefault(val, []).append("rfc-manual")
out = {"_doc": "code point (4 hex digits) -> IANA name; built by tools/build_iana_ref.py from scapy + openssl + RFC rows; independent of the repo",
       "suites": {f"{v:04X}": n for v, n in sorted(rows.items())},
       "sources": {f"{v:04X}": s for v, s in sorted(src.items())}}
json.dump(out, open("ref/iana_tls_cipher_suites.json", "w"), indent=0, sort_keys=True)
print(len(rows), "rows")

"""Hand tool: show the canonicalised form of a function after applying a diff.  usage: show_canon.py <diff|-> <module> <qualname>"""
import ast, os, shutil, subprocess, sys, tempfile
diff, mod, qn = sys.argv[1:4]
wt = tempfile.mkdtemp(prefix="vtshow-")
try:
    for base, dirs, files in os.walk("/repo/tlexport"):
        dirs[:] = [x for x in dirs if x not in ("pcaps_und_keylogs", "__pycache__")]
        for f in files:
            if f.endswith(".py"):
                dst = os.path.join(wt, os.path.relpath(base, "/repo")); os.makedirs(dst, exist_ok=True); shutil.copy(os.path.join(base, f), dst)
    if diff != "-":
        subprocess.run(["patch", "-p1", "-s", "-i", os.path.abspath(diff)], cwd=wt, check=True)
    os.environ["VT_REPO"] = wt
    sys.path.insert(0, os.path.dirname(os.path.dirname(os.path.abspath(__file__))))
    from vt.core import Tree
    t = Tree()
    f = t.func(mod, qn)
    print(ast.unparse(f.node))
finally:
    shutil.rmtree(wt, ignore_errors=True)

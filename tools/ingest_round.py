"""Hand tool: confirm and file the seeded changes of one round.
usage: ingest_round.py <round-tag e.g. r13> <Cnn> [<Cnn> ...]
For each /tmp/wt/<Cnn>-<tag>.out/m{1,2}.diff (+ m?_demo.py, m?.txt): runs tools/eval_seed.py (scratch worktree of /repo HEAD, patch, 60 tests, demo
with/without, every quick check with VT_REPO=<scratch>), and if the change is confirmed (applies, 60 passed, demo 0 without / non-zero with) files it as
seeded/<Cnn>-<tag>-m<k>/{patch.diff,demo.py,meta.json} with the first-run outcome."""
import json, os, shutil, subprocess, sys
from concurrent.futures import ThreadPoolExecutor

ROOT = os.path.dirname(os.path.dirname(os.path.abspath(__file__)))
tag = sys.argv[1]
ORIGIN = os.environ.get("SEED_ORIGIN", "fresh sub-agent given only the property text (plus one-line summaries of earlier ideas to avoid) and a scratch worktree")


def one(job):
    prop, k = job
    out = f"/tmp/wt/{prop}-{tag}.out"
    diff, demo, txt = f"{out}/m{k}.diff", f"{out}/m{k}_demo.py", f"{out}/m{k}.txt"
    sid = f"{prop}-{tag}-m{k}"
    if not (os.path.exists(diff) and os.path.exists(demo)):
        return sid, "missing files", None
    p = subprocess.run([sys.executable, os.path.join(ROOT, "tools", "eval_seed.py"), diff, demo], capture_output=True, text=True)
    try:
        res = json.loads(p.stdout[p.stdout.index("{"):])
    except Exception:
        return sid, "eval failed: " + (p.stdout + p.stderr)[-300:], None
    ok = res.get("applies") and "60 passed" in res.get("tests", "") and res.get("demo_clean_rc") == 0 and res.get("demo_mutant_rc", 0) != 0
    if not ok:
        return sid, "NOT CONFIRMED " + json.dumps({k2: res.get(k2) for k2 in ("applies", "tests", "demo_clean_rc", "demo_mutant_rc", "demo_tail", "apply_err")}), res
    det = sorted({v.split("property=")[1].split()[0] for v in res["violations"]})
    first = "own" if prop in det else ("other" if det else "missed")
    d = os.path.join(ROOT, "seeded", sid)
    os.makedirs(d, exist_ok=True)
    shutil.copy(diff, os.path.join(d, "patch.diff"))
    shutil.copy(demo, os.path.join(d, "demo.py"))
    meta = {"id": sid, "property": prop, "origin": f"{ORIGIN} (round {tag[1:]})",
            "description": open(txt).read().strip() if os.path.exists(txt) else "",
            "confirmed": {"applies_to_repo_HEAD": True, "tests": res["tests"], "demo_rc_unchanged": 0, "demo_rc_with_change": res["demo_mutant_rc"]},
            "what_i_ran": "python3 tools/eval_seed.py patch.diff demo.py  (scratch worktree of /repo HEAD under /tmp, patch applied, 60-test suite, demo with/without the change, all quick checks with VT_REPO=<scratch>; worktree removed)",
            "detected_by": det, "reports": res["reports"], "first_run": first, "analysis_errors": res.get("analysis_errors", [])}
    json.dump(meta, open(os.path.join(d, "meta.json"), "w"), indent=1)
    return sid, f"{first}: {det} " + " ; ".join(r.split(" @ ")[0] for r in res["reports"][:4]) + ("  AE:" + str(res["analysis_errors"][:2]) if res.get("analysis_errors") else ""), res


jobs = [(p, k) for p in sys.argv[2:] for k in (1, 2)]
with ThreadPoolExecutor(4) as ex:
    for sid, msg, res in ex.map(one, jobs):
        print(sid, "->", msg, flush=True)

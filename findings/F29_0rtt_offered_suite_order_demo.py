#!/usr/bin/env python3
"""Demo for C02/m2: 0-RTT packets (RFC 9000 12.3: 0-RTT and 1-RTT packets share ONE packet-number space).

QUIC v1 (TLS_AES_128_GCM_SHA256) connection, CLIENT_EARLY_TRAFFIC_SECRET in the key log.
 Scenario "no 0-RTT"          : ordinary 1-RTT connection (what the shipped samples look like)
 Scenario "0-RTT, separate"   : the client sends a request in a 0-RTT packet in its own datagram
 Scenario "0-RTT, coalesced"  : Initial(ClientHello) + 0-RTT(STREAM) in one datagram

Builds a synthetic capture + key log with an independent QUIC packet protector, runs the TLExport CLI
from the checkout given as argv[1] and compares the exported UDP payloads (per direction, per datagram)
with the STREAM data that was sent.  Exit 0 = property holds, non-zero = violated.
"""
import sys, os, subprocess, tempfile, hashlib, hmac

root = os.path.abspath(sys.argv[1])
sys.path.insert(0, root)

import dpkt
from cryptography.hazmat.primitives.ciphers import Cipher
from cryptography.hazmat.primitives.ciphers.algorithms import AES, ChaCha20
from cryptography.hazmat.primitives.ciphers.modes import ECB
from cryptography.hazmat.primitives.ciphers.aead import AESGCM, ChaCha20Poly1305

C_IP, S_IP = bytes([10, 0, 0, 1]), bytes([10, 0, 0, 2])
C_MAC, S_MAC = b"\x02\x00\x00\x00\x00\x01", b"\x02\x00\x00\x00\x00\x02"
C_PORT, S_PORT = 50000, 443
SALT_V1 = bytes.fromhex("38762cf7f55934b34d179ae6a4c80cadccbb7f0a")


# ---------------------------------------------------------------- crypto helpers (SHA-256 suites)
def hkdf_extract(salt, ikm):
    return hmac.new(salt, ikm, "sha256").digest()


def expand_label(secret, label, length):
    info = length.to_bytes(2, "big") + bytes([6 + len(label)]) + b"tls13 " + label + b"\x00"
    out, t, i = b"", b"", 1
    while len(out) < length:
        t = hmac.new(secret, t + info + bytes([i]), "sha256").digest()
        out += t
        i += 1
    return out[:length]


class Protector:
    """Packet protection of one direction at one encryption level.
    suite "aes": AES-128-GCM + AES-ECB header protection; suite "chacha": ChaCha20-Poly1305 + ChaCha20 HP."""

    def __init__(self, secret, suite="aes"):
        klen = 16 if suite == "aes" else 32
        self.suite = suite
        self.key = expand_label(secret, b"quic key", klen)
        self.iv = expand_label(secret, b"quic iv", 12)
        self.hp = expand_label(secret, b"quic hp", klen)

    def protect(self, header, pn, pn_len, payload, short):
        """header: unprotected header up to (excluding) the packet number."""
        pn_bytes = (pn & ((1 << (8 * pn_len)) - 1)).to_bytes(pn_len, "big")
        aad = header + pn_bytes
        nonce = bytes(a ^ b for a, b in zip(self.iv, pn.to_bytes(12, "big")))
        aead = AESGCM(self.key) if self.suite == "aes" else ChaCha20Poly1305(self.key)
        ct = aead.encrypt(nonce, payload, aad)
        sample = ct[4 - pn_len: 4 - pn_len + 16]
        if self.suite == "aes":
            enc = Cipher(AES(self.hp), ECB()).encryptor()
            mask = enc.update(sample) + enc.finalize()
        else:
            enc = Cipher(ChaCha20(self.hp, sample), mode=None).encryptor()   # counter = sample[:4], nonce = sample[4:]
            mask = enc.update(bytes(5))
        first = header[0] ^ (mask[0] & (0x1f if short else 0x0f))
        pn_prot = bytes(a ^ b for a, b in zip(pn_bytes, mask[1:1 + pn_len]))
        return bytes([first]) + header[1:] + pn_prot + ct


def varint(v):
    if v < 0x40:
        return bytes([v])
    if v < 0x4000:
        return (v | 0x4000).to_bytes(2, "big")
    if v < 0x40000000:
        return (v | 0x80000000).to_bytes(4, "big")
    return (v | 0xC000000000000000).to_bytes(8, "big")


def long_packet(prot, ptype, dcid, scid, pn, pn_len, payload, token=None):
    while pn_len + len(payload) < 8:
        payload += b"\x00"
    hdr = bytes([0xc0 | (ptype << 4) | (pn_len - 1)]) + b"\x00\x00\x00\x01" + bytes([len(dcid)]) + dcid + \
        bytes([len(scid)]) + scid
    if ptype == 0:
        hdr += varint(len(token or b"")) + (token or b"")
    hdr += varint(pn_len + len(payload) + 16)
    return prot.protect(hdr, pn, pn_len, payload, short=False)


def short_packet(prot, dcid, pn, pn_len, key_phase, payload):
    hdr = bytes([0x40 | (key_phase << 2) | (pn_len - 1)]) + dcid
    return prot.protect(hdr, pn, pn_len, payload, short=True)


# ---------------------------------------------------------------- frames
def crypto(offset, data):
    return b"\x06" + varint(offset) + varint(len(data)) + data


def stream(sid, offset, data, fin=False):
    t = 0x0a | (0x04 if offset else 0) | (0x01 if fin else 0)
    return bytes([t]) + varint(sid) + (varint(offset) if offset else b"") + varint(len(data)) + data


def ack(largest):
    return b"\x02" + varint(largest) + varint(0) + varint(0) + varint(0)


def hs_msg(mtype, body):
    return bytes([mtype]) + len(body).to_bytes(3, "big") + body


# ---------------------------------------------------------------- capture writer
class Capture:
    def __init__(self):
        self.dgrams = []       # (is_server, udp payload)
        self.expected = []     # (is_server, stream bytes) for datagrams that carry stream data

    def add(self, is_server, payload, stream_bytes=b""):
        self.dgrams.append((is_server, payload))
        if stream_bytes:
            self.expected.append((is_server, stream_bytes))

    def write(self, path):
        ts = 1700000000.0
        with open(path, "wb") as f:
            w = dpkt.pcapng.Writer(f)
            for is_server, payload in self.dgrams:
                src, dst, sp, dp, sm, dm = (S_IP, C_IP, S_PORT, C_PORT, S_MAC, C_MAC) if is_server else \
                    (C_IP, S_IP, C_PORT, S_PORT, C_MAC, S_MAC)
                udp = dpkt.udp.UDP(sport=sp, dport=dp, data=payload)
                udp.ulen = 8 + len(payload)
                ip = dpkt.ip.IP(src=src, dst=dst, p=dpkt.ip.IP_PROTO_UDP, data=udp)
                ip.len = 20 + udp.ulen
                eth = dpkt.ethernet.Ethernet(src=sm, dst=dm, type=dpkt.ethernet.ETH_TYPE_IP, data=ip)
                w.writepkt(bytes(eth), ts)
                ts += 0.01


def build_capture(path, keylog_path, suite, mode, offer_first=b""):
    coalesced = mode == "coalesced"
    cap = Capture()
    tag = suite.encode() + mode.encode()
    suite_id = b"\x13\x01" if suite == "aes" else b"\x13\x03"
    odcid, c_cid, s_cid = b"\x83\x94\xc8\xf0\x3e\x51\x57\x08", b"\xc1\xc2\xc3\xc4\xc5", b"\x51\x52\x53\x54\x55\x56\x57\x58"
    client_random = hashlib.sha256(b"quic-cr" + tag).digest()
    sec = {n: hashlib.sha256(n.encode() + tag).digest() for n in
           ("CLIENT_EARLY_TRAFFIC_SECRET", "CLIENT_HANDSHAKE_TRAFFIC_SECRET", "SERVER_HANDSHAKE_TRAFFIC_SECRET",
            "CLIENT_TRAFFIC_SECRET_0", "SERVER_TRAFFIC_SECRET_0")}
    with open(keylog_path, "w") as f:
        for n, v in sec.items():
            f.write("%s %s %s\n" % (n, client_random.hex(), v.hex()))

    init = hkdf_extract(SALT_V1, odcid)
    c_init, s_init = Protector(expand_label(init, b"client in", 32)), Protector(expand_label(init, b"server in", 32))
    c_early = Protector(sec["CLIENT_EARLY_TRAFFIC_SECRET"], suite)
    c_hs, s_hs = Protector(sec["CLIENT_HANDSHAKE_TRAFFIC_SECRET"], suite), Protector(sec["SERVER_HANDSHAKE_TRAFFIC_SECRET"], suite)
    c_app, s_app = Protector(sec["CLIENT_TRAFFIC_SECRET_0"], suite), Protector(sec["SERVER_TRAFFIC_SECRET_0"], suite)

    alpn = b"\x00\x10\x00\x05\x00\x03\x02h3"
    tp = b"\x00\x39\x00\x04\x04\x04\x80\x10"  # quic_transport_parameters: initial_max_data
    early = b"\x00\x2a\x00\x00"                   # early_data
    ext_c = b"\x00\x2b\x00\x03\x02\x03\x04" + alpn + tp + early
    offered = offer_first + suite_id
    ch = hs_msg(1, b"\x03\x03" + client_random + b"\x00" + len(offered).to_bytes(2, "big") + offered + b"\x01\x00"
                + len(ext_c).to_bytes(2, "big") + ext_c)
    ext_s = b"\x00\x2b\x00\x02\x03\x04" + b"\x00\x33\x00\x24\x00\x1d\x00\x20" + bytes(32)
    sh = hs_msg(2, b"\x03\x03" + hashlib.sha256(b"quic-sr").digest() + b"\x00" + suite_id + b"\x00"
                + len(ext_s).to_bytes(2, "big") + ext_s)
    ext_e = alpn + tp + early
    flight = hs_msg(8, len(ext_e).to_bytes(2, "big") + ext_e) + hs_msg(20, bytes(32))

    # client first flight: Initial(ClientHello) and a 0-RTT packet with a request
    req0 = b"GET /early HTTP/3-ish (0-RTT)\r\n\r\n"
    p_init = long_packet(c_init, 0, odcid, c_cid, 0, 1, crypto(0, ch) + bytes(200))
    p_0rtt = long_packet(c_early, 1, odcid, c_cid, 0, 2, stream(0, 0, req0, fin=True))
    if mode == "none":
        cap.add(False, p_init)
    elif coalesced:
        cap.add(False, p_init + p_0rtt, req0)
    else:
        cap.add(False, p_init)
        cap.add(False, p_0rtt, req0)
    cap.add(True, long_packet(s_init, 0, c_cid, s_cid, 0, 1, ack(0) + crypto(0, sh))
            + long_packet(s_hs, 2, c_cid, s_cid, 0, 1, crypto(0, flight)))
    cap.add(False, long_packet(c_init, 0, s_cid, c_cid, 1, 1, ack(0) + bytes(20))
            + long_packet(c_hs, 2, s_cid, c_cid, 0, 1, ack(0) + crypto(0, hs_msg(20, bytes(32)))))

    pn = {False: 0 if mode == "none" else 1, True: 0}      # 0-RTT and 1-RTT share one packet number space
    prot = {False: c_app, True: s_app}

    def send(is_server, frames, data=b""):
        dcid = c_cid if is_server else s_cid
        cap.add(is_server, short_packet(prot[is_server], dcid, pn[is_server], 2, 0, frames), data)
        pn[is_server] += 1

    send(True, b"\x1e" + ack(0))                                    # HANDSHAKE_DONE
    d = b"response to the early request " * 10
    send(True, ack(0) + stream(0, 0, d, fin=True), d)
    for i in range(2):
        d = b"client request %d" % i
        send(False, ack(pn[True] - 1) + stream(4 + 4 * i, 0, d, fin=True), d)
        d = b"server response %d " % i + bytes(range(100))
        send(True, ack(pn[False] - 1) + stream(4 + 4 * i, 0, d, fin=True), d)
    cap.write(path)
    return cap.expected


def export(inp, keylog, out):
    env = dict(os.environ, PYTHONPATH=root)
    r = subprocess.run([sys.executable, "-W", "ignore", "-m", "tlexport.main", "-i", inp, "-s", keylog, "-o", out],
                       cwd=root, env=env, capture_output=True, text=True)
    assert r.returncode == 0, "tlexport failed:\n" + r.stdout + r.stderr
    got = []
    with open(out, "rb") as f:
        for _ts, buf in dpkt.pcapng.Reader(f):
            eth = dpkt.ethernet.Ethernet(buf)
            udp = eth.data.data
            if isinstance(udp, dpkt.udp.UDP) and len(udp.data):
                got.append((udp.sport == S_PORT, bytes(udp.data)))
    return got


def main():
    bad = 0
    with tempfile.TemporaryDirectory() as tmp:
        for name, first in (("selected suite offered first (1301)", b""), ("another suite offered first (1302, 1301)", b"\x13\x02"), ("GREASE value first (0a0a, 1301)", b"\x0a\x0a")):
            inp, kl, out = (os.path.join(tmp, n) for n in ("in.pcapng", "keys.log", "out.pcapng"))
            expected = build_capture(inp, kl, "aes", "separate", first)
            got = export(inp, kl, out)
            e = [d for s, d in expected if not s]
            g = [d for s, d in got if not s]
            ok = g == e
            print("%s: client datagrams exported %d of %d (0-RTT request %s)" % (name, len(g), len(e), "present" if any(b"0-RTT" in d for d in g) else "MISSING"))
            bad += not ok
    sys.exit(1 if bad else 0)


if __name__ == "__main__":
    main()

"""C12 — capture container: byte-order pairing (E3), timestamp resolution decoding and block skipping (T9-pcapng)."""
from __future__ import annotations

import ast
from typing import List, Optional

from ..core import Tree, dotted, src, AnalysisError, AnchorMissing, body_walk, ancestors
from ..framework import Finding, RuleResult
from ..norm import try_fold, strip_stmts, canon, RoleSwap, clone
from ..cfg import cfg_of


def _is_le_flag(e: ast.AST) -> bool:
    d = dotted(e) or ""
    return d.split(".")[-1].lstrip("_") in ("le", "little_endian", "is_le")


def rule_E3(tree: Tree) -> RuleResult:
    r = RuleResult("E3", "byte-order pairing in the pcapng reader: `XLE if le else X`, '<'+f / '>'+f, flag set from the section header magic")
    m = tree.module("dpkt_dsb")
    cls = tree.cls("dpkt_dsb", "Reader")
    sites = []
    for f in cls.methods.values():
        for n in body_walk(f.node):
            if isinstance(n, ast.IfExp) and _is_le_flag(n.test):
                sites.append((f, n))
    r.floor = 5
    per_fn = {}
    for f, n in sites:
        r.instances += 1
        per_fn[f.qualname] = per_fn.get(f.qualname, 0) + 1
        ordn = per_fn[f.qualname]
        a, b = n.body, n.orelse
        ok = False
        what = ""
        ca, cb = try_fold(a), try_fold(b)
        if isinstance(ca, str) and isinstance(cb, str):
            ok = ca[:1] == "<" and cb[:1] == ">" and ca[1:] == cb[1:] and len(ca) > 1
            what = f"struct formats {ca!r} / {cb!r}"
        else:
            # class constructor calls or class names
            fa = a.func if isinstance(a, ast.Call) else a
            fb = b.func if isinstance(b, ast.Call) else b
            da, db = dotted(fa) or "", dotted(fb) or ""
            args_same = True
            if isinstance(a, ast.Call) and isinstance(b, ast.Call):
                args_same = canon(a.args) == canon(b.args) and canon(a.keywords) == canon(b.keywords)
            ok = da == db + "LE" and bool(db) and args_same
            what = f"block classes {da} / {db}"
        r.sample({"site": f"{m.line(n)} {f.qualname}", "what": what, "ok": ok})
        r.ob(ok, Finding("E3", f"dpkt_dsb:{f.qualname}:byte-order-site#{ordn}",
                         f"{f.qualname}: `{src(n, 140)}` must select the little-endian variant of the *same* class / struct format when the "
                         f"section is little-endian ({what})", m.line(n)))
    # block-type arm -> block class kind
    KIND = {"PCAPNG_BT_EPB": "EnhancedPacketBlock", "PCAPNG_BT_PB": "PacketBlock", "PCAPNG_BT_DSB": "DecryptionSecretBlock",
            "PCAPNG_BT_IDB": "InterfaceDescriptionBlock"}
    for f in cls.methods.values():
        for n in body_walk(f.node):
            if isinstance(n, ast.If) and isinstance(n.test, ast.Compare) and dotted(n.test.left) == "blk_type" and isinstance(n.test.ops[0], ast.Eq):
                const = (dotted(n.test.comparators[0]) or "").split(".")[-1]
                if const not in KIND:
                    continue
                r.instances += 1
                used = set()
                for st in n.body:
                    for c in ast.walk(st):
                        if isinstance(c, ast.Call):
                            nm = (dotted(c.func) or "").split(".")[-1]
                            if nm.endswith("Block") or nm.endswith("BlockLE"):
                                used.add(nm[:-2] if nm.endswith("LE") else nm)
                by_order = any(isinstance(x, ast.IfExp) and _is_le_flag(x.test) for st in n.body for x in ast.walk(st))
                r.ob(used == {KIND[const]} and by_order, Finding("E3", f"dpkt_dsb:{f.qualname}:block-class:{const}",
                                                   f"{f.qualname}: blocks of type {const} must be parsed with {KIND[const]}LE / {KIND[const]} selected by the section's byte order; "
                                                   f"found {sorted(used)}, selected by byte order: {by_order}", m.line(n)))
    # section header arms
    init = cls.methods.get("__init__")
    if init is None:
        raise AnchorMissing("Reader.__init__ not found")
    r.instances += 1
    arms = []
    for n in body_walk(init.node):
        if isinstance(n, ast.If) and isinstance(n.test, ast.Compare) and (dotted(n.test.left) or "").endswith(".bom"):
            cur = n
            while True:
                arms.append((dotted(cur.test.comparators[0]) or "", cur.body))
                if len(cur.orelse) == 1 and isinstance(cur.orelse[0], ast.If) and isinstance(cur.orelse[0].test, ast.Compare) \
                        and (dotted(cur.orelse[0].test.left) or "").endswith(".bom"):
                    cur = cur.orelse[0]
                    continue
                else_body = cur.orelse
                break
            break
    if len(arms) != 2:
        raise AnchorMissing("Reader.__init__: the two byte-order-magic arms were not found")
    ok = True
    detail = []
    for magic, body in arms:
        le = magic.endswith("_LE")
        flag = None
        shb_cls = None
        swapped = None
        for st in body:
            if isinstance(st, ast.Assign) and _is_le_flag(st.targets[0]):
                flag = try_fold(st.value)
            for c in ast.walk(st):
                if isinstance(c, ast.Call) and (dotted(c.func) or "").split(".")[-1].startswith("SectionHeaderBlock"):
                    shb_cls = (dotted(c.func) or "").split(".")[-1]
                if isinstance(c, ast.Call) and (dotted(c.func) or "").endswith("read"):
                    swapped = any(isinstance(x, ast.Call) and (dotted(x.func) or "").endswith("_swap32b") for x in ast.walk(c))
                    # the rest of the block is (total length field of the header just unpacked) − (header length): `shb.len`, byte-swapped in the LE arm
                    # (the header was unpacked big-endian); `shb._len` is dpkt's private name of a different quantity
                    want_len = "dpng._swap32b(shb.len) - shb.__hdr_len__" if le else "shb.len - shb.__hdr_len__"
                    if not c.args or src(c.args[0]) != want_len:
                        swapped = None
        good = flag is le and shb_cls == ("SectionHeaderBlockLE" if le else "SectionHeaderBlock") and swapped is le
        detail.append(f"{magic}: flag={flag} class={shb_cls} length-swapped={swapped}")
        ok = ok and good
    raises = any(isinstance(s, ast.Raise) for s in else_body)
    r.ob(ok and raises, Finding("E3", "dpkt_dsb:Reader.__init__:section-header-arms",
                                f"the little-endian magic must set the LE flag, swap the (big-endian-unpacked) length and re-read the header with the LE "
                                f"class; the big-endian magic the opposite; anything else must raise ({'; '.join(detail)})", m.line(init.node)))
    return r


def rule_T9_pcapng(tree: Tree) -> RuleResult:
    r = RuleResult("T9p", "if_tsresol decoding, identical EPB/PB timestamp expression, unconditional block consumption, DSB marker agreement")
    m = tree.module("dpkt_dsb")
    cls = tree.cls("dpkt_dsb", "Reader")
    init = cls.methods["__init__"]
    it = cls.methods.get("__iter__")
    if it is None:
        raise AnchorMissing("Reader.__iter__ not found")
    # tsresol
    r.instances += 1
    base_ok = exp_ok = False
    for n in body_walk(init.node):
        if isinstance(n, ast.IfExp) and isinstance(n.test, ast.BinOp) and isinstance(n.test.op, ast.BitAnd):
            if try_fold(n.test.right) == 0x80 and try_fold(n.body) == 2 and try_fold(n.orelse) == 10:
                base_ok = True
        if isinstance(n, ast.BinOp) and isinstance(n.op, ast.Pow) and isinstance(n.right, ast.BinOp) and isinstance(n.right.op, ast.BitAnd):
            if try_fold(n.right.right) == 0x7F:
                exp_ok = True
    r.ob(base_ok and exp_ok, Finding("T9p", "dpkt_dsb:Reader.__init__:tsresol",
                                     "if_tsresol: MSB (0x80) selects base 2 instead of 10, the exponent is the low 7 bits (0x7f); divisor = base ** exponent",
                                     m.line(init.node)))
    # default divisor 1e6
    r.instances += 1
    dflt = [n for n in body_walk(init.node) if isinstance(n, ast.Assign) and (dotted(n.targets[0]) or "").endswith("_divisor")]
    d0 = dflt[0].value if dflt else None
    d0v = try_fold(d0.args[0]) if isinstance(d0, ast.Call) and d0.args else try_fold(d0) if d0 is not None else None
    r.ob(d0v == 1e6, Finding("T9p", "dpkt_dsb:Reader.__init__:default-resolution", f"default timestamp divisor must be 1e6 (microseconds), found {d0v}", m.line(init.node)))
    # EPB / PB timestamp expressions identical modulo the block variable; of the form offset + ((hi << 32) | lo) / divisor
    r.instances += 1
    ts_exprs = []
    for n in body_walk(it.node):
        if isinstance(n, ast.Assign) and dotted(n.targets[0]) == "ts" and not isinstance(n.value, (ast.Constant, ast.UnaryOp)):
            ts_exprs.append(n.value)

    def norm_ts(e):
        e = clone(e)
        for x in ast.walk(e):
            if isinstance(x, ast.Name) and x.id in ("epb", "pb", "blk", "block"):
                x.id = "B"
        return canon(e)
    want = canon(ast.parse("self._tsoffset + (((B.ts_high << 32) | B.ts_low) / self._divisor)", mode="eval").body)
    ok = len(ts_exprs) >= 2 and all(norm_ts(e) == want for e in ts_exprs)
    r.ob(ok, Finding("T9p", "dpkt_dsb:Reader.__iter__:timestamp-expression",
                     f"EPB and PB timestamps must both be tsoffset + ((ts_high << 32) | ts_low) / divisor; found {[src(e, 100) for e in ts_exprs]}",
                     m.line(it.node)))
    # unconditional consumption: `buf += f.read(blk_len - 8)` dominates every block-type test, in both loops
    for f in (init, it):
        r.instances += 1
        cfg = cfg_of(f.node)
        loops = [n for n in cfg.nodes if n.kind == "while"]
        ok_all = bool(loops)
        for w in loops:
            body_ids = cfg.loop_body_nodes(w.id)
            reads = [n for n in cfg.nodes if n.id in body_ids and n.kind == "stmt" and isinstance(n.ast, (ast.AugAssign, ast.Assign))
                     and any(isinstance(c, ast.Call) and (dotted(c.func) or "").endswith(".read") and c.args
                             and isinstance(c.args[0], ast.BinOp) and isinstance(c.args[0].op, ast.Sub) and try_fold(c.args[0].right) == 8
                             for c in ast.walk(n.ast))]
            tests = [n for n in cfg.nodes if n.id in body_ids and n.kind == "if" and "blk_type" in src(n.ast.test)]
            if not reads or not tests:
                ok_all = False
                continue
            for tnode in tests:
                if not any(cfg.dominates(rd.id, tnode.id) for rd in reads):
                    ok_all = False
            # header read is 8 bytes and unpacked as two 32-bit words
            hdr = [n for n in cfg.nodes if n.id in body_ids and n.kind == "stmt" and isinstance(n.ast, ast.Assign)
                   and any(isinstance(c, ast.Call) and (dotted(c.func) or "").endswith(".read") and c.args and try_fold(c.args[0]) == 8 for c in ast.walk(n.ast))]
            if not hdr:
                ok_all = False
        r.ob(ok_all, Finding("T9p", f"dpkt_dsb:{f.qualname}:block-consumption",
                             f"{f.qualname}: every block must be consumed (`read(blk_len - 8)` after the 8-byte header) before its type is "
                             f"inspected, so that unknown blocks are skipped without effect", m.line(f.node)))
    # every iteration starts at the beginning of the file (blocks between section header and interface description — e.g. a DSB — are packets of the stream too)
    r.instances += 1
    first = strip_stmts(it.node.body)[0] if it.node.body else None
    r.ob(first is not None and src(first) in ("self.__f.seek(0)", "self._Reader__f.seek(0)"),
         Finding("T9p", "dpkt_dsb:Reader.__iter__:rewind", f"Reader.__iter__ must rewind to offset 0 before reading blocks, found `{src(first) if first is not None else None}`: secrets blocks "
                                                          f"placed before the interface description would never be delivered", m.line(it.node)))
    # nothing but end-of-file leaves the packet loop: no break / return / raise under a block-type test
    r.instances += 1
    cfgi = cfg_of(it.node)
    bad = []
    for n in cfgi.nodes:
        if n.kind == "stmt" and isinstance(n.ast, (ast.Break, ast.Return, ast.Raise)) and n.loops:
            facts = [(src(e), t) for e, t in cfgi.facts_at(n.id)]
            if not any(s == "len(buf) < 8" and t for s, t in facts):
                bad.append(f"`{src(n.ast)}` under {[s for s, t in facts if t][:2]}")
    r.ob(not bad, Finding("T9p", "dpkt_dsb:Reader.__iter__:only-eof-ends",
                          f"the block loop may only end at end of file (`len(buf) < 8`); found {bad}: blocks after an interspersed non-packet block (statistics, name resolution, custom) would be dropped", m.line(it.node)))
    # what the reader hands out: exactly (ts, <block>.pkt_data) — the captured bytes of the block, untrimmed — once per packet / secrets block
    r.instances += 1
    ys = [n for n in body_walk(it.node) if isinstance(n, ast.Yield)]
    bady = []
    for y in ys:
        v = y.value
        if not (isinstance(v, ast.Tuple) and len(v.elts) == 2 and dotted(v.elts[0]) == "ts" and isinstance(v.elts[1], ast.Attribute) and v.elts[1].attr == "pkt_data"
                and isinstance(v.elts[1].value, ast.Name)):
            bady.append(src(y, 80))
    r.ob(len(ys) == 3 and not bady, Finding("T9p", "dpkt_dsb:Reader.__iter__:yield-shape",
                                            f"Reader.__iter__ must yield (ts, block.pkt_data) for EPB, PB and DSB blocks — the captured bytes as they are (the legacy pcap reader does "
                                            f"the same); found {bady or len(ys)}", m.line(it.node)))
    # DSB marker: the reader yields ts = -1 for DSB payloads; run() tests ts == -1
    r.instances += 1
    marker = None
    for n in body_walk(it.node):
        if isinstance(n, ast.If) and "PCAPNG_BT_DSB" in src(n.test):
            for st in n.body:
                if isinstance(st, ast.Assign) and dotted(st.targets[0]) == "ts":
                    marker = try_fold(st.value)
    run = tree.func("main", "run")
    tested = [try_fold(n.comparators[0]) for n in body_walk(run.node)
              if isinstance(n, ast.Compare) and dotted(n.left) == "ts" and isinstance(n.ops[0], ast.Eq)]
    dsb_const = try_fold(m.assigns.get("PCAPNG_BT_DSB")) if m.assigns.get("PCAPNG_BT_DSB") is not None else None
    r.ob(marker is not None and marker in tested and dsb_const == 0x0A,
         Finding("T9p", "dpkt_dsb:Reader.__iter__:dsb-marker",
                 f"the reader marks DSB payloads with ts={marker}, run() tests ts == {tested}; DSB block type constant is {dsb_const} (must be 0x0A)", m.line(it.node)))
    # DSB block layout (pcapng draft §4.7): type, total length, secrets type, secrets length, [data], [options], total length
    r.instances += 1
    dsb = tree.cls("dpkt_dsb", "DecryptionSecretBlock")
    hdr = None
    for st in dsb.node.body:
        if isinstance(st, ast.Assign) and dotted(st.targets[0]) == "__hdr__":
            hdr = [(try_fold(e.elts[0]), try_fold(e.elts[1])) for e in st.value.elts if isinstance(e, ast.Tuple)]
    un = dsb.methods.get("unpack")
    off_ok = data_ok = False
    if un is not None:
        for n in body_walk(un.node):
            if isinstance(n, ast.Assign) and dotted(n.targets[0]) == "po":
                off_ok = canon(n.value) == canon(ast.parse("self.__hdr_len__ - 4", mode="eval").body)
            if isinstance(n, ast.Assign) and (dotted(n.targets[0]) or "").endswith("pkt_data"):
                data_ok = canon(n.value) == canon(ast.parse("buf[po:po + self.secrets_length]", mode="eval").body)
    opts_ok = False
    if un is not None:
        for n in body_walk(un.node):
            if isinstance(n, ast.Assign) and dotted(n.targets[0]) == "opts_offset":
                opts_ok = canon(n.value) == canon(ast.parse("po + dpng._align32b(self.secrets_length)", mode="eval").body)
    r.ob(hdr == [("type", "I"), ("len", "I"), ("secrets_type", "I"), ("secrets_length", "I"), ("_len", "I")] and off_ok and data_ok and opts_ok,
         Finding("T9p", "dpkt_dsb:DecryptionSecretBlock:layout",
                 f"DSB layout must be type,len,secrets_type,secrets_length (4×uint32) followed by secrets_length bytes at offset hdr_len-4; "
                 f"found header {hdr}, offset ok={off_ok}, data slice ok={data_ok}, options at the 32-bit aligned end of the secrets={opts_ok}", m.line(dsb.node)))
    # both readers feed the same loop
    r.instances += 1
    rc = cfg_of(run.node)
    readers = {}
    for n in body_walk(run.node):
        if isinstance(n, ast.Assign) and dotted(n.targets[0]) == "pcap_reader" and isinstance(n.value, ast.Call):
            nid = rc.node_of(n)
            readers[dotted(n.value.func)] = [(src(t), truth) for t, truth in rc.facts_at(nid)]
    ok = set(readers) == {"dpkt.pcap.Reader", "Reader"} and readers.get("dpkt.pcap.Reader") == [("args.pcaplegacy", True)] \
        and readers.get("Reader") == [("args.pcaplegacy", False)]
    r.ob(ok, Finding("T9p", "main:run:reader-selection", f"-l must select dpkt's legacy pcap reader and its absence the pcapng reader, both bound to the "
                                                         f"one variable the capture loop iterates; found {readers}", run.module.line(run.node)))
    return r

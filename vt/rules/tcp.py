"""C05 / C07 / C08 — TCP reassembly: dedupe pairing (A9), empty-segment skip (A6a), framing loops (A2 + loop-replay lemma),
record→packet overlap (D2 part), modular sequence arithmetic (D9) and expected-sequence state."""
from __future__ import annotations

import ast
from typing import Dict, List, Optional, Set, Tuple

from ..core import Tree, Func, dotted, src, AnalysisError, AnchorMissing, body_walk, ancestors
from ..framework import Finding, RuleResult
from ..norm import try_fold, strip_stmts, canon, clone
from ..cfg import cfg_of, fact_holds
from ..dataflow import reaching_definitions, defs_of


def _append_calls(fn: ast.FunctionDef, target_suffix: str) -> List[ast.Call]:
    return [n for n in body_walk(fn) if isinstance(n, ast.Call) and isinstance(n.func, ast.Attribute) and n.func.attr == "append"
            and (dotted(n.func.value) or "").endswith(target_suffix)]


def rule_A9(tree: Tree) -> RuleResult:
    r = RuleResult("A9", "duplicate suppression: a segment is buffered only if its sequence number was not seen in its own direction, and is then recorded there")
    f = tree.func("session", "Session.handle_packet")
    m = f.module
    cfg = cfg_of(f.node)
    buf_appends = _append_calls(f.node, "packet_buffer")
    if not buf_appends:
        raise AnchorMissing("Session.handle_packet: append to the packet buffer not found")
    # sequence variable provenance
    seqvars = {dotted(n.targets[0]) for n in body_walk(f.node) if isinstance(n, ast.Assign) and dotted(n.value) == "packet.seq"}
    seqvars.add("packet.seq")
    dirs_seen = set()
    for ap in buf_appends:
        r.instances += 1
        nid = cfg.node_of(ap)
        # direction of this arm: outcome of the (possibly negated) endpoint test
        direction = None
        for b, lab in cfg.conditions_at(nid):
            t = cfg.nodes[b].ast.test if cfg.nodes[b].kind == "if" else None
            if t is None:
                continue
            truth = lab == "T"
            while isinstance(t, ast.UnaryOp) and isinstance(t.op, ast.Not):
                t, truth = t.operand, not truth
            txt = src(t)
            if "self.server_ip" in txt and "self.server_port" in txt and "ip_src" in txt and "sport" in txt:
                direction = "server" if truth else "client"
            elif "self.client_ip" in txt and "self.client_port" in txt and "ip_src" in txt and "sport" in txt:
                direction = "client" if truth else "server"
        seen_list = None
        for t, truth in cfg.facts_at(nid):
            if not isinstance(t, ast.Compare) or len(t.ops) != 1:
                continue
            if isinstance(t.ops[0], ast.In) and not truth and dotted(t.left) in seqvars:
                seen_list = dotted(t.comparators[0])
            if isinstance(t.ops[0], ast.NotIn) and truth and dotted(t.left) in seqvars:
                seen_list = dotted(t.comparators[0])
        key = f"session:Session.handle_packet:dedupe:{direction or 'arm' + str(r.instances)}"
        ok = seen_list is not None and direction is not None and seen_list.endswith("_" + direction)
        recorded = False
        if seen_list:
            for rec in [n for n in body_walk(f.node) if isinstance(n, ast.Call) and isinstance(n.func, ast.Attribute)
                        and n.func.attr in ("append", "add") and dotted(n.func.value) == seen_list and n.args and dotted(n.args[0]) in seqvars]:
                rid = cfg.node_of(rec)
                if cfg.dominates(rid, nid) or (cfg.dominates(nid, rid) and cfg.postdominates(rid, nid)):
                    recorded = True
        if direction:
            dirs_seen.add(direction)
        r.sample({"arm": direction, "seen_list": seen_list, "recorded": recorded})
        r.ob(ok and recorded, Finding("A9", key,
                                      f"the {direction} arm must buffer the segment only after `seq not in seen_packets_{direction}` and record seq in that same "
                                      f"list on the same path (found test on {seen_list}, recorded={recorded}): otherwise an exact retransmission is framed twice "
                                      f"or a first transmission is dropped", m.line(ap)))
    # the duplicate filter is the only way into the packet buffer
    r.instances += 1
    ses = tree.cls("session", "Session")
    outside = []
    for meth in ses.methods.values():
        if meth.name == "handle_packet":
            continue
        for n in body_walk(meth.node):
            if isinstance(n, ast.Call) and isinstance(n.func, ast.Attribute) and n.func.attr in ("append", "extend", "insert") and dotted(n.func.value) == "self.packet_buffer":
                outside.append(f"{meth.qualname}: {src(n, 60)}")
    first = [src(c, 40) for c in body_walk(ses.methods["__init__"].node) if isinstance(c, ast.Call) and dotted(c.func) == "self.handle_packet"]
    r.ob(not outside and first == ["self.handle_packet(packet)"], Finding("A9", "session:Session:packet-buffer-entry",
                                                                        f"segments may enter the packet buffer only through handle_packet (which records their sequence number), including the first one in __init__; "
                                                                        f"found {outside or first}: a retransmission of an unrecorded segment is framed twice", m.relpath))
    r.instances += 1
    r.ob(dirs_seen == {"server", "client"}, Finding("A9", "session:Session.handle_packet:dedupe:both-directions",
                                                    f"both directions must buffer their segments (found arms for {sorted(dirs_seen)})", m.line(f.node)))
    # the memory of accepted sequence numbers is unbounded for the life of the connection: a bounded container (deque(maxlen=…), a window) forgets old numbers and
    # accepts a late exact duplicate a second time, which then blocks the direction
    r.instances += 1
    inits = {dotted(a.targets[0]): a.value for a in body_walk(ses.methods["__init__"].node) if isinstance(a, ast.Assign) and (dotted(a.targets[0]) or "").startswith("self.seen_packets_")}
    okm = set(inits) == {"self.seen_packets_server", "self.seen_packets_client"} and all(
        (isinstance(v, (ast.List, ast.Set)) and not getattr(v, "elts", None)) or (isinstance(v, ast.Call) and dotted(v.func) in ("list", "set") and not v.args and not v.keywords) for v in inits.values())
    r.ob(okm, Finding("A9", "session:Session.__init__:seen-unbounded", f"seen_packets_server / seen_packets_client must start as empty unbounded containers ([] or set()); found "
                                                                       f"{ {k: src(v, 40) for k, v in inits.items()} }", ses.module.line(ses.methods['__init__'].node)))
    return r


def rule_A6a(tree: Tree) -> RuleResult:
    r = RuleResult("A6a", "empty TCP segments never reach the session (a pure ACK carries the next data segment's sequence number)")
    run = tree.func("main", "run")
    cfg = cfg_of(run.node)
    calls = [n for n in body_walk(run.node) if isinstance(n, ast.Call) and dotted(n.func) == "handle_packet"]
    if not calls:
        raise AnchorMissing("run(): handle_packet call not found")
    for call in calls:
        r.instances += 1
        nid = cfg.node_of(call)
        facts = cfg.facts_at(nid)
        ok = fact_holds(facts, ("len(packet.tls_data) == 0", "packet.tls_data == b''", "len(packet.tls_data) < 1"), False) or \
            fact_holds(facts, ("len(packet.tls_data) != 0", "len(packet.tls_data) > 0", "packet.tls_data", "len(packet.tls_data) >= 1", "len(packet.tls_data)"), True)
        r.ob(ok, Finding("A6a", "main:run:empty-segment-skip",
                         "handle_packet must be reachable only for segments with payload (`len(packet.tls_data) == 0` → continue): a payload-less ACK "
                         "has the sequence number of the following data segment and would make the duplicate filter drop that segment", run.module.line(call)))
    return r


def _reduced_mod32(e: ast.AST) -> bool:
    for n in ast.walk(e):
        if isinstance(n, ast.BinOp) and isinstance(n.op, ast.Mod) and try_fold(n.right) == 1 << 32:
            return True
        if isinstance(n, ast.BinOp) and isinstance(n.op, ast.BitAnd) and try_fold(n.right) == 0xFFFFFFFF:
            return True
    return False


def _signed_distance_key(key: ast.AST, bases: Set[str]) -> bool:
    """key is `lambda x: ((x.seq - base + 2^31) mod 2^32) [- 2^31]` for a base in `bases` (serial-number order, RFC 1982)."""
    from .pkn import nf
    if not isinstance(key, ast.Lambda) or len(key.args.args) != 1:
        return False
    p = key.args.args[0].arg

    class _Fold(ast.NodeTransformer):
        def visit_BinOp(self, node):
            self.generic_visit(node)
            v = try_fold(node)
            return ast.copy_location(ast.Constant(v), node) if isinstance(v, int) else node
    import copy
    key = _Fold().visit(copy.deepcopy(ast.fix_missing_locations(ast.parse(src(key, 2000), mode="eval").body)))
    for n in ast.walk(key.body):
        if isinstance(n, ast.BinOp) and ((isinstance(n.op, ast.Mod) and try_fold(n.right) == 1 << 32) or (isinstance(n.op, ast.BitAnd) and try_fold(n.right) == 0xFFFFFFFF)):
            for b in bases:
                env = {f"{p}.seq": ("s", "X"), b: ("s", "B")}
                want = nf(ast.parse("X - B + 2147483648", mode="eval").body, {"X": ("s", "X"), "B": ("s", "B")})
                if nf(n.left, env) == want:
                    # whatever surrounds the reduction must be monotone: nothing, or subtraction of a constant
                    if n is key.body:
                        return True
                    par = key.body
                    if isinstance(par, ast.BinOp) and isinstance(par.op, (ast.Sub, ast.Add)) and par.left is n and isinstance(try_fold(par.right), int):
                        return True
    return False


def rule_D9_seq(tree: Tree) -> RuleResult:
    r = RuleResult("D9s", "TCP sequence arithmetic that feeds a comparison or sort key is reduced modulo 2^32")
    for qn in ("Session.extract_server_buf", "Session.extract_client_buf"):
        f = tree.func("session", qn)
        r.instances += 1
        bad = []
        wrongmod = []
        for n in body_walk(f.node):
            if isinstance(n, ast.Compare) and ".seq" in src(n, 400):
                adds = [x for x in ast.walk(n) if isinstance(x, ast.BinOp) and isinstance(x.op, ast.Add) and ".seq" in src(x, 300)]
                if not adds:
                    continue
                if _reduced_mod32(n):
                    continue
                other = [x for x in ast.walk(n) if isinstance(x, ast.BinOp) and isinstance(x.op, (ast.Mod, ast.BitAnd)) and isinstance(try_fold(x.right), int)]
                if other:
                    wrongmod.append(src(n, 200))
                else:
                    bad.append(src(n, 120))
        r.instances += 1
        r.ob(not wrongmod, Finding("D9s", f"session:{qn}:seq-wrong-modulus",
                                   f"{qn}: `{wrongmod[0] if wrongmod else ''}` reduces the sequence arithmetic with a constant that is not 2^32 (mask 0xFFFFFFFF / modulus 0x100000000): "
                                   f"a segment ending exactly at the wrap is treated as a gap", f.module.line(f.node)))
        import hashlib
        tag = hashlib.sha1((bad[0] if bad else "").replace("server", "X").replace("client", "X").encode()).hexdigest()[:6] if bad else ""
        std = "self.X_packet_buffer[i].seq + len(self.X_packet_buffer[i].tls_data) != self.X_packet_buffer[i + 1].seq"
        suffix = "" if (not bad or bad[0].replace("server", "X").replace("client", "X") == std) else f":{tag}"
        r.ob(not bad, Finding("D9s", f"session:{qn}:seq-add-unreduced{suffix}",
                              f"{qn}: `{bad[0] if bad else ''}` adds a length to a 32-bit sequence number without reducing modulo 2^32: a connection "
                              f"whose sequence space wraps never satisfies the contiguity test again", f.module.line(f.node)))
        r.instances += 1
        sorts = [n for n in body_walk(f.node) if isinstance(n, ast.Call) and isinstance(n.func, ast.Attribute) and n.func.attr == "sort"]
        raw = [src(s, 80) for s in sorts if any(k.arg == "key" and ".seq" in src(k.value) and not _reduced_mod32(k.value) and "-" not in src(k.value) for k in s.keywords)]
        # a wrap-aware (relative) sort key needs a base that precedes every pending segment: the direction's expected sequence number,
        # never an element of the buffer being sorted (its first element is merely the first to *arrive*)
        r.instances += 1
        badbase = []
        for sc in sorts:
            for k in sc.keywords:
                if k.arg == "key" and ".seq" in src(k.value) and "-" in src(k.value):
                    names = {x.id for x in ast.walk(k.value) if isinstance(x, ast.Name)}
                    frombuf = []
                    for a in body_walk(f.node):
                        if isinstance(a, ast.Assign) and dotted(a.targets[0]) in names and "_packet_buffer[" in src(a.value):
                            frombuf.append(a)
                    if "_packet_buffer[" in src(k.value):
                        badbase.append(src(k.value, 80))
                    elif frombuf and not _signed_distance_key(k.value, {dotted(a.targets[0]) for a in frombuf}):
                        # an element of the buffer is a valid base only for the *signed* distance ((seq - base + 2^31) mod 2^32):
                        # segments that precede the base then sort before it
                        badbase.append(src(frombuf[0], 80))
        r.ob(not badbase, Finding("D9s", f"session:{qn}:seq-sort-base",
                                  f"{qn}: the sort key is the unsigned distance to an element of the buffer being sorted (`{badbase[0] if badbase else ''}`): when that segment was overtaken "
                                  f"(arrival S2 S1 S3) its predecessors wrap to the far end and the run is framed out of order; with a base from the buffer the key must be the signed "
                                  f"distance (seq - base + 2^31) mod 2^32", f.module.line(f.node)))
        r.ob(not raw, Finding("D9s", f"session:{qn}:seq-sort-absolute",
                              f"{qn}: `{raw[0] if raw else ''}` orders buffered segments by absolute sequence number: after a wrap the segment with the "
                              f"numerically small number sorts before its predecessors", f.module.line(f.node)))
    return r


def rule_expected_seq(tree: Tree) -> RuleResult:
    r = RuleResult("XSEQ", "release of a buffered run is tied to per-direction expected-sequence state advanced by the consumed length")
    ses = tree.cls("session", "Session")
    for qn, d in (("Session.extract_server_buf", "server"), ("Session.extract_client_buf", "client")):
        f = tree.func("session", qn)
        r.instances += 1
        # an attribute of self that is compared with <buffer>[0].seq (or the first element's seq) and is assigned from seq + len
        compared = set()
        for n in body_walk(f.node):
            if isinstance(n, ast.Compare):
                sides = [n.left] + n.comparators
                txt = [src(s) for s in sides]
                if any("[0].seq" in t for t in txt):
                    for s in sides:
                        dd = dotted(s)
                        if dd and dd.startswith("self."):
                            compared.add(dd)
        advanced = set()
        for meth in ses.methods.values():
            for n in body_walk(meth.node):
                if isinstance(n, (ast.Assign, ast.AugAssign)):
                    tg = dotted(n.targets[0] if isinstance(n, ast.Assign) else n.target)
                    if tg in compared and ("len(" in src(n.value) or "total_packet_len" in src(n.value) or "index" in src(n.value)):
                        advanced.add(tg)
        ok = bool(compared & advanced)
        r.ob(ok, Finding("XSEQ", f"session:{qn}:no-expected-seq",
                         f"{qn} releases a contiguous run without comparing its first sequence number with the next expected one of the {d} direction: "
                         f"a segment displaced ahead of its predecessor that starts on a record boundary is framed and decrypted out of order", f.module.line(f.node)))
    return r


# ------------------------------------------------------------------------------------------ framing
def rule_framing(tree: Tree) -> RuleResult:
    r = RuleResult("FR", "record framing: progress ≥ 5 bytes per step, records released only when all bytes are buffered (loop-replay lemma), "
                         "record slice = [index, index+len), canonical overlap test for packet attribution, buffer cleared after release")
    for qn, d in (("Session.extract_server_buf", "server"), ("Session.extract_client_buf", "client")):
        f = tree.func("session", qn)
        m = f.module
        cfg = cfg_of(f.node)
        rd = reaching_definitions(cfg)
        key = f"session:{qn}"
        loops = [n for n in cfg.nodes if n.kind == "while"]
        if len(loops) != 2:
            raise AnalysisError(f"{qn}: expected two framing loops (scan, release), found {len(loops)}")
        scan, rel = loops
        # --- (i) scan loop progress: every cycle passes an `index += record_len` whose addend is int.from_bytes(..) + 5
        r.instances += 1

        def step_nodes(loop):
            body = cfg.loop_body_nodes(loop.id)
            return [n for n in cfg.nodes if n.id in body and n.kind == "stmt" and isinstance(n.ast, ast.AugAssign)
                    and isinstance(n.ast.op, ast.Add) and dotted(n.ast.target) == "index"]

        def addend_lower_bound(stepn) -> Optional[int]:
            v = stepn.ast.value
            name = dotted(v)
            if name is None:
                return _lower_bound_expr(v)
            defs = rd.get(stepn.id, {}).get(name, set())
            lbs = []
            for dnode in defs:
                a = cfg.nodes[dnode].ast
                if isinstance(a, ast.Assign):
                    lb = _lower_bound_expr(a.value, name)
                    if lb is None:
                        return None
                    lbs.append(lb)
                else:
                    return None
            # `x = slice; x = int.from_bytes(x) + 5` : the last definition dominates
            return max(lbs) if lbs else None
        ok = True
        for loop in (scan, rel):
            steps = step_nodes(loop)
            if len(steps) != 1:
                ok = False
                continue
            lb = addend_lower_bound(steps[0])
            if lb is None or lb < 1:
                ok = False
            # every path from the loop header back to itself passes the step
            body = cfg.loop_body_nodes(loop.id)
            back = [p for p in cfg.predecessors(loop.id) if p in body]
            for bnode in back:
                if not (cfg.dominates(steps[0].id, bnode) or steps[0].id == bnode):
                    ok = False
        r.ob(ok, Finding("FR", key + ":progress", f"{qn}: each framing loop must advance `index` by the record length (int.from_bytes(len field) + 5 ≥ 5) on every cycle; "
                                                  f"otherwise arbitrary bytes on a watched port can stall the run", m.line(f.node)))
        # --- (ii) scan loop exits and need_data
        r.instances += 1
        nd_false = [n for n in cfg.nodes if n.kind == "stmt" and isinstance(n.ast, ast.Assign) and dotted(n.ast.targets[0]) == "need_data" and try_fold(n.ast.value) is False]
        nd_true = [n for n in cfg.nodes if n.kind == "stmt" and isinstance(n.ast, ast.Assign) and dotted(n.ast.targets[0]) == "need_data" and try_fold(n.ast.value) is True]
        ok = bool(nd_false) and bool(nd_true)
        for n in nd_false:
            if not fact_holds(cfg.facts_at(n.id), ("total_packet_len - index == 0", "index == total_packet_len", "total_packet_len == index"), True):
                ok = False
        # the short-remainder exit: `total - index < 5`
        short_ok = False
        for n in nd_true:
            if fact_holds(cfg.facts_at(n.id), ("total_packet_len - index < 5",), True) or fact_holds(cfg.facts_at(n.id), ("total_packet_len - index >= 5",), False):
                short_ok = True
        r.ob(ok and short_ok, Finding("FR", key + ":whole-records",
                                      f"{qn}: `need_data = False` (records may be released) must be set only when the scan lands exactly on the end of the buffered bytes "
                                      f"(`total_packet_len - index == 0`), and a remainder shorter than a record header (< 5) must keep the data buffered", m.line(f.node)))
        # --- (iii) loop-replay lemma: release loop under `not need_data`, same start, same step statements, no write to the scanned data in between
        r.instances += 1
        gated = fact_holds(cfg.facts_at(rel.id), "need_data", False)
        rel_test = src(rel.ast.test)
        test_ok = rel_test in ("index != total_packet_len", "total_packet_len != index", "index < total_packet_len", "total_packet_len - index != 0", "total_packet_len > index")

        def start_value(loop):
            defs = rd.get(loop.id, {}).get("index", set())
            vals = set()
            body = cfg.loop_body_nodes(loop.id)
            for dnode in defs:
                if dnode in body:
                    continue
                a = cfg.nodes[dnode].ast
                vals.add(try_fold(a.value, default="?") if isinstance(a, ast.Assign) else "?")
            return vals

        def step_sig(loop):
            body = cfg.loop_body_nodes(loop.id)
            sig = []
            for n in sorted(body):
                a = cfg.nodes[n].ast
                if cfg.nodes[n].kind == "stmt" and isinstance(a, (ast.Assign, ast.AugAssign)):
                    tg = dotted(a.targets[0] if isinstance(a, ast.Assign) else a.target)
                    if tg in ("record_len", "index"):
                        sig.append(canon(a))
            return sig
        def step_expr(loop):
            """the amount `index` advances by per cycle, with a record_len temporary of the same loop substituted (so that `index += f(x)` and
            `record_len = f(x); index += record_len` are the same step)"""
            body = cfg.loop_body_nodes(loop.id)
            rl, steps_ = [], []
            for n in sorted(body):
                a = cfg.nodes[n].ast
                if cfg.nodes[n].kind == "stmt" and isinstance(a, ast.Assign) and dotted(a.targets[0]) == "record_len":
                    rl.append(a.value)
                if cfg.nodes[n].kind == "stmt" and isinstance(a, ast.AugAssign) and dotted(a.target) == "index" and isinstance(a.op, ast.Add):
                    steps_.append(a.value)
                elif cfg.nodes[n].kind == "stmt" and isinstance(a, ast.Assign) and dotted(a.targets[0]) == "index":
                    steps_.append(None)
            if len(steps_) != 1 or steps_[0] is None:
                return None
            import copy as _c
            cur = None

            def sub(e_, val):
                class _S(ast.NodeTransformer):
                    def visit_Name(self, node):
                        return _c.deepcopy(val) if node.id == "record_len" and val is not None else node
                return _S().visit(_c.deepcopy(e_))
            for v in rl:  # `record_len = slice; record_len = int.from_bytes(record_len, 'big') + 5`: definitions in source order (straight-line in both loops)
                cur = sub(v, cur)
            e = sub(steps_[0], cur)
            return " ".join(ast.unparse(e).split())
        same_start = start_value(scan) == {0} and start_value(rel) == {0}
        same_step = step_expr(scan) is not None and step_expr(scan) == step_expr(rel)
        # no write to packet_data / total_packet_len after the scan loop
        writes_between = False
        after_scan = cfg.reachable_from(scan.id, exc=False) - cfg.loop_body_nodes(scan.id)
        for nid in after_scan:
            n = cfg.nodes[nid]
            if n.kind == "stmt":
                if defs_of(cfg, n) & {"packet_data", "total_packet_len"}:
                    writes_between = True
                for c in ast.walk(n.ast):
                    if isinstance(c, ast.Call) and isinstance(c.func, ast.Attribute) and dotted(c.func.value) == "packet_data" and c.func.attr in ("extend", "append", "clear", "pop", "insert"):
                        writes_between = True
        r.ob(gated and test_ok and same_start and same_step and not writes_between,
             Finding("FR", key + ":loop-replay",
                     f"{qn}: the release loop must replay the scan loop (reachable only under `not need_data`, same start 0, identical step statements, scanned data unchanged), "
                     f"so that it stops exactly at the end; found gated={gated} test=`{rel_test}` same_start={same_start} same_step={same_step} data_written={writes_between}",
                     m.line(rel.ast)))
        # --- (iv) record slice, record object, channel, buffer clear
        r.instances += 1
        body = cfg.loop_body_nodes(rel.id)
        slice_ok = ctor_ok = append_ok = False
        for nid in body:
            a = cfg.nodes[nid].ast
            if cfg.nodes[nid].kind != "stmt":
                continue
            if isinstance(a, ast.Assign) and isinstance(a.value, ast.Subscript) and dotted(a.value.value) == "packet_data" and isinstance(a.value.slice, ast.Slice):
                sl = a.value.slice
                if dotted(sl.lower) == "index" and sl.upper is not None and canon(sl.upper) == canon(ast.parse("index + record_len", mode="eval").body):
                    slice_ok = dotted(a.targets[0])
            for c in ast.walk(a):
                if isinstance(c, ast.Call) and dotted(c.func) == "TlsRecord" and len(c.args) >= 2:
                    if slice_ok and dotted(c.args[0]) == slice_ok and dotted(c.args[1]) == "metadata":
                        ctor_ok = True
                if isinstance(c, ast.Call) and isinstance(c.func, ast.Attribute) and c.func.attr == "append" and dotted(c.func.value) == f"self.{d}_tls_records":
                    append_ok = True
        clears = [n for n in cfg.nodes if n.kind == "stmt" and any(isinstance(c, ast.Call) and isinstance(c.func, ast.Attribute) and c.func.attr == "clear"
                                                                   and dotted(c.func.value) == f"self.{d}_packet_buffer" for c in ast.walk(n.ast))]
        clear_ok = bool(clears) and all(fact_holds(cfg.facts_at(c.id), "need_data", False) and c.id not in body for c in clears)
        r.ob(bool(slice_ok) and ctor_ok and append_ok and clear_ok,
             Finding("FR", key + ":release",
                     f"{qn}: each released record must be packet_data[index:index+record_len] wrapped in TlsRecord(binary, metadata, …) and appended to the {d} record list; "
                     f"the {d} segment buffer is cleared once, after the release loop (slice={bool(slice_ok)} ctor={ctor_ok} append={append_ok} clear={clear_ok})", m.line(rel.ast)))
        # --- (v) overlap test and packet_ranges
        r.instances += 1
        ov_ok = False
        for nid in body:
            n = cfg.nodes[nid]
            if n.kind == "if":
                t = n.ast.test
                want = {canon(ast.parse("index < packet_range[1]", mode="eval").body), canon(ast.parse("index + record_len > packet_range[0]", mode="eval").body)}
                alt = {canon(ast.parse("packet_range[1] > index", mode="eval").body), canon(ast.parse("packet_range[0] < index + record_len", mode="eval").body)}
                if isinstance(t, ast.BoolOp) and isinstance(t.op, ast.And) and len(t.values) == 2:
                    got = {canon(v) for v in t.values}
                    if got == want or got == alt:
                        apps = [c for s in n.ast.body for c in ast.walk(s) if isinstance(c, ast.Call) and isinstance(c.func, ast.Attribute) and c.func.attr == "append"
                                and dotted(c.func.value) == "metadata" and c.args and canon(c.args[0]) == canon(ast.parse("packet_range[2]", mode="eval").body)]
                        ov_ok = bool(apps) and not n.ast.orelse
        ranges_ok = False
        for n in body_walk(f.node):
            if isinstance(n, ast.Call) and isinstance(n.func, ast.Attribute) and n.func.attr == "append" and dotted(n.func.value) == "packet_ranges" and n.args and isinstance(n.args[0], ast.Tuple):
                e = n.args[0].elts
                if len(e) == 3 and dotted(e[0]) == "total_packet_len" and canon(e[1]) == canon(ast.parse("total_packet_len + packet_len", mode="eval").body):
                    loopvar = next((a.target.id for a in ancestors(n) if isinstance(a, ast.For) and isinstance(a.target, ast.Name)), None)
                    ranges_ok = dotted(e[2]) == loopvar
        meta_reset = any(cfg.nodes[nid].kind == "stmt" and isinstance(cfg.nodes[nid].ast, ast.Assign) and dotted(cfg.nodes[nid].ast.targets[0]) == "metadata"
                         and isinstance(cfg.nodes[nid].ast.value, ast.List) and not cfg.nodes[nid].ast.value.elts for nid in body)
        r.ob(ov_ok and ranges_ok and meta_reset,
             Finding("FR", key + ":overlap",
                     f"{qn}: a record is attributed to exactly the buffered packets whose byte range [start,end) overlaps [index, index+record_len): "
                     f"`index < range_end and index + record_len > range_start` (overlap={ov_ok}, ranges={ranges_ok}, per-record list={meta_reset})", m.line(rel.ast)))
        # --- (vi) contiguity test over neighbours, sort before it
        r.instances += 1
        cont_ok = False
        for n in body_walk(f.node):
            if isinstance(n, ast.If) and isinstance(n.test, ast.Compare) and isinstance(n.test.ops[0], ast.NotEq):
                s = src(n.test, 400)
                loopf = next((a for a in ancestors(n) if isinstance(a, ast.For)), None)
                iv = dotted(loopf.target) if loopf is not None else None
                if iv and f"self.{d}_packet_buffer[{iv}].seq" in s and f"len(self.{d}_packet_buffer[{iv}].tls_data)" in s and f"self.{d}_packet_buffer[{iv} + 1].seq" in s:
                    # the loop must visit every adjacent pair: range(0, len(buffer) - 1) / range(len(buffer) - 1)
                    it = loopf.iter
                    full = (isinstance(it, ast.Call) and dotted(it.func) == "range" and src(it.args[-1]) == f"len(self.{d}_packet_buffer) - 1"
                            and (len(it.args) == 1 or (len(it.args) == 2 and try_fold(it.args[0]) == 0)))
                    if any(isinstance(x, ast.Return) for x in n.body) and full:
                        cont_ok = True
        sorted_first = False
        top = strip_stmts(f.node.body)
        for st in top[:3]:
            if isinstance(st, ast.Expr) and isinstance(st.value, ast.Call) and isinstance(st.value.func, ast.Attribute) and st.value.func.attr == "sort" \
                    and dotted(st.value.func.value) == f"self.{d}_packet_buffer":
                sorted_first = True
        r.ob(cont_ok and sorted_first, Finding("FR", key + ":contiguity",
                                               f"{qn}: buffered segments are sorted by sequence number and nothing is framed unless every neighbour pair is contiguous "
                                               f"(seq + len == next.seq), else return and wait (contiguity={cont_ok}, sort={sorted_first})", m.line(f.node)))
    return r


def _lower_bound_expr(e: ast.AST, self_name: Optional[str] = None) -> Optional[int]:
    """Lower bound of a non-negative integer expression built from int.from_bytes(..) (≥0), len(..) (≥0), constants and +."""
    c = try_fold(e)
    if isinstance(c, int):
        return c
    if isinstance(e, ast.BinOp) and isinstance(e.op, ast.Add):
        a, b = _lower_bound_expr(e.left, self_name), _lower_bound_expr(e.right, self_name)
        if a is None or b is None:
            return None
        return a + b
    if isinstance(e, ast.Call) and dotted(e.func) in ("int.from_bytes", "len"):
        return 0
    if isinstance(e, ast.Subscript):
        return None if self_name is None else -10**9  # the slice assigned first to the same name; superseded by the later definition
    return None


# ------------------------------------------------------------------------------------------ get_tls_records (causality, per-record handling)
def rule_tls_causality(tree: Tree) -> RuleResult:
    r = RuleResult("CAUS", "records are processed strictly in capture order: the packet list is iterated once, in order, never indexed/sorted; "
                           "released records are handled in release order and the release list is cleared")
    f = tree.func("session", "Session.get_tls_records")
    m = f.module
    cand = [n for n in body_walk(f.node) if isinstance(n, ast.For) and any(dotted(x) == "self.packet_buffer" for x in ast.walk(n.iter))]
    if not cand:
        raise AnchorMissing("get_tls_records: no loop over the session's packet buffer found")
    loops = [n for n in cand if dotted(n.iter) == "self.packet_buffer"]
    r.instances += 1
    r.ob(len(loops) == 1 and len(cand) == 1, Finding("CAUS", "session:Session.get_tls_records:single-pass",
                                                      f"get_tls_records must iterate self.packet_buffer exactly once and directly, in capture order; found `for … in {src(cand[0].iter, 80)}` "
                                                      f"(a sorted / reversed / sliced view lets later packets overtake earlier ones, so a longer capture can alter what a prefix exported)", m.line(cand[0])))
    if len(loops) != 1:
        return r
    loop = loops[0]
    # no other use of packet_buffer in the body (indexing, sorting)
    r.instances += 1
    other = [src(n, 60) for s in loop.body for n in ast.walk(s) if isinstance(n, ast.Attribute) and n.attr == "packet_buffer" and dotted(n) == "self.packet_buffer"]
    r.ob(not other, Finding("CAUS", "session:Session.get_tls_records:no-lookahead", f"the loop body must use only the current packet, found {other}", m.line(loop)))
    # packet_buffer is only appended to elsewhere in the class (A8)
    ses = tree.cls("session", "Session")
    r.instances += 1
    bad = []
    for meth in ses.methods.values():
        for n in body_walk(meth.node):
            if isinstance(n, ast.Call) and isinstance(n.func, ast.Attribute) and dotted(n.func.value) == "self.packet_buffer" and n.func.attr not in ("append",):
                bad.append(f"{meth.qualname}: {src(n, 50)}")
            if isinstance(n, ast.Assign) and dotted(n.targets[0]) == "self.packet_buffer" and meth.name != "__init__":
                bad.append(f"{meth.qualname}: {src(n, 50)}")
            if isinstance(n, (ast.Assign, ast.AugAssign, ast.Delete)):
                for t in (n.targets if not isinstance(n, ast.AugAssign) else [n.target]):
                    if isinstance(t, ast.Subscript) and dotted(t.value) == "self.packet_buffer":
                        bad.append(f"{meth.qualname}: {src(n, 50)} (an element of the capture-ordered buffer is replaced / removed)")
    r.ob(not bad, Finding("CAUS", "session:Session:packet-buffer-append-only", f"self.packet_buffer must only be appended to (capture order), found {bad}", m.relpath))
    # per arm: the new packet is buffered and framing is attempted unconditionally (a gap-filling segment has a *lower* sequence number than what is buffered)
    cfgc = cfg_of(f.node)
    for arm_name in ("server", "client"):
        r.instances += 1
        calls = [c for c in body_walk(f.node) if isinstance(c, ast.Call) and dotted(c.func) == f"self.extract_{arm_name}_buf"]
        ok = len(calls) == 1
        extra = []
        if ok:
            nid = cfgc.node_of(calls[0])
            extra = [src(e, 80) for e, t in cfgc.facts_at(nid) if not ("ip_src" in src(e, 200) or "sport" in src(e, 200))]
            apps = [c for c in body_walk(f.node) if isinstance(c, ast.Call) and dotted(c.func) == f"self.{arm_name}_packet_buffer.append"]
            ok = not extra and len(apps) == 1 and cfgc.dominates(cfgc.node_of(apps[0]), nid)
        r.ob(ok, Finding("CAUS", f"session:Session.get_tls_records:{arm_name}-extract",
                         f"get_tls_records must buffer every {arm_name} packet and call extract_{arm_name}_buf() for each of them, depending on nothing but the packet's direction; "
                         f"found extra conditions {extra}", m.line(f.node)))
    # per arm: append to direction buffer, extract, for record in list: handle(record, flag), clear
    for arm_name, flag in (("server", True), ("client", False)):
        r.instances += 1
        ok = False
        for n in ast.walk(loop):
            if isinstance(n, ast.For) and dotted(n.iter) == f"self.{arm_name}_tls_records":
                calls = [c for s in n.body for c in ast.walk(s) if isinstance(c, ast.Call) and dotted(c.func) == "self.handle_tls_record"]
                if calls and len(calls[0].args) >= 2 and dotted(calls[0].args[0]) == dotted(n.target) and try_fold(calls[0].args[1], default=None) is flag:
                    ok = True
        r.ob(ok, Finding("CAUS", f"session:Session.get_tls_records:{arm_name}-records",
                         f"released {arm_name} records must be handed, in list order, to handle_tls_record(record, {flag})", m.line(loop)))
    return r


# ------------------------------------------------------------------------------------------ full scans
FULL_SCANS = [
    # (module, qualname, text of the iterated expression, why every element matters)
    ("key_derivator", "dev_tls_13_keys", "secret_list", "each of the four TLS 1.3 secrets is picked by its label, in whatever order the key log lists them"),
    ("quic.quic_key_generation", "dev_quic_keys", "secret_list", "each QUIC secret is picked by its label"),
    ("session", "Session.extract_server_buf", "packet_ranges", "a record is attributed to *all* packets overlapping it"),
    ("session", "Session.extract_client_buf", "packet_ranges", "a record is attributed to *all* packets overlapping it"),
    ("session", "Session.get_tls_records", "self.server_tls_records", "every released record is handled"),
    ("session", "Session.get_tls_records", "self.client_tls_records", "every released record is handled"),
    ("session", "Session.get_tls_records", "self.packet_buffer", "every buffered packet is processed"),
    ("output_builder", "OutputBuilder.build", "record[1].metadata", "every carrying packet contributes its timestamp"),
    ("output_builder", "OutputBuilder.build", "self.decrypted_records", "every decrypted record is exported (nothing ends the conversation early: not an alert, not a -a record)"),
    ("quic.quic_output_builder", "QUICOutputbuilder.build", "self.decrypted_traffic", "every buffered frame is considered for export"),
    ("quic.quic_session", "QuicSession.decrypt_packet", "frames", "every frame of a packet is handled"),
    ("quic.quic_session", "QuicSession.handle_quic_packet", "self.packet_buffer_quic", "every extracted QUIC packet is handled"),
    ("main", "run", "all_decrypted_sessions", "every exported packet is written"),
    ("main", "run", "sessions", "every TLS session is finalised"),
    ("main", "run", "quic_sessions", "every QUIC session is finalised"),
    ("main", "get_port_map", "parser.mapports", "every -m pair is mapped"),
    ("dpkt_dsb", "Reader.__init__", "idb.opts", "if_tsresol and if_tsoffset may come in any order"),
]


def rule_full_scans(tree: Tree) -> RuleResult:
    r = RuleResult("FS", "loops that must visit every element have no break / return and no element-skipping filter")
    for mod, qn, it_txt, why in FULL_SCANS:
        f = tree.func(mod, qn)
        loops = [n for n in body_walk(f.node) if isinstance(n, ast.For) and src(n.iter, 200) == it_txt]
        if not loops:
            # the loop may iterate a view of the container (reported by the rules that own the container); here only an exact loop is required to exist
            cand = [n for n in body_walk(f.node) if isinstance(n, ast.For) and it_txt in src(n.iter, 200)]
            r.instances += 1
            r.ob(False, Finding("FS", f"{mod}:{qn}:scan:{it_txt}", f"{qn}: expected a loop `for … in {it_txt}` ({why}); found {[src(c.iter, 60) for c in cand] or 'none'}", f.module.line(f.node)))
            continue
        for lp in loops:
            r.instances += 1
            early = []
            for st in lp.body:
                for x in ast.walk(st):
                    if isinstance(x, (ast.Break, ast.Return)):
                        # a break/return inside a nested loop's own scope still leaves this loop if it is a Return; Break only counts for this loop
                        if isinstance(x, ast.Return):
                            early.append("return")
                        else:
                            inner = [a for a in ancestors(x) if isinstance(a, (ast.For, ast.While))]
                            if inner and inner[0] is lp:
                                early.append("break")
            r.ob(not early, Finding("FS", f"{mod}:{qn}:scan:{it_txt}", f"{qn}: the loop over `{it_txt}` leaves early ({sorted(set(early))}) — {why}", f.module.line(lp)))
    return r

"""C10 — configuration reaches its sites (D4), session creation gated by the server-port list (A6c)."""
from __future__ import annotations

import ast
from typing import Any, Dict, List, Optional

from ..core import Tree, Func, dotted, src, AnalysisError, AnchorMissing, body_walk, ancestors
from ..framework import Finding, RuleResult
from ..norm import try_fold, strip_stmts
from ..cfg import cfg_of
from .keylog import argparse_model


def _cond_is_keep_false(t: ast.AST, lab: str) -> bool:
    """branch outcome equivalent to `keep_original_ports is False`."""
    s = src(t).replace("self.", "")
    if lab == "T" and s in ("keep_original_ports is False", "keep_original_ports == False", "not keep_original_ports"):
        return True
    if lab == "F" and s in ("keep_original_ports", "keep_original_ports is True", "keep_original_ports == True",
                            "keep_original_ports is not False", "keep_original_ports != False"):
        return True
    return False


def _fact_is_keep_false(e: ast.AST, truth: bool) -> bool:
    s = src(e).replace("self.", "")
    if truth and s in ("keep_original_ports is False", "keep_original_ports == False"):
        return True
    if not truth and s in ("keep_original_ports", "keep_original_ports is True", "keep_original_ports == True",
                           "keep_original_ports is not False", "keep_original_ports != False"):
        return True
    return False


def rule_D4(tree: Tree) -> RuleResult:
    r = RuleResult("D4", "port options reach every consumer: int conversion, -m sets keep_original_ports False, every server-port rewrite is conditional on it, client port never rewritten")
    opts = argparse_model(tree)
    main = tree.module("main")
    # option table
    r.instances += 1
    sp = opts.get("serverports", {})
    mp = opts.get("mapports", {})
    ok = sp.get("nargs") == "+" and mp.get("nargs") == "*" and isinstance(mp.get("action"), tuple) and "MapPortsAction" in mp["action"][1]
    r.ob(ok, Finding("D4", "main:arg_parser_init:port-options", f"-p must take one or more ports, -m zero or more a:b pairs via MapPortsAction; "
                                                                f"found -p nargs={sp.get('nargs')!r}, -m nargs={mp.get('nargs')!r} action={mp.get('action')}", main.relpath))
    # every occurrence of -p counts (documented usage `-p 443 -p 8443`): with nargs="+" alone argparse keeps only the last occurrence
    r.instances += 1
    r.ob(sp.get("action") == "extend", Finding("D4", "main:arg_parser_init:serverports-accumulate",
                                              f"-p is declared with nargs='+' and action={sp.get('action')!r}: a second -p replaces the ports of the first one "
                                              f"(`-p 9443 -p 8443` selects only 8443); the list must accumulate (action='extend')", main.relpath))
    # set_defaults(keep_original_ports=True)
    r.instances += 1
    f = tree.func("main", "arg_parser_init")
    dflt = None
    for n in body_walk(f.node):
        if isinstance(n, ast.Call) and isinstance(n.func, ast.Attribute) and n.func.attr == "set_defaults":
            for k in n.keywords:
                if k.arg == "keep_original_ports":
                    dflt = try_fold(k.value)
    r.ob(dflt is True, Finding("D4", "main:arg_parser_init:keep-default", f"without -m the original ports are kept: set_defaults(keep_original_ports=True) expected, found {dflt}", main.line(f.node)))
    # MapPortsAction sets keep_original_ports False and mapports to values or the documented default
    r.instances += 1
    act = tree.func("main", "MapPortsAction.__call__")
    sets = {}
    for n in body_walk(act.node):
        if isinstance(n, ast.Call) and dotted(n.func) == "setattr" and len(n.args) == 3:
            nm = try_fold(n.args[1])
            if nm is None and dotted(n.args[1]) == "self.dest":
                nm = "<dest>"
            sets.setdefault(nm, []).append(n.args[2])
    kv = sets.get("keep_original_ports", [])
    keep_false = False
    if len(kv) == 1:
        v = kv[0]
        val = try_fold(v, default="?")
        if val == "?" and isinstance(v, ast.Name):
            for n in body_walk(act.node):
                if isinstance(n, ast.Assign) and dotted(n.targets[0]) == v.id:
                    val = try_fold(n.value, default="?")
        keep_false = val is False
    dest_vals = [try_fold(x, default=src(x)) for x in sets.get("<dest>", [])]
    # the flag must be cleared on every path through the action (bare -m as well as -m a:b)
    acfg = cfg_of(act.node)
    keep_nodes = [n for n in acfg.nodes if n.kind == "stmt" and any(isinstance(c, ast.Call) and dotted(c.func) == "setattr" and len(c.args) == 3
                                                                    and try_fold(c.args[1]) == "keep_original_ports" for c in ast.walk(n.ast))]
    keep_false = keep_false and len(keep_nodes) == 1 and acfg.postdominates(keep_nodes[0].id, acfg.entry)
    r.ob(keep_false and "values" in dest_vals and ["443:8080"] in dest_vals,
         Finding("D4", "main:MapPortsAction.__call__:effect", f"-m must store its pairs (bare -m: ['443:8080']) and set keep_original_ports False on every path (bare -m too); found {dest_vals}, keep→False on all paths={keep_false}", main.line(act.node)))
    # get_port_map: int keys and values, split on ':' after removing ','
    r.instances += 1
    g = tree.func("main", "get_port_map")
    store = [n for n in body_walk(g.node) if isinstance(n, ast.Assign) and isinstance(n.targets[0], ast.Subscript) and dotted(n.targets[0].value) == "port_map"]
    ok = len(store) == 1

    def int_of_split(e, idx, fn=g):
        # e is a Name defined as int(split[idx]) or directly int(split[idx])
        if isinstance(e, ast.Name):
            for n in body_walk(fn.node):
                if isinstance(n, ast.Assign) and dotted(n.targets[0]) == e.id:
                    e = n.value
                    break
        return (isinstance(e, ast.Call) and dotted(e.func) == "int" and e.args and isinstance(e.args[0], ast.Subscript)
                and try_fold(e.args[0].slice) == idx)
    if ok:
        ok = int_of_split(store[0].targets[0].slice, 0) and int_of_split(store[0].value, 1)
    splits = [n for n in body_walk(g.node) if isinstance(n, ast.Call) and isinstance(n.func, ast.Attribute) and n.func.attr == "split" and n.args and try_fold(n.args[0]) == ":"]
    comma = [n for n in body_walk(g.node) if isinstance(n, ast.Call) and isinstance(n.func, ast.Attribute) and n.func.attr == "replace" and n.args and try_fold(n.args[0]) == ","]
    # the comma-stripped token is what gets split, and every listed pair is stored (no skipping path through the loop body)
    gcfg = cfg_of(g.node)
    order_ok = False
    if splits and comma and len(store) == 1:
        sp_n, cm_n, st_n = gcfg.node_of(splits[0]), gcfg.node_of(comma[0]), gcfg.node_of(store[0])
        loop = next((n for n in gcfg.nodes if n.kind == "for" and sp_n in gcfg.loop_body_nodes(n.id)), None)
        recv = dotted(splits[0].func.value)
        cm_tgt = dotted(gcfg.nodes[cm_n].ast.targets[0]) if isinstance(gcfg.nodes[cm_n].ast, ast.Assign) else None
        order_ok = loop is not None and gcfg.dominates(cm_n, sp_n) and recv == cm_tgt
        if order_ok:
            # every path from the loop header (T) back to the header passes the store
            body = gcfg.loop_body_nodes(loop.id)
            back = [p2 for p2 in gcfg.predecessors(loop.id) if p2 in body]
            order_ok = all(gcfg.dominates(st_n, b2) or st_n == b2 for b2 in back)
    r.ob(ok and bool(splits) and bool(comma) and order_ok, Finding("D4", "main:get_port_map:int-pairs",
                                                      "each -m item must be split on ':' *after* removing ',' into int(server port) → int(output port), and every item must be stored "
                                                      "(no path through the loop may skip a pair, e.g. one written with a trailing comma)", main.line(g.node)))
    # run(): server_ports extended with int(x)
    r.instances += 1
    run = tree.func("main", "run")
    ok = False
    for n in body_walk(run.node):
        if isinstance(n, ast.Call) and isinstance(n.func, ast.Attribute) and n.func.attr in ("extend",) and dotted(n.func.value) == "server_ports":
            a = n.args[0]
            if isinstance(a, (ast.ListComp, ast.GeneratorExp)) and isinstance(a.elt, ast.Call) and dotted(a.elt.func) == "int" and "serverports" in src(a.generators[0].iter) \
                    and not a.generators[0].ifs and len(a.generators) == 1:
                ok = True
            if isinstance(a, ast.Call) and dotted(a.func) == "map" and dotted(a.args[0]) == "int":
                ok = True
    r.ob(ok, Finding("D4", "main:run:serverports-int", "every port given with -p must be added to the server-port list, as int and unfiltered (packet ports are ints; a str never matches; 1–65535 are all valid)", main.line(run.node)))
    # keep_original_ports / portmap flow: run -> handle_packet -> Session -> OutputBuilder ; run -> handle_quic_packet -> QuicSession -> QUICOutputbuilder
    from ..callgraph import CallGraph
    cg = CallGraph.of(tree)
    for cls_mod, cls_name, label in (("output_builder", "OutputBuilder", "TLS"), ("quic.quic_output_builder", "QUICOutputbuilder", "QUIC")):
        c = tree.cls(cls_mod, cls_name)
        init = c.methods["__init__"]
        cfg = cfg_of(init.node)
        r.instances += 1
        writes = []
        for n in cfg.nodes:
            if n.kind == "stmt" and isinstance(n.ast, ast.Assign) and dotted(n.ast.targets[0]) == "self.server_port":
                writes.append(n)
        init_writes = [w for w in writes if dotted(w.ast.value) == "server_port"]
        rewrites = [w for w in writes if w not in init_writes]
        if not init_writes:
            raise AnchorMissing(f"{cls_name}.__init__: self.server_port = server_port not found")
        bad = []
        for w in rewrites:
            facts = cfg.facts_at(w.id)
            if not any(_fact_is_keep_false(e, t) for e, t in facts):
                bad.append(w)
        r.sample({"builder": cls_name, "rewrites": [src(w.ast) for w in rewrites], "unconditional": [src(w.ast) for w in bad]})
        r.ob(not bad and "keep_original_ports" in init.params,
             Finding("D4", f"{cls_mod}:{cls_name}.__init__:port-rewrite-gate",
                     f"{label}: without -m the exported server port must be the original one, but {cls_name}.__init__ rewrites it "
                     f"({'; '.join(src(w.ast) for w in bad) or 'flag parameter missing'}) without testing keep_original_ports", c.module.line(init.node)))
        # mapped port for listed ports, default constant otherwise
        r.instances += 1
        vals = [src(w.ast.value) for w in rewrites]
        dflt_c = None
        for n in body_walk(init.node):
            if isinstance(n, ast.Assign) and dotted(n.targets[0]) == "self.default_port":
                dflt_c = try_fold(n.value)
        ok = sorted(vals) == sorted(["portmap[self.server_port]", "self.default_port"]) and dflt_c == 8080
        in_test = any(isinstance(n, ast.If) and src(n.test) in ("self.server_port in portmap.keys()", "self.server_port in portmap") for n in body_walk(init.node))
        r.ob(ok and in_test, Finding("D4", f"{cls_mod}:{cls_name}.__init__:port-choice",
                                     f"{label}: with -m the server port becomes portmap[port] if listed else the default 8080; found rewrites {vals}, default {dflt_c}", c.module.line(init.node)))
        # client port never written except from the constructor parameter
        r.instances += 1
        cw = []
        for meth in c.methods.values():
            for n in body_walk(meth.node):
                if isinstance(n, (ast.Assign, ast.AugAssign)):
                    tg = n.targets[0] if isinstance(n, ast.Assign) else n.target
                    if dotted(tg) == "self.client_port" and not (isinstance(n, ast.Assign) and dotted(n.value) == "client_port"):
                        cw.append(src(n))
        r.ob(not cw, Finding("D4", f"{cls_mod}:{cls_name}:client-port", f"the client port is never changed, found {cw}", c.module.relpath))
    # run() does not edit the parsed map
    r.instances += 1
    muts = []
    for n in body_walk(run.node):
        if isinstance(n, ast.Call) and isinstance(n.func, ast.Attribute) and dotted(n.func.value) == "portmap" and n.func.attr in ("pop", "clear", "update", "popitem", "setdefault"):
            muts.append(src(n, 50))
        if isinstance(n, ast.Delete) and any("portmap" in src(t) for t in n.targets):
            muts.append(src(n, 50))
        if isinstance(n, ast.Assign) and any(isinstance(t, ast.Subscript) and dotted(t.value) == "portmap" for t in n.targets):
            muts.append(src(n, 50))
    pm_defs = [src(n.value) for n in body_walk(run.node) if isinstance(n, ast.Assign) and dotted(n.targets[0]) == "portmap"]
    r.ob(not muts and pm_defs == ["get_port_map(args)"], Finding("D4", "main:run:portmap-unmodified", f"run() must use the map parsed from -m as it is; found {muts or pm_defs}", main.line(run.node)))
    # provenance of the gate flag and of the map in both builders: the argparse namespace / get_port_map, through every call site
    from ..prov import Prov
    pv = Prov(tree)
    for cls_mod, cls_name, label in (("output_builder", "OutputBuilder", "TLS"), ("quic.quic_output_builder", "QUICOutputbuilder", "QUIC")):
        c = tree.cls(cls_mod, cls_name)
        init = c.methods["__init__"]
        r.instances += 1
        if "keep_original_ports" in init.params:
            leaves, flags = pv.of(init, ast.Name("keep_original_ports", ast.Load()))
            ok = leaves == {("attr", "args.keep_original_ports")} and not (flags & {"arith", "bool", "cmp"})
            r.ob(ok, Finding("D4", f"{cls_mod}:{cls_name}.__init__:gate-provenance",
                             f"{label}: the flag tested before rewriting the server port must be the -m setting (args.keep_original_ports) at every "
                             f"construction site; it derives from {sorted(leaves)} {sorted(flags & {'arith', 'bool', 'cmp'})}", c.module.line(init.node)))
        else:
            r.ob(True)  # reported by port-rewrite-gate
        r.instances += 1
        leaves, flags = pv.of(init, ast.Name("portmap", ast.Load()))
        ok = "call:main:get_port_map" in flags and not any(l[0] in ("param",) for l in leaves)
        r.ob(ok, Finding("D4", f"{cls_mod}:{cls_name}.__init__:portmap-provenance",
                         f"{label}: the port map used by the builder must be the result of get_port_map(args) at every construction site; derives from {sorted(leaves)}", c.module.line(init.node)))
    return r


def rule_A6c(tree: Tree) -> RuleResult:
    r = RuleResult("A6c", "a TLS session is created only when one port of the packet is in the server-port list")
    f = tree.func("main", "handle_packet")
    cfg = cfg_of(f.node)
    call = next((n for n in body_walk(f.node) if isinstance(n, ast.Call) and dotted(n.func) == "Session"), None)
    if call is None:
        raise AnchorMissing("handle_packet: Session(...) not found")
    r.instances += 1
    nid = cfg.node_of(call)
    ok = False
    for t, truth in cfg.facts_at(nid):
        if not truth:
            continue
        terms = t.values if isinstance(t, ast.BoolOp) and isinstance(t.op, ast.Or) else [t]
        got = set()
        for x in terms:
            if isinstance(x, ast.Compare) and isinstance(x.ops[0], ast.In) and dotted(x.comparators[0]) == "server_ports":
                got.add((dotted(x.left) or "").split(".")[-1])
        if got == {"sport", "dport"} and len(terms) == 2:
            ok = True
    if not ok:
        # the same gate written as a guard clause / by De Morgan: decide by implication between the path condition of the construction and the port test
        from .guards import formula_of, implies
        conj = ["and"]
        for b, lab in cfg.conditions_at(nid):
            bn = cfg.nodes[b]
            if bn.kind in ("if", "while") and "server_ports" in src(bn.ast.test, 300):
                conj.append(formula_of(bn.ast.test, lab == "T"))
        want_f = formula_of(ast.parse("packet.dport in server_ports or packet.sport in server_ports", mode="eval").body, True)
        ok = len(conj) > 1 and bool(implies(conj, want_f)) and bool(implies(want_f, conj))
    r.ob(ok, Finding("A6c", "main:handle_packet:session-creation-gate",
                     "Session(...) must be constructed only under `packet.dport in server_ports or packet.sport in server_ports`", f.module.line(call)))
    # the list handed to Session is the same list that is tested
    r.instances += 1
    args = [dotted(a) for a in call.args]
    r.ob("server_ports" in args, Finding("A6c", "main:handle_packet:session-ports-arg", "the server-port list tested must be the one handed to Session (role binding uses it)", f.module.line(call)))
    # dispatch inventory: a packet is handed only to the session that matched it; the port test is the only condition of creating a session
    r.instances += 1
    stray = []
    n_disp = 0
    for c in body_walk(f.node):
        if isinstance(c, ast.Call) and isinstance(c.func, ast.Attribute) and c.func.attr in ("handle_packet", "get_tls_records", "decrypt"):
            n_disp += 1
            recv = dotted(c.func.value)
            facts = [(src(e), t) for e, t in cfg.facts_at(cfg.node_of(c))]
            if not any(s == f"{recv}.matches_session(packet)" and t for s, t in facts):
                stray.append(src(c, 70))
    r.ob(n_disp >= 1 and not stray, Finding("A6c", "main:handle_packet:unmatched-dispatch",
                                            f"`{stray[0] if stray else ''}` hands the packet to a session that did not match it (matches_session(packet))", f.module.line(f.node)))
    r.instances += 1
    extra = [src(e, 60) for e, t in cfg.facts_at(nid) if "server_ports" not in src(e, 200) and "matches_session" not in src(e, 200)]
    r.ob(not extra, Finding("A6c", "main:handle_packet:session-creation-extra-condition",
                            f"a session is created for every unmatched packet on a server port; found the additional condition(s) {extra[:3]} (e.g. secrets that arrive later in the "
                            f"capture would find no session)", f.module.line(call)))
    return r

"""A2 — progress of every data-driven loop (C03 'never hangs', C17)."""
from __future__ import annotations

import ast
from typing import Dict, List, Optional, Set, Tuple

from ..core import Tree, Func, Class, dotted, src, AnalysisError, AnchorMissing, body_walk, ancestors
from ..framework import Finding, RuleResult
from ..norm import try_fold
from ..cfg import cfg_of, CFG
from ..dataflow import reaching_definitions
from ..callgraph import CallGraph

VARLEN_LEN = "get_variable_length_int_length"
VARLEN_DEC = "decode_variable_length_int"


class LB:
    """Lower bounds of non-negative integer expressions inside one function."""

    def __init__(self, tree: Tree, f: Func, frame_lb: Optional[int] = None):
        self.tree, self.f = tree, f
        self.cfg = cfg_of(f.node)
        self.rd = reaching_definitions(self.cfg)
        self.frame_lb = frame_lb

    def of(self, e: ast.AST, at: int, depth: int = 0, seen: Optional[Set] = None) -> Optional[int]:
        seen = seen or set()
        c = try_fold(e)
        if isinstance(c, bool):
            return int(c)
        if isinstance(c, int):
            return c
        if depth > 60:
            return None
        if isinstance(e, ast.BinOp):
            a, b = self.of(e.left, at, depth + 1, seen), self.of(e.right, at, depth + 1, seen)
            if isinstance(e.op, ast.Add):
                return None if a is None or b is None else a + b
            if isinstance(e.op, ast.Mult):
                return None if a is None or b is None or a < 0 or b < 0 else a * b
            if isinstance(e.op, ast.LShift) and a is not None and b is not None and a >= 0 and b >= 0:
                return a << min(b, 62)
            return None
        if isinstance(e, ast.Call):
            fn = (dotted(e.func) or "").split(".")[-1]
            if fn in ("len", "from_bytes", VARLEN_DEC):
                return 0
            if fn == VARLEN_LEN:
                return 1
            if fn in ("finalize", "digest"):
                return 1  # a digest is never empty
            return None
        if isinstance(e, ast.Subscript) and not isinstance(e.slice, ast.Slice):
            return 0  # one element of a bytes object / of a tuple of lengths: never negative in this code base
        d = dotted(e)
        if d is None:
            return None
        if d.endswith(".length") and self.frame_lb is not None and not d.startswith("self."):
            return self.frame_lb
        key = (d, at)
        if key in seen:
            return None
        seen = seen | {key}
        defs = self.rd.get(at, {}).get(d, set())
        if not defs:
            return None
        lbs = []
        for dn in defs:
            node = self.cfg.nodes[dn]
            a = node.ast
            if node.kind == "stmt" and isinstance(a, ast.Assign):
                lbs.append(self.of(a.value, dn, depth + 1, seen))
            elif node.kind == "stmt" and isinstance(a, ast.AugAssign) and isinstance(a.op, ast.Add):
                base = self.of(a.target, dn, depth + 1, seen)
                inc = self.of(a.value, dn, depth + 1, seen)
                lbs.append(None if base is None or inc is None else base + inc)
            else:
                lbs.append(None)
        if any(x is None for x in lbs):
            return None
        return min(lbs)


def frame_length_lower_bounds(tree: Tree) -> Dict[str, Tuple[Optional[int], str]]:
    """For every frame class reachable by parse_frames: lower bound of `.length` after construction."""
    m = tree.module("quic.quic_frame")
    cg = CallGraph.of(tree)
    classes = list(cg.registry_classes)
    try:
        classes.append(tree.cls("quic.quic_frame", "GenericFrame"))
    except AnchorMissing:
        pass
    if len(classes) < 15:
        raise AnalysisError(f"frame registry: only {len(classes)} classes found (floor 15)")
    reg = m.assigns.get("frame_type")
    keys_of: Dict[str, List[tuple]] = {}
    if isinstance(reg, ast.Dict):
        for k, v in zip(reg.keys, reg.values):
            keys_of.setdefault(dotted(v) or "", []).append(try_fold(k))
    out: Dict[str, Tuple[Optional[int], str]] = {}
    for c in classes:
        init = c.methods.get("__init__")
        cls_attr = None
        for k in c.mro():
            for st in k.node.body:
                if isinstance(st, ast.Assign) and dotted(st.targets[0]) == "length":
                    v = try_fold(st.value)
                    if cls_attr is None and isinstance(v, int):
                        cls_attr = v
            if cls_attr is not None:
                break
        if init is None:
            out[c.name] = (cls_attr, "class attribute")
            continue
        cfg = cfg_of(init.node)
        lbh = LB(tree, init)
        # forward min-dataflow of lb(self.length)
        INF = 10 ** 9
        val: Dict[int, Optional[int]] = {}
        start = cls_attr if cls_attr is not None else None
        order = sorted(cfg.reachable_from(cfg.entry, exc=False))
        state_in: Dict[int, object] = {n: "top" for n in order}
        state_in[cfg.entry] = start
        changed = True
        it = 0

        def transfer(nid, cur):
            node = cfg.nodes[nid]
            a = node.ast
            if node.kind == "stmt" and isinstance(a, ast.Assign) and any(dotted(t) == "self.length" for t in a.targets):
                v = a.value
                if isinstance(v, ast.Call) and dotted(v.func) == "len" and v.args and dotted(v.args[0]) == init.params[1]:
                    return 1  # parse_frames constructs frames only while len(payload) != 0
                # PaddingFrame lemma: `self.length = i` under `byte != 0` in `for i, byte in enumerate(payload)` with payload[0] == 0
                if isinstance(v, ast.Name):
                    for anc in ancestors(a):
                        if isinstance(anc, ast.For) and isinstance(anc.iter, ast.Call) and dotted(anc.iter.func) == "enumerate" \
                                and isinstance(anc.target, ast.Tuple) and dotted(anc.target.elts[0]) == v.id:
                            facts = cfg.facts_at(nid)
                            bytevar = dotted(anc.target.elts[1])
                            nz = any((src(e) == f"{bytevar} != 0" and t) or (src(e) == f"{bytevar} == 0" and not t) for e, t in facts)
                            if nz and keys_of.get(c.name) == [(0,)]:
                                return 1
                            return 0
                return lbh.of(v, nid)
            if node.kind == "stmt" and isinstance(a, ast.AugAssign) and dotted(a.target) == "self.length" and isinstance(a.op, ast.Add):
                inc = lbh.of(a.value, nid)
                if cur is None or inc is None or inc < 0:
                    return None if inc is None or inc < 0 else cur
                return cur + inc
            return cur
        out_state: Dict[int, object] = {}
        while changed and it < 50:
            changed = False
            it += 1
            for n in order:
                if n != cfg.entry:
                    ins = [out_state[p] for p in cfg.predecessors(n, False) if p in out_state]
                    if not ins:
                        continue
                    cur = None if any(x is None for x in ins) else min(ins)
                else:
                    cur = start
                new = transfer(n, cur)
                if out_state.get(n, "unset") != new:
                    out_state[n] = new
                    changed = True
        ins = [out_state[p] for p in cfg.predecessors(cfg.exit, False) if p in out_state]
        res = None if (not ins or any(x is None for x in ins)) else min(ins)
        out[c.name] = (res, "dataflow over __init__")
    return out


LOOP_LEMMAS = {
    # function key -> (pattern, reason) for loops whose progress argument is not one of the generic cursor patterns
    "checksums:ones_complement_checksum": ("fold", "x → (x >> 16) + (x & 0xFFFF) strictly decreases while x > 0xFFFF (guard and step checked by rule FOLD)"),
    "dpkt_dsb:Reader.__init__": ("read", "each cycle consumes 8 bytes of a finite file or breaks"),
    "dpkt_dsb:Reader.__iter__": ("read", "each cycle consumes 8 bytes of a finite file or breaks"),
}


def rule_A2(tree: Tree) -> RuleResult:
    r = RuleResult("A2", "every data-driven loop makes progress ≥ 1 on every cycle (cursor += ≥1, buffer = buffer[≥1:], digest growth, file read) or leaves")
    cg = CallGraph.of(tree)
    frame_lbs = frame_length_lower_bounds(tree)
    flb_vals = [v for v, _ in frame_lbs.values()]
    frame_lb = None if any(v is None for v in flb_vals) else min(flb_vals)
    # per-class obligations
    qf = tree.module("quic.quic_frame")
    for cn, (v, how) in sorted(frame_lbs.items()):
        r.instances += 1
        r.ob(v is not None and v >= 1, Finding("A2", f"quic.quic_frame:{cn}:length-lower-bound",
                                               f"{cn}: the frame length can be {v if v is not None else 'unbounded below'} after construction ({how}); "
                                               f"parse_frames advances by frame.length, so a length < 1 stalls the parser on arbitrary bytes", qf.relpath))
    r.sample({"frame length lower bounds": {k: v for k, (v, _) in sorted(frame_lbs.items())}})
    count = 0
    for f in sorted(tree.all_funcs(), key=lambda x: x.key):
        cfg = cfg_of(f.node)
        whiles = [n for n in cfg.nodes if n.kind == "while"]
        if not whiles:
            continue
        lbh = LB(tree, f, frame_lb=frame_lb)
        for k, w in enumerate(whiles, 1):
            count += 1
            r.instances += 1
            key = f"{f.key}:loop#{k}"
            body = cfg.loop_body_nodes(w.id)
            back = [p for p in cfg.predecessors(w.id) if p in body]
            ok, why = _loop_progress(tree, cg, f, cfg, lbh, w, body, back)
            if not ok and f.key in LOOP_LEMMAS:
                pat, reason = LOOP_LEMMAS[f.key]
                ok2 = _lemma_holds(cfg, w, body, pat)
                if ok2:
                    ok, why = True, f"lemma {pat}: {reason}"
            r.sample({"loop": f"{f.key} `while {src(w.ast.test, 50)}`", "progress": why}, cap=40)
            r.ob(ok, Finding("A2", key, f"{f.qualname}: `while {src(w.ast.test, 60)}`: {why} — input bytes can keep this loop from terminating "
                                        f"(the run hangs instead of skipping the flow)", f.module.line(w.ast)))
    if count < 15:
        raise AnalysisError(f"only {count} while loops analysed (floor 15)")
    # AckFrame range loop
    r.instances += 1
    ack = tree.func("quic.quic_frame", "AckFrame.__init__")
    fors = [n for n in body_walk(ack.node) if isinstance(n, ast.For) and isinstance(n.iter, ast.Call) and dotted(n.iter.func) == "range"]
    ok = False
    for fo in fors:
        adv = [s for s in fo.body if isinstance(s, ast.AugAssign) and dotted(s.target) == "self.length" and isinstance(s.value, ast.Call)
               and (dotted(s.value.func) or "").endswith(VARLEN_LEN)]
        if adv:
            ok = True
    dec = tree.func("quic.quic_decode", VARLEN_LEN)
    raises_on_empty = any(isinstance(n, ast.Subscript) and try_fold(n.slice) == 0 and dotted(n.value) == dec.params[0] for n in body_walk(dec.node))
    r.ob(ok and raises_on_empty, Finding("A2", "quic.quic_frame:AckFrame.__init__:range-loop",
                                         "the ACK range loop runs `range_count` (≤ 2^62, attacker chosen) times; it must consume ≥ 1 byte per iteration through "
                                         "get_variable_length_int_length, which raises on an exhausted payload, so that it stops within len(payload) iterations",
                                         ack.module.line(ack.node)))
    return r


def _lemma_holds(cfg: CFG, w, body: Set[int], pat: str) -> bool:
    if pat == "fold":
        return any(isinstance(cfg.nodes[n].ast, ast.Assign) and any(isinstance(x, ast.BinOp) and isinstance(x.op, ast.RShift) for x in ast.walk(cfg.nodes[n].ast))
                   for n in body if cfg.nodes[n].kind == "stmt")
    if pat == "read":
        reads = [n for n in body if cfg.nodes[n].kind == "stmt" and isinstance(cfg.nodes[n].ast, ast.Assign)
                 and any(isinstance(c, ast.Call) and (dotted(c.func) or "").endswith(".read") and c.args and try_fold(c.args[0]) == 8 for c in ast.walk(cfg.nodes[n].ast))]
        if not reads:
            return False
        rd = reads[0]
        var = dotted(cfg.nodes[rd].ast.targets[0])
        # break under len(var) < 8 follows
        for n in body:
            node = cfg.nodes[n]
            if node.kind == "if" and src(node.ast.test) == f"len({var}) < 8" and any(isinstance(s, ast.Break) for s in node.ast.body):
                back = [p for p in cfg.predecessors(w.id) if p in body]
                return all(cfg.dominates(rd, p) for p in back)
        return False
    return False


def _loop_progress(tree, cg, f, cfg: CFG, lbh: LB, w, body: Set[int], back: List[int]) -> Tuple[bool, str]:
    test_txt = src(w.ast.test)
    cands = []
    for n in sorted(body):
        node = cfg.nodes[n]
        a = node.ast
        if node.kind != "stmt":
            continue
        if isinstance(a, ast.AugAssign) and isinstance(a.op, ast.Add):
            v = dotted(a.target)
            inc = lbh.of(a.value, n)
            if v and inc is not None and inc >= 1:
                cands.append((n, v, f"{v} += ≥{inc}"))
        elif isinstance(a, ast.Assign) and len(a.targets) == 1:
            v = dotted(a.targets[0])
            val = a.value
            if v and isinstance(val, ast.Subscript) and dotted(val.value) == v and isinstance(val.slice, ast.Slice) and val.slice.upper is None and val.slice.lower is not None:
                lo = lbh.of(val.slice.lower, n)
                if lo is not None and lo >= 1:
                    cands.append((n, v, f"{v} = {v}[≥{lo}:]"))
            if v and isinstance(val, ast.BinOp) and isinstance(val.op, ast.Add) and dotted(val.left) == v:
                inc = lbh.of(val.right, n)
                if inc is not None and inc >= 1:
                    cands.append((n, v, f"{v} = {v} + ≥{inc}"))
            # tuple-unpacked result of a callee that consumes its input: quic_packets, packet = extract_quic_packet(in_packet=packet, …)
            if isinstance(a.targets[0], ast.Tuple) and isinstance(val, ast.Call):
                cs = cg.site(val)
                if cs and cs.callees and cs.callees[0].name == "extract_quic_packet":
                    ok, why = _dissector_consumes(tree, cs.callees[0])
                    if ok:
                        cands.append((n, "packet.tls_data", why))
    for n, v, why in cands:
        base = v.split(".")[0]
        mentioned = base in test_txt or any(base in src(cfg.nodes[b].ast.test) for b in body if cfg.nodes[b].kind == "if"
                                            and any(isinstance(s, ast.Break) for s in cfg.nodes[b].ast.body))
        if not mentioned:
            continue
        if all(cfg.dominates(n, p) or n == p for p in back):
            return True, why
    if not back:
        return True, "no back edge (loop body always leaves)"
    return False, "no statement that strictly advances the loop's cursor on every cycle was found"


def _dissector_consumes(tree: Tree, f: Func) -> Tuple[bool, str]:
    """Every return of extract_quic_packet is preceded by in_packet.tls_data = b'' or = datagram_data[n:] with lb(n) ≥ 1."""
    cfg = cfg_of(f.node)
    lbh = LB(tree, f)
    rets = [n for n in cfg.nodes if n.kind == "stmt" and isinstance(n.ast, ast.Return)]
    if not rets:
        return False, "no return"
    p0 = f.params[0]
    rd = reaching_definitions(cfg)
    from ..dataflow import definite_assignment
    DA = definite_assignment(cfg)
    for rt in rets:
        defs = rd.get(rt.id, {}).get(f"{p0}.tls_data", set())
        if not defs or f"{p0}.tls_data" not in DA.get(rt.id, set()):
            return False, f"the return at line {rt.lineno} of {f.name} can be reached without {p0}.tls_data having been consumed (set to b'' or advanced)"
        for dn in defs:
            a = cfg.nodes[dn].ast
            if not isinstance(a, ast.Assign):
                return False, "unrecognised definition"
            v = a.value
            if try_fold(v, default=None) == b"":
                continue
            if isinstance(v, ast.Subscript) and isinstance(v.slice, ast.Slice) and v.slice.upper is None and v.slice.lower is not None:
                lo = lbh.of(v.slice.lower, dn)
                if lo is not None and lo >= 1:
                    continue
                return False, f"`{src(a, 60)}`: the consumed length has no lower bound ≥ 1"
            return False, f"`{src(a, 60)}` does not consume the datagram"
    return True, f"every return of {f.name} sets {p0}.tls_data to b'' or datagram_data[≥1:]"

"""C11 — checksum verification: fold bound, pseudo-header layouts (T9), Packet variants (A3), dispatch gating (A6b)."""
from __future__ import annotations

import ast
from typing import Any, Dict, List, Optional, Set, Tuple

from ..core import Tree, Func, Module, dotted, src, AnalysisError, AnchorMissing, body_walk, ancestors
from ..framework import Finding, RuleResult
from ..norm import fold, try_fold, NotConst, strip_stmts
from ..cfg import cfg_of, CFG, fact_holds
from ..dataflow import reaching_definitions


# ------------------------------------------------------------------------------------------ fold bound
def rule_fold_bound(tree: Tree) -> RuleResult:
    r = RuleResult("FOLD", "one's-complement fold: every value leaving the fold loop fits 16 bits; the loop folds with >>16 / &0xFFFF")
    f = tree.func("checksums", "ones_complement_checksum")
    m = f.module
    loops = [n for n in body_walk(f.node) if isinstance(n, ast.While)]
    if len(loops) != 1:
        folds = [n for n in body_walk(f.node) if isinstance(n, ast.BinOp) and isinstance(n.op, ast.RShift) and try_fold(n.right) == 16]
        if not loops and folds:
            r.instances += 1
            r.ob(False, Finding("FOLD", "checksums:ones_complement_checksum:fold-guard",
                                "the carry fold `(sum >> 16) + (sum & 0xFFFF)` is not applied in a loop: one fold of a 17-bit sum can again exceed 0xFFFF "
                                "(e.g. 0x1FFFF → 0x10000), and the following 2-byte conversion overflows for packets with a correct checksum", m.line(folds[0])))
            return r
        raise AnchorMissing("ones_complement_checksum: expected exactly one fold loop")
    w = loops[0]
    r.instances += 1
    t = w.test
    var = None
    exits_le_ffff = False
    desc = src(t)
    # accepted guards:  x > 0xFFFF | x >= 0x10000 | x >> 16 [!= 0 | > 0] | x & ~0xFFFF
    if isinstance(t, ast.Compare) and len(t.ops) == 1:
        c = try_fold(t.comparators[0])
        lhs = t.left
        if isinstance(lhs, ast.Name) and isinstance(c, int):
            var = lhs.id
            if isinstance(t.ops[0], ast.Gt):
                exits_le_ffff = c == 0xFFFF
            elif isinstance(t.ops[0], ast.GtE):
                exits_le_ffff = c == 0x10000
        elif isinstance(lhs, ast.BinOp) and isinstance(lhs.op, ast.RShift) and try_fold(lhs.right) == 16 and isinstance(lhs.left, ast.Name):
            var = lhs.left.id
            exits_le_ffff = (isinstance(t.ops[0], (ast.NotEq, ast.Gt)) and c == 0) or (isinstance(t.ops[0], ast.GtE) and c == 1)
    elif isinstance(t, ast.BinOp) and isinstance(t.op, ast.RShift) and try_fold(t.right) == 16 and isinstance(t.left, ast.Name):
        var = t.left.id
        exits_le_ffff = True
    if var is None:
        raise AnalysisError(f"ones_complement_checksum: fold-loop guard `{desc}` has an unrecognised shape")
    r.ob(exits_le_ffff, Finding("FOLD", "checksums:ones_complement_checksum:fold-guard",
                                f"fold loop guard `{desc}`: the loop must run exactly while the sum exceeds 0xFFFF; with this guard a sum of "
                                f"exactly 0x10000 leaves the loop unfolded and the following 2-byte conversion overflows (or smaller bounds never terminate)",
                                m.line(w)))
    # loop body: var = (var >> 16) + (var & 0xFFFF) (through temporaries)
    r.instances += 1
    shifts = [n for s in w.body for n in ast.walk(s) if isinstance(n, ast.BinOp) and isinstance(n.op, ast.RShift) and dotted(n.left) == var]
    masks = [n for s in w.body for n in ast.walk(s) if isinstance(n, ast.BinOp) and isinstance(n.op, ast.BitAnd) and dotted(n.left) == var]
    ok = (len(shifts) == 1 and try_fold(shifts[0].right) == 16 and len(masks) == 1 and try_fold(masks[0].right) == 0xFFFF)
    # final assignment adds the two parts
    adds = [s for s in w.body if isinstance(s, ast.Assign) and dotted(s.targets[0]) == var and isinstance(s.value, ast.BinOp) and isinstance(s.value.op, ast.Add)]
    ok = ok and len(adds) == 1
    r.ob(ok, Finding("FOLD", "checksums:ones_complement_checksum:fold-step",
                     "fold step must be sum := (sum >> 16) + (sum & 0xFFFF)", m.line(w)))
    # the conversion after the loop is to 2 bytes and the complement is bytewise over 2 bytes
    r.instances += 1
    tb = [n for n in body_walk(f.node) if isinstance(n, ast.Call) and isinstance(n.func, ast.Attribute) and n.func.attr == "to_bytes" and dotted(n.func.value) == var]
    ok = len(tb) == 1 and try_fold(tb[0].args[0]) == 2 and (try_fold(tb[0].args[1]) if len(tb[0].args) > 1 else next((try_fold(k.value) for k in tb[0].keywords if k.arg == "byteorder"), "big")) == "big"
    r.ob(ok, Finding("FOLD", "checksums:ones_complement_checksum:width", "the folded sum must be converted to exactly 2 big-endian bytes", m.line(f.node)))
    # 16-bit chunking: range(0, len, 2) and slices [i:i+2] big endian; odd length padded with one zero byte
    r.instances += 1
    pad_ok = any(isinstance(n, ast.If) and isinstance(n.test, ast.Compare) and isinstance(n.test.left, ast.BinOp) and isinstance(n.test.left.op, ast.Mod)
                 and try_fold(n.test.left.right) == 2 for n in body_walk(f.node))
    rng = [n for n in body_walk(f.node) if isinstance(n, ast.For) and isinstance(n.iter, ast.Call) and dotted(n.iter.func) == "range"]
    step_ok = any(len(n.iter.args) == 3 and try_fold(n.iter.args[2]) == 2 and try_fold(n.iter.args[0]) == 0 for n in rng)
    r.ob(pad_ok and step_ok, Finding("FOLD", "checksums:ones_complement_checksum:chunking",
                                     "input must be padded to an even length and summed in 16-bit steps from offset 0", m.line(f.node)))
    r.sample({"guard": desc, "exits_le_0xFFFF": exits_le_ffff})
    return r


# ------------------------------------------------------------------------------------------ pseudo headers (T9)
def _extend_seq(stmts: List[ast.stmt], buf: str) -> List[ast.AST]:
    return [s.value.args[0] for s in stmts if isinstance(s, ast.Expr) and isinstance(s.value, ast.Call)
            and isinstance(s.value.func, ast.Attribute) and s.value.func.attr == "extend" and dotted(s.value.func.value) == buf and s.value.args]


def _desc(e: ast.AST) -> Tuple:
    c = try_fold(e)
    if isinstance(c, (bytes, bytearray)):
        return ("const", bytes(c))
    d = dotted(e)
    if d:
        return ("attr", d.split(".", 1)[1] if "." in d else d)
    if isinstance(e, ast.Call) and isinstance(e.func, ast.Attribute) and e.func.attr == "to_bytes":
        width = try_fold(e.args[0]) if e.args else None
        order = try_fold(e.args[1]) if len(e.args) > 1 else next((try_fold(k.value) for k in e.keywords if k.arg == "byteorder"), "big")
        base = e.func.value
        if isinstance(base, ast.Call) and dotted(base.func) == "len" and base.args:
            bd = dotted(base.args[0]) or "?"
            return ("len", bd.split(".", 1)[1] if "." in bd else bd, width, order)
        bd = dotted(base) or "?"
        return ("int", bd.split(".", 1)[1] if "." in bd else bd, width, order)
    return ("?", src(e, 60))


def rule_pseudo_header(tree: Tree) -> RuleResult:
    r = RuleResult("T9c", "pseudo-header layouts (RFC 793/768/8200), checksum-field offsets, comparison against the packet's own checksum field")
    for fn, l4, off in (("calculate_checksum_tcp", "tcp", (16, 18)), ("calculate_checksum_udp", "udp", (6, 8))):
        f = tree.func("checksums", fn)
        m = f.module
        body = strip_stmts(f.node.body)
        pkt = f.params[0]
        arms = {}
        for st in body:
            if isinstance(st, ast.If):
                t = st.test
                neg = isinstance(t, ast.UnaryOp) and isinstance(t.op, ast.Not)
                core = t.operand if neg else t
                if (dotted(core) or "").endswith("ipv6_packet"):
                    if neg:
                        arms["v4"] = st.body
                        if st.orelse:
                            arms["v6"] = st.orelse
                    else:
                        arms["v6"] = st.body
                        if st.orelse:
                            arms["v4"] = st.orelse
        if set(arms) != {"v4", "v6"}:
            raise AnalysisError(f"{fn}: IPv4 / IPv6 pseudo-header arms not found")
        want = {
            "v4": [("attr", "ip_src"), ("attr", "ip_dst"), ("const", b"\x00"), ("int", "ip.p", 1, "big"), ("len", l4, 2, "big")],
            "v6": [("attr", "ip_src"), ("attr", "ip_dst"), ("len", l4, 4, "big"), ("const", b"\x00\x00\x00"), ("int", "ip.p", 1, "big")],  # upper-layer protocol (dpkt: IP6.p), not IP6.nxt = type of the first extension header
        }
        for v in ("v4", "v6"):
            r.instances += 1
            got = [_desc(e) for e in _extend_seq(arms[v], "pseudo_header")]
            r.ob(got == want[v], Finding("T9c", f"checksums:{fn}:pseudo-header-{v}",
                                         f"{fn}: IP{v} pseudo header is built from {got}, RFC layout is {want[v]} "
                                         f"(a {l4.upper()} routine must take the upper-layer length from the {l4.upper()} segment)", m.line(f.node)))
            r.sample({"function": fn, "arm": v, "fields": [str(g) for g in got]})
        # dpkt fills in a zero checksum field when an IP object is serialised (IP.__bytes__ recomputes the transport checksum of its payload in place):
        # serialising packet.ip — even inside a log call — before the comparison turns a wrong 0x0000 field into the right value
        r.instances += 1
        ser = [src(c, 50) for c in body_walk(f.node) if isinstance(c, ast.Call) and (
            (dotted(c.func) in ("bytes", "bytearray", "str") and c.args and (dotted(c.args[0]) or "").split(".")[-1] in ("ip", "eth", "ethernet", "ip6"))
            or (isinstance(c.func, ast.Attribute) and c.func.attr in ("pack", "__bytes__", "pack_hdr") and (dotted(c.func.value) or "").split(".")[-1] in ("ip", "eth", "ethernet", "ip6")))]
        r.ob(not ser, Finding("T9c", f"checksums:{fn}:no-ip-serialisation",
                              f"{fn}: `{ser[0] if ser else ''}` serialises the dpkt IP object; dpkt recomputes a zero transport checksum field in place while doing so, which changes "
                              f"the field the routine is about to compare", m.line(f.node)))
        # checksum field zeroed at the right offset of a copy of the l4 bytes, then appended, then summed
        r.instances += 1
        zero_ok = False
        data_var = None
        for st in body:
            if isinstance(st, ast.Assign) and isinstance(st.targets[0], ast.Subscript) and isinstance(st.targets[0].slice, ast.Slice):
                sl = st.targets[0].slice
                lo, hi = try_fold(sl.lower), try_fold(sl.upper)
                v = try_fold(st.value) if not isinstance(st.value, ast.Call) else try_fold(st.value.args[0]) if st.value.args else None
                if (lo, hi) == off and v is not None and bytes(v) == b"\x00\x00":
                    zero_ok = True
                    data_var = dotted(st.targets[0].value)
        src_ok = False
        for st in body:
            if data_var and isinstance(st, ast.Assign) and dotted(st.targets[0]) == data_var:
                txt = src(st.value)
                src_ok = f"{pkt}.{l4}" in txt and "bytes(" in txt
        r.ob(zero_ok and src_ok, Finding("T9c", f"checksums:{fn}:checksum-field-offset",
                                         f"{fn}: the checksum field [{off[0]}:{off[1]}] of a copy of bytes({pkt}.{l4}) must be zeroed before summing", m.line(f.node)))
        # comparison
        r.instances += 1
        ret = [st for st in body if isinstance(st, ast.Return)]
        cmp_ok = False
        if len(ret) == 1 and isinstance(ret[0].value, ast.Compare) and isinstance(ret[0].value.ops[0], ast.Eq):
            names = {dotted(ret[0].value.left), dotted(ret[0].value.comparators[0])}
            defs = {dotted(st.targets[0]): st.value for st in body if isinstance(st, ast.Assign) and dotted(st.targets[0])}
            texts = {src(defs[n]) for n in names if n in defs}
            cmp_ok = any("ones_complement_checksum(pseudo_header)" in t for t in texts) and any(f"{pkt}.{l4}.sum.to_bytes(2" in t for t in texts)
        r.ob(cmp_ok, Finding("T9c", f"checksums:{fn}:verdict", f"{fn} must return (computed checksum == {pkt}.{l4}.sum as 2 bytes)", m.line(f.node)))
    return r


# ------------------------------------------------------------------------------------------ Packet variants (A3)
def packet_variants(tree: Tree) -> List[Dict[str, Any]]:
    """Enumerate the acyclic paths of Packet.__init__: for each normal exit the set of attributes assigned and flag values."""
    f = tree.func("packet", "Packet.__init__")
    cfg = cfg_of(f.node)
    out = []

    def rec(nid: int, attrs: Dict[str, Any], seen: Set[int]):
        if nid == cfg.exit:
            out.append(dict(attrs))
            return
        if nid in seen or len(out) > 64:
            return
        node = cfg.nodes[nid]
        attrs2 = dict(attrs)
        if node.kind == "stmt" and isinstance(node.ast, ast.Assign):
            for t in node.ast.targets:
                d = dotted(t)
                if d and d.startswith("self."):
                    attrs2[d[5:]] = try_fold(node.ast.value, default="?")
        for s in cfg.successors(nid, exc=False):
            rec(s, attrs2, seen | {nid})
    rec(cfg.entry, {}, set())
    # distinct variants
    uniq = []
    for v in out:
        if v not in uniq:
            uniq.append(v)
    if len(uniq) < 3:
        raise AnalysisError(f"Packet.__init__: only {len(uniq)} construction variants found (floor 3)")
    return uniq


def rule_A3_packet(tree: Tree) -> RuleResult:
    r = RuleResult("A3", "every Packet attribute read by a checksum routine exists in every Packet variant its call-site guard admits")
    variants = packet_variants(tree)
    run = tree.func("main", "run")
    rc = cfg_of(run.node)
    for fn, flag in (("calculate_checksum_tcp", "tcp_packet"), ("calculate_checksum_udp", "udp_packet")):
        f = tree.func("checksums", fn)
        pkt = f.params[0]
        # call-site guard in run()
        sites = [n for n in body_walk(run.node) if isinstance(n, ast.Call) and (dotted(n.func) or "") == fn]
        if not sites:
            raise AnchorMissing(f"run(): call of {fn} not found")
        admissible = None
        for call in sites:
            nid = rc.node_of(call)
            flags = {}
            for t, truth in rc.facts_at(nid):
                d = dotted(t) or ""
                if d.startswith("packet.") and d.split(".")[-1] in ("tcp_packet", "udp_packet"):
                    flags[d.split(".")[-1]] = truth
            adm = [v for v in variants if all(v.get(k) == val for k, val in flags.items())]
            admissible = adm if admissible is None else [v for v in admissible if v in adm]
        if not admissible:
            raise AnalysisError(f"{fn}: no Packet variant is admissible under the call-site guards")
        common = set.intersection(*(set(v) for v in admissible))
        loads = set()
        for n in body_walk(f.node):
            if isinstance(n, ast.Attribute) and isinstance(n.value, ast.Name) and n.value.id == pkt and isinstance(n.ctx, ast.Load):
                loads.add(n.attr)
        r.instances += 1
        missing = sorted(a for a in loads if a not in common and a not in ("get_params",))
        r.sample({"function": fn, "admissible_variants": len(admissible), "reads": sorted(loads), "missing": missing})
        r.ob(not missing, Finding("A3", f"checksums:{fn}:packet-attrs",
                                  f"{fn} reads {['packet.' + a for a in missing]} which Packet objects admitted by the call-site guard "
                                  f"(`packet.{flag}`) do not have → AttributeError for every such packet under -c", f.module.line(f.node)))
    return r


# ------------------------------------------------------------------------------------------ A6(b)
def rule_A6b(tree: Tree) -> RuleResult:
    r = RuleResult("A6b", "flow dispatch in run() is dominated by the checksum verdict; the verdict is True when -c is off and the protocol's own routine otherwise")
    run = tree.func("main", "run")
    m = run.module
    cfg = cfg_of(run.node)
    rd = reaching_definitions(cfg)
    for callee, routine in (("handle_packet", "calculate_checksum_tcp"), ("handle_quic_packet", "calculate_checksum_udp")):
        calls = [n for n in body_walk(run.node) if isinstance(n, ast.Call) and dotted(n.func) == callee]
        if not calls:
            raise AnchorMissing(f"run(): dispatch call {callee} not found")
        for call in calls:
            r.instances += 1
            nid = cfg.node_of(call)
            verdict_vars = {t.id for t, truth in cfg.facts_at(nid) if truth and isinstance(t, ast.Name)}
            ok = False
            detail = "no dominating test of a checksum verdict variable"
            for v in verdict_vars:
                defs = rd.get(nid, {}).get(v, set())
                kinds = set()
                for d in defs:
                    dn = cfg.nodes[d]
                    if dn.kind == "stmt" and isinstance(dn.ast, ast.Assign):
                        val = dn.ast.value
                        if isinstance(val, ast.Constant) and val.value is True:
                            # must be under `not args.checksumTest`
                            off = fact_holds(cfg.facts_at(d), "args.checksumTest", False)
                            kinds.add("true-when-off" if off else "true-unconditional")
                        elif isinstance(val, ast.Call) and dotted(val.func) == routine:
                            kinds.add("routine")
                        else:
                            kinds.add("other:" + src(val, 40))
                    else:
                        kinds.add("other")
                if kinds == {"true-when-off", "routine"}:
                    ok = True
                detail = f"verdict `{v}` is defined as {sorted(kinds)}"
            r.sample({"dispatch": callee, "detail": detail, "ok": ok})
            r.ob(ok, Finding("A6b", f"main:run:{callee}:checksum-gate",
                             f"the call of {callee} must be reachable only when the checksum verdict is true, the verdict being True without -c and "
                             f"{routine}(packet) with -c; {detail}", m.line(call)))
    return r


def rule_udp_zero(tree: Tree) -> RuleResult:
    r = RuleResult("UDPZ", "RFC 768: a computed UDP checksum of zero is transmitted as 0xffff — mapped in the UDP routine only (TCP and the shared helper have no such rule)")
    m = tree.module("checksums")

    def zero_mapping(fn: ast.FunctionDef):
        hits = []
        for n in body_walk(fn):
            if isinstance(n, ast.If) and isinstance(n.test, ast.Compare) and isinstance(n.test.ops[0], ast.Eq):
                zero = try_fold(n.test.comparators[0])
                if zero is not None and (zero == 0 or (isinstance(zero, (bytes, bytearray)) and bytes(zero) == b"\x00\x00")):
                    ones = []
                    for s in n.body:
                        for c in ast.walk(s):
                            v = try_fold(c) if isinstance(c, (ast.Constant, ast.Call)) else None
                            if v == 0xFFFF or (isinstance(v, (bytes, bytearray)) and bytes(v) == b"\xff\xff"):
                                ones.append(c)
                    if ones:
                        hits.append((n, dotted(n.test.left)))
            if isinstance(n, ast.BoolOp) and isinstance(n.op, ast.Or) and "65535" in src(n, 300).replace("0xffff", "65535") and isinstance(parent(n), ast.Return):
                hits.append((n, "return"))
        return hits
    from ..core import parent
    udp = tree.func("checksums", "calculate_checksum_udp")
    tcp = tree.func("checksums", "calculate_checksum_tcp")
    helper = tree.func("checksums", "ones_complement_checksum")
    r.instances += 1
    hu = zero_mapping(udp.node)
    ok = len(hu) == 1
    if ok and hu[0][1] != "return":
        # the mapped variable is the computed checksum that is compared with the packet's field afterwards
        var = hu[0][1]
        calc = [s for s in body_walk(udp.node) if isinstance(s, ast.Assign) and dotted(s.targets[0]) == var and "ones_complement_checksum(" in src(s.value)]
        ok = bool(calc)
    r.ob(ok, Finding("UDPZ", "checksums:calculate_checksum_udp:zero-is-ones",
                     "calculate_checksum_udp compares the checksum field with the computed value without mapping a computed 0x0000 to 0xffff: a correctly "
                     "checksummed datagram whose checksum is transmitted as 0xffff is discarded under -c", m.line(udp.node)))
    # an IPv4 datagram sent without checksum (field 0x0000) is accepted — and only that: the early accept is guarded by `not ipv6` and `field == 0`
    r.instances += 1
    cfgu = cfg_of(udp.node)
    rets_true = [n for n in cfgu.nodes if n.kind == "stmt" and isinstance(n.ast, ast.Return) and try_fold(n.ast.value) is True]
    ok = len(rets_true) == 1
    if ok:
        facts = [(src(e), t) for e, t in cfgu.facts_at(rets_true[0].id)]
        fld = {dotted(a.targets[0]) for a in body_walk(udp.node) if isinstance(a, ast.Assign) and "udp.sum" in src(a.value)} | {"packet.udp.sum"}
        v4 = any(s == "packet.ipv6_packet" and not t for s, t in facts)
        zero = any(t and any(s == f"{f} == {z}" for f in fld for z in ("b'\\x00\\x00'", "0")) for s, t in facts)
        ok = v4 and zero and len(facts) == 2
    r.ob(ok, Finding("UDPZ", "checksums:calculate_checksum_udp:no-checksum-ipv4",
                     "an IPv4 UDP datagram whose checksum field is 0x0000 was sent without checksum (RFC 768) and has no wrong checksum: calculate_checksum_udp must accept it — "
                     "exactly under `not ipv6 and field == 0` (for IPv6 a zero field stays an error)", m.line(udp.node)))
    r.instances += 1
    bad = [f.qualname for f in (tcp, helper) if zero_mapping(f.node)]
    r.ob(not bad, Finding("UDPZ", "checksums:tcp-has-no-zero-rule", f"{bad}: TCP has no 'zero is sent as 0xffff' rule; a TCP segment whose correct checksum is 0x0000 would be rejected", m.relpath))
    return r

"""E2 / D7 / A6(d) — key-log grammar, ingestion pipeline, CLI option model, discriminated key lookup (C09, C04, C10)."""
from __future__ import annotations

import ast
import re
from typing import Any, Dict, List, Optional, Set, Tuple

try:  # Python >= 3.11
    import re._parser as sre_parse
    import re._constants as sre_c
except ImportError:  # pragma: no cover
    import sre_parse
    import sre_constants as sre_c

from ..core import Tree, Func, Module, dotted, src, AnalysisError, AnchorMissing, body_walk, parent, ancestors
from ..framework import Finding, RuleResult
from ..norm import fold, try_fold, NotConst, strip_stmts
from ..cfg import cfg_of

HEX = set("0123456789abcdefABCDEF")
INF = 1 << 30


def _charset(items) -> Optional[Set[str]]:
    """Set of characters admitted by a one-character sub-pattern (list of sre ops), or None if not one-character."""
    if len(items) != 1:
        return None
    op, av = items[0]
    name = str(op)
    if name == "LITERAL":
        return {chr(av)}
    if name == "IN":
        out: Set[str] = set()
        neg = False
        for o2, a2 in av:
            n2 = str(o2)
            if n2 == "LITERAL":
                out.add(chr(a2))
            elif n2 == "RANGE":
                out |= {chr(c) for c in range(a2[0], a2[1] + 1)}
            elif n2 == "NEGATE":
                neg = True
            elif n2 == "CATEGORY":
                cat = str(a2)
                if cat == "CATEGORY_DIGIT":
                    out |= set("0123456789")
                elif cat == "CATEGORY_WORD":
                    out |= set("0123456789_abcdefghijklmnopqrstuvwxyzABCDEFGHIJKLMNOPQRSTUVWXYZ")
                elif cat == "CATEGORY_SPACE":
                    out |= set(" \t\n\r\f\v")
                else:
                    return None
            else:
                return None
        if neg:
            return {chr(c) for c in range(32, 127)} - out
        return out
    if name == "SUBPATTERN":
        return _charset(list(av[3]))
    if name == "BRANCH":
        out = set()
        for alt in av[1]:
            cs = _charset(list(alt))
            if cs is None:
                return None
            out |= cs
        return out
    if name == "ANY":
        return {chr(c) for c in range(32, 127)}
    return None


def linearise(pattern: str) -> List[Tuple[Set[str], int, int]]:
    """Pattern -> [(charset, min, max)] if it is a concatenation of repeated one-character classes, else AnalysisError."""
    try:
        tree = sre_parse.parse(pattern)
    except Exception as e:
        raise AnalysisError(f"key-log pattern does not parse: {e}")
    segs = []
    for op, av in tree:
        name = str(op)
        if name in ("MAX_REPEAT", "MIN_REPEAT"):
            lo, hi, sub = av
            cs = _charset(list(sub))
            if cs is None:
                raise AnalysisError("key-log pattern: repeated group is not a one-character class; shape not analysable")
            segs.append((cs, lo, INF if str(hi) == "MAXREPEAT" or hi >= 4294967295 else hi))
        elif name == "AT":
            segs.append((None, str(av), 0))
        else:
            cs = _charset([(op, av)])
            if cs is None:
                raise AnalysisError(f"key-log pattern: element {name} not analysable")
            segs.append((cs, 1, 1))
    return segs


def consumer_labels(tree: Tree) -> Dict[str, List[str]]:
    """String literals compared with `<x>.label` anywhere in the tree -> where."""
    out: Dict[str, List[str]] = {}
    for m in tree.modules.values():
        for n in ast.walk(m.tree):
            if isinstance(n, ast.Compare) and len(n.ops) == 1 and isinstance(n.ops[0], (ast.Eq, ast.NotEq)):
                l, rr = n.left, n.comparators[0]
                for a, b in ((l, rr), (rr, l)):
                    if isinstance(a, ast.Attribute) and a.attr == "label" and isinstance(b, ast.Constant) and isinstance(b.value, str):
                        out.setdefault(b.value, []).append(m.line(n))
    return out


def rule_E2_grammar(tree: Tree) -> RuleResult:
    r = RuleResult("E2a", "key-log line pattern admits both hex cases and every label the consumers compare against; rejects comments / blank lines")
    m = tree.module("keylog_reader")
    f = tree.func("keylog_reader", "get_key_from_line")
    key = "keylog_reader:get_key_from_line"
    pat = None
    flags_ic = False
    anchored_match = False
    for n in body_walk(f.node):
        if isinstance(n, ast.Call):
            d = dotted(n.func) or ""
            if d in ("re.compile", "re.match", "re.fullmatch", "re.search") and n.args:
                p = try_fold(n.args[0])
                if isinstance(p, str):
                    pat = p
                    for a in list(n.args[1:]) + [k.value for k in n.keywords]:
                        for x in ast.walk(a):
                            if isinstance(x, ast.Attribute) and x.attr in ("I", "IGNORECASE"):
                                flags_ic = True
                if d in ("re.match", "re.fullmatch"):
                    anchored_match = True
            if isinstance(n.func, ast.Attribute) and n.func.attr in ("match", "fullmatch") and d not in ("re.match", "re.fullmatch"):
                anchored_match = True
    if pat is None:
        raise AnchorMissing("get_key_from_line: regular-expression literal not found")
    if pat.startswith("(?i)"):
        flags_ic = True
    r.instances += 1
    segs = [s for s in linearise(pat) if s[0] is not None or True]
    body = [s for s in segs if s[0] is not None]
    if pat.startswith("^") or (segs and segs[0][0] is None and "BEGINNING" in str(segs[0][1])):
        anchored_match = True
    r.sample({"pattern": pat, "segments": [("".join(sorted(cs))[:40], lo, hi if hi < INF else "inf") for cs, lo, hi in body]})
    shape_ok = (len(body) >= 5 and body[1] == ({" "}, 1, 1) and body[3] == ({" "}, 1, 1) and body[2][1] == 64 and body[2][2] == 64)
    if not shape_ok:
        r.ob(False, Finding("E2a", key + ":shape", f"pattern {pat!r} is not `<label> <64 hex> <hex*>`", m.line(f.node)))
        return r
    lab, _, h1, _, h2 = body[:5]

    def admits_hex(cs):
        if flags_ic:
            return {c.lower() for c in HEX} <= {c.lower() for c in cs}
        return HEX <= cs
    r.ob(admits_hex(h1[0]), Finding("E2a", key + ":client-random-hex-case",
                                    f"the 64-digit client-random field admits only {''.join(sorted(h1[0]))!r}: lines written with "
                                    f"{'upper' if not set('ABCDEF') <= h1[0] else 'lower'}-case hex digits are silently ignored", m.line(f.node)))
    r.ob(admits_hex(h2[0]), Finding("E2a", key + ":secret-hex-case",
                                    f"the secret field admits only {''.join(sorted(h2[0]))!r}: upper- or lower-case hex variants of the same secret differ",
                                    m.line(f.node)))
    r.ob(h2[1] <= 1 or True, None)
    labels = consumer_labels(tree)
    if len(labels) < 6:
        raise AnalysisError(f"only {len(labels)} label literals found in consumers (floor 6)")
    for lb, where in sorted(labels.items()):
        r.instances += 1
        ok = set(lb) <= lab[0] and lab[1] <= len(lb) <= lab[2]
        r.ob(ok, Finding("E2a", key + f":label:{lb}", f"label {lb!r} (compared at {where[0]}) is not admitted by the label group of the pattern "
                                                      f"(chars {''.join(sorted(lab[0]))[:40]!r}, length {lab[1]}..{lab[2]})", m.line(f.node)))
    r.ob("#" not in lab[0] and " " not in lab[0] and lab[1] >= 1 and anchored_match,
         Finding("E2a", key + ":rejects-decoration", "comment (#…) or blank lines must not produce a key: label group must not admit '#'/' ', "
                                                     "must be non-empty, and the pattern must be applied with match()", m.line(f.node)))
    return r


def _calls_in(fn: ast.FunctionDef, name: str) -> List[ast.Call]:
    return [n for n in body_walk(fn) if isinstance(n, ast.Call) and (dotted(n.func) or "").split(".")[-1] == name]


def rule_E2_pipeline(tree: Tree) -> RuleResult:
    r = RuleResult("E2b", "one parser for file and DSB secrets; CR stripped before line splitting; one construction site of Key; late lookup")
    m = tree.module("keylog_reader")
    g = tree.func("keylog_reader", "get_keys_from_string")
    # CR handling before split
    r.instances += 1
    param = g.params[0]
    cfg = cfg_of(g.node)
    split_nodes = []
    cr_ok = False
    for n in body_walk(g.node):
        if isinstance(n, ast.Call) and isinstance(n.func, ast.Attribute):
            if n.func.attr == "splitlines":
                cr_ok = True
                split_nodes.append(n)
            if n.func.attr == "split" and n.args and try_fold(n.args[0]) == "\n":
                split_nodes.append(n)
    if not split_nodes:
        raise AnchorMissing("get_keys_from_string: line splitting call not found")
    for sp in split_nodes:
        if sp.func.attr == "splitlines":
            continue
        # receiver must derive from a .replace("\r", "") / .replace("\r\n", "\n") of the input on every path
        recv = sp.func.value
        ok = _cr_removed(g.node, cfg, recv, sp)
        cr_ok = cr_ok or ok
    r.ob(cr_ok, Finding("E2b", "keylog_reader:get_keys_from_string:cr-strip",
                        "CRLF line ends: '\\r' must be removed (replace / splitlines / strip) before lines are matched, otherwise the secret of "
                        "every CRLF line keeps a trailing \\r", m.line(g.node)))
    # get_key_from_line is applied to every line, result filtered on None
    r.instances += 1
    calls = _calls_in(g.node, "get_key_from_line")
    in_loop = any(any(isinstance(a, (ast.For, ast.ListComp, ast.GeneratorExp)) for a in ancestors(c)) for c in calls)
    line_loop = next((a for c in calls for a in ancestors(c) if isinstance(a, ast.For)), None)
    early = [src(x) for s2 in (line_loop.body if line_loop is not None else []) for x in ast.walk(s2) if isinstance(x, (ast.Break, ast.Return))]
    filt = [src(x.test, 60) for s2 in (line_loop.body if line_loop is not None else []) for x in ast.walk(s2) if isinstance(x, ast.If) and any(isinstance(y, ast.Continue) for y in ast.walk(x))]
    r.ob(bool(calls) and in_loop and not early, Finding("E2b", "keylog_reader:get_keys_from_string:per-line",
                                                        f"every line must be handed to get_key_from_line: the line loop leaves early with {early} — blank / comment / unrelated lines may precede the "
                                                        f"entries a connection needs", m.line(g.node)))
    # Key constructed at exactly one site, inside keylog_reader
    r.instances += 1
    KeyCls = tree.cls("keylog_reader", "Key")
    sites = []
    for mm in tree.modules.values():
        for n in ast.walk(mm.tree):
            if isinstance(n, ast.Call):
                ent = tree.resolve_expr(mm, n.func)
                if ent is KeyCls:
                    sites.append(mm.line(n))
    r.ob(len(sites) == 1 and sites[0].startswith("tlexport/keylog_reader.py"),
         Finding("E2b", "keylog_reader:Key:construction-sites", f"keylog Key objects are constructed at {sites}; file and DSB secrets must go through the "
                                                                f"one validated construction site in keylog_reader", m.relpath))
    # Key.__init__: label / client_random / value are fields 0 / 1 / 2 of a split on ' '
    r.instances += 1
    init = KeyCls.methods.get("__init__")
    fields = {}
    if init:
        for st in init.node.body:
            if isinstance(st, ast.Assign) and isinstance(st.targets[0], ast.Attribute) and isinstance(st.value, ast.Subscript):
                fields[st.targets[0].attr] = try_fold(st.value.slice)
    r.ob(fields.get("label") == 0 and fields.get("client_random") == 1 and fields.get("value") == 2,
         Finding("E2b", "keylog_reader:Key.__init__:field-order", f"Key fields must be (label, client_random, value) = split[0..2], found {fields}", m.relpath))
    # the key list only grows while the capture is read: nothing but .extend() touches it inside the capture loop (a clear() / re-binding there makes
    # secrets that were already delivered disappear for the connections that still need them)
    r.instances += 1
    run = tree.func("main", "run")
    cfgr = cfg_of(run.node)
    shrink = []
    for n in cfgr.nodes:
        if n.kind != "stmt" or not n.loops:
            continue
        for c in ast.walk(n.ast):
            if isinstance(c, ast.Call) and isinstance(c.func, ast.Attribute) and dotted(c.func.value) == "keylog" and c.func.attr not in ("extend", "append"):
                shrink.append(src(c, 60))
        if isinstance(n.ast, (ast.Assign, ast.AugAssign, ast.Delete)):
            for t in (n.ast.targets if isinstance(n.ast, (ast.Assign, ast.Delete)) else [n.ast.target]):
                base = t
                while isinstance(base, ast.Subscript):
                    base = base.value
                if dotted(base) == "keylog":
                    shrink.append(src(n.ast, 60))
    r.ob(not shrink, Finding("E2b", "main:run:keylog-append-only", f"inside the loops of run() the shared key list must only be extended; found {shrink[:3]}", run.module.line(run.node)))
    # the block text is decoded tolerantly: key lines are ASCII, but a block may contain other bytes (a comment with an umlaut); a strict decode raises, the
    # per-packet handler swallows the exception and every secret of the block is lost — while the same log given with -s works
    r.instances += 1
    decs = [c for c in body_walk(run.node) if isinstance(c, ast.Call) and isinstance(c.func, ast.Attribute) and c.func.attr == "decode" and dotted(c.func.value) == "buf"]
    okd = len(decs) == 1 and (any(k.arg == "errors" and try_fold(k.value) in ("replace", "ignore", "surrogateescape", "backslashreplace") for k in decs[0].keywords)
                              or (len(decs[0].args) > 1 and try_fold(decs[0].args[1]) in ("replace", "ignore", "surrogateescape", "backslashreplace")))
    r.ob(okd, Finding("E2b", "main:run:dsb-decode-tolerant", "the DSB payload must be decoded with an error handler (errors='replace'): one non-ASCII byte anywhere in the block "
                                                             "otherwise discards all of its secrets", run.module.line(run.node)))
    # the file is handed to the parser as a whole (`get_keys_from_string(file.read())`): a line-by-line reader with its own stop condition (first blank line,
    # first comment) would drop the lines behind it, although blank and foreign lines may stand anywhere in a key log
    r.instances += 1
    rkf = tree.func("keylog_reader", "read_keylog_from_file")
    rets = [src(n.value) for n in body_walk(rkf.node) if isinstance(n, ast.Return) and n.value is not None]
    loops = [n for n in body_walk(rkf.node) if isinstance(n, (ast.For, ast.While))]
    r.ob(rets == ["get_keys_from_string(file.read())"] and not loops, Finding("E2b", "keylog_reader:read_keylog_from_file:whole-file",
                                                                              f"read_keylog_from_file must return get_keys_from_string(file.read()); found returns {rets}, {len(loops)} loop(s)", rkf.module.line(rkf.node)))
    # both ingestion paths in main.run go through get_keys_from_string
    r.instances += 1
    ext = []
    for n in body_walk(run.node):
        if isinstance(n, ast.Call) and isinstance(n.func, ast.Attribute) and n.func.attr in ("extend", "append") and dotted(n.func.value) == "keylog":
            arg = n.args[0] if n.args else None
            callee = (dotted(arg.func) or "") if isinstance(arg, ast.Call) else ""
            ext.append((callee.split(".")[-1], n))
    callee_names = sorted(c for c, _ in ext)
    ok = callee_names == ["get_keys_from_string", "read_keylog_from_file"]
    rf = tree.func("keylog_reader", "read_keylog_from_file")
    ok = ok and bool(_calls_in(rf.node, "get_keys_from_string"))
    r.ob(ok, Finding("E2b", "main:run:keylog-ingestion", f"the shared key list must be extended only by read_keylog_from_file (→ get_keys_from_string) "
                                                         f"and by get_keys_from_string on DSB payloads; found {callee_names}", run.module.line(run.node)))
    # DSB branch: `if ts == -1:` feeds keylog and continues before any flow dispatch
    r.instances += 1
    rc = cfg_of(run.node)
    dsb_ok = False
    for c, n in ext:
        if c != "get_keys_from_string":
            continue
        nid = rc.node_of(n)
        under = any(truth and isinstance(t, ast.Compare) and dotted(t.left) == "ts" and isinstance(t.ops[0], ast.Eq) and try_fold(t.comparators[0]) == -1
                    for t, truth in rc.facts_at(nid))
        # after ingesting the DSB payload no flow dispatch may be reachable within the same iteration
        loop_hdrs = rc.nodes[nid].loops
        disp = [rc.node_of(c) for c in body_walk(run.node) if isinstance(c, ast.Call) and dotted(c.func) in ("handle_packet", "handle_quic_packet")]
        reach = rc.reachable_from(nid, exc=False, avoid_nodes=set(loop_hdrs[-1:]))
        dsb_ok = under and bool(loop_hdrs) and not any(d in reach for d in disp)
        # file + DSB combined: ingestion depends on nothing but the block being a DSB
        other = [src(t2) for t2, tr in rc.facts_at(nid) if not (isinstance(t2, ast.Compare) and dotted(t2.left) == "ts")]
        dsb_ok = dsb_ok and not other
    r.ob(dsb_ok, Finding("E2b", "main:run:dsb-branch", "DSB payloads (ts == -1) must be parsed into the key list under `if ts == -1` and the "
                                                       "iteration must `continue` before any flow dispatch", run.module.line(run.node)))
    # sessions keep a reference to the shared, still growing key list (a copy would miss secrets delivered by later DSBs)
    for mod2, cn in (("session", "Session"), ("quic.quic_session", "QuicSession")):
        r.instances += 1
        init = tree.cls(mod2, cn).methods["__init__"]
        vals = [src(s2.value) for s2 in body_walk(init.node) if isinstance(s2, ast.Assign) and dotted(s2.targets[0]) == "self.keylog"]
        r.ob(vals == ["keylog"], Finding("E2b", f"{mod2}:{cn}.__init__:shared-keylog",
                                         f"{cn} must keep the shared key list itself (`self.keylog = keylog`), found {vals}: a snapshot taken at the first packet ignores every DSB that follows", init.module.line(init.node)))
    # … and what they are handed is that list: along run() -> handle_packet / handle_quic_packet -> Session / QuicSession the key-list argument is the
    # bare name at every step (`keylog or []`, `list(keylog)`, `keylog[:]` hand over another object as soon as / while the list is empty)
    run_f = tree.func("main", "run")
    for disp, ctor in (("handle_packet", "Session"), ("handle_quic_packet", "QuicSession")):
        r.instances += 1
        df = tree.func("main", disp)
        params = [a.arg for a in df.node.args.args]
        bad = []
        if "keylog" not in params:
            raise AnchorMissing(f"{disp}: parameter keylog not found")
        kpos = params.index("keylog")
        for c in body_walk(run_f.node):
            if isinstance(c, ast.Call) and dotted(c.func) == disp:
                arg = c.args[kpos] if len(c.args) > kpos else next((k.value for k in c.keywords if k.arg == "keylog"), None)
                if not (isinstance(arg, ast.Name) and arg.id == "keylog"):
                    bad.append(f"run(): {src(arg, 40) if arg is not None else 'missing'}")
        ctor_init = tree.cls("session" if ctor == "Session" else "quic.quic_session", ctor).methods["__init__"]
        cparams = [a.arg for a in ctor_init.node.args.args][1:]
        cpos = cparams.index("keylog") if "keylog" in cparams else None
        if cpos is None:
            raise AnchorMissing(f"{ctor}.__init__: parameter keylog not found")
        n_ctor = 0
        for c in body_walk(df.node):
            if isinstance(c, ast.Call) and dotted(c.func) == ctor:
                n_ctor += 1
                arg = c.args[cpos] if len(c.args) > cpos else next((k.value for k in c.keywords if k.arg == "keylog"), None)
                if not (isinstance(arg, ast.Name) and arg.id == "keylog"):
                    bad.append(f"{disp}: {src(arg, 40) if arg is not None else 'missing'}")
        if n_ctor == 0:
            raise AnchorMissing(f"{disp}: construction of {ctor} not found")
        if any(isinstance(x, ast.Name) and x.id == "keylog" and isinstance(x.ctx, ast.Store) for x in ast.walk(df.node)):
            bad.append(f"{disp}: keylog is rebound")
        r.ob(not bad, Finding("E2b", f"main:{disp}:keylog-handed-on", f"the key list handed to {ctor} must be the shared list object itself at every step of the call chain; found {bad}: "
                                                                       f"a session created while the list is empty (or from a copy) never sees the secrets of a later decryption-secrets block", df.module.line(df.node)))
    # late binding: TLS secret lookup only reachable from the finalisation phase (Session.decrypt), never from ingest
    r.instances += 1
    from ..callgraph import CallGraph
    cg = CallGraph.of(tree)
    fss = tree.func("session", "Session.find_session_secrets")
    ingest_roots = [tree.func("main", "handle_packet")]
    reach = cg.reachable(ingest_roots)
    r.ob(fss not in reach, Finding("E2b", "session:Session.find_session_secrets:late-binding",
                                   "the TLS secret lookup is reachable from packet ingest: a decryption-secrets block located after the "
                                   "handshake packets would be missed", fss.module.line(fss.node),
                                   cg.path(ingest_roots, fss)))
    return r


def _cr_removed(fn: ast.FunctionDef, cfg, recv: ast.AST, use: ast.AST) -> bool:
    """recv (a Name) is, on every path to `use`, the result of <x>.replace("\\r", …) applied to the previous value."""
    from ..dataflow import reaching_definitions
    if isinstance(recv, ast.Call) and isinstance(recv.func, ast.Attribute) and recv.func.attr == "replace":
        a0 = try_fold(recv.args[0]) if recv.args else None
        return a0 in ("\r", "\r\n")
    name = dotted(recv)
    if not name:
        return False
    rd = reaching_definitions(cfg)
    nid = cfg.node_of(use)
    defs = rd.get(nid, {}).get(name, set())
    if not defs:
        return False
    for d in defs:
        node = cfg.nodes[d]
        if node.kind != "stmt" or not isinstance(node.ast, ast.Assign):
            return False
        v = node.ast.value
        if not (isinstance(v, ast.Call) and isinstance(v.func, ast.Attribute) and v.func.attr == "replace" and v.args
                and try_fold(v.args[0]) in ("\r", "\r\n")):
            return False
    return True


# ------------------------------------------------------------------------------------------ CLI model
def argparse_model(tree: Tree) -> Dict[str, Dict[str, Any]]:
    f = tree.func("main", "arg_parser_init")
    out: Dict[str, Dict[str, Any]] = {}
    for n in body_walk(f.node):
        if isinstance(n, ast.Call) and isinstance(n.func, ast.Attribute) and n.func.attr == "add_argument":
            flags = [try_fold(a) for a in n.args]
            kw = {}
            for k in n.keywords:
                try:
                    kw[k.arg] = fold(k.value)
                except NotConst:
                    kw[k.arg] = ("expr", src(k.value, 80))
            long = next((x for x in flags if isinstance(x, str) and x.startswith("--")), None)
            if long:
                kw["_flags"] = flags
                kw["_node"] = n
                out[long[2:]] = kw
    if len(out) < 8:
        raise AnalysisError(f"argparse model: only {len(out)} options found (floor 8)")
    return out


def rule_E2_cli(tree: Tree) -> RuleResult:
    r = RuleResult("E2c", "the key-file option defaults to None so that DSB-only input works from any directory")
    opts = argparse_model(tree)
    m = tree.module("main")
    r.instances += 1
    o = opts.get("sslkeylog")
    if o is None:
        raise AnchorMissing("--sslkeylog option not found")
    dflt = o.get("default", None)
    r.sample({"option": "--sslkeylog", "default": dflt})
    r.ob(dflt is None, Finding("E2c", "main:arg_parser_init:sslkeylog-default",
                               f"-s/--sslkeylog defaults to {dflt!r}: with secrets embedded in the capture and no -s, a run outside the repository "
                               f"root stops with 'Keylog file not found' and a run inside it silently adds the sample keys; the default must be None",
                               m.line(o["_node"])))
    # the DSB-only branch exists: `if args.sslkeylog is not None: … read file`
    r.instances += 1
    run = tree.func("main", "run")
    cfg = cfg_of(run.node)
    guarded = False
    for n in body_walk(run.node):
        if isinstance(n, ast.Call) and (dotted(n.func) or "").endswith("read_keylog_from_file"):
            nid = cfg.node_of(n)
            for t, truth in cfg.facts_at(nid):
                if isinstance(t, ast.Compare) and (dotted(t.left) or "").endswith("sslkeylog") and try_fold(t.comparators[0], default=0) is None:
                    if (isinstance(t.ops[0], (ast.IsNot, ast.NotEq)) and truth) or (isinstance(t.ops[0], (ast.Is, ast.Eq)) and not truth):
                        guarded = True
                elif (dotted(t) or "").endswith("sslkeylog") and truth:
                    guarded = True
    r.ob(guarded, Finding("E2c", "main:run:keyfile-optional", "reading the key file must be conditional on the option being given", run.module.line(run.node)))
    return r


# ------------------------------------------------------------------------------------------ D7
def _normalised_hex_side(e: ast.AST) -> bool:
    """expr is case-normalised hex text or bytes: x.lower(), x.hex().lower(), bytes.fromhex(x), x.hex() vs…"""
    if isinstance(e, ast.Call) and isinstance(e.func, ast.Attribute):
        if e.func.attr in ("lower", "upper", "casefold"):
            return True
        if e.func.attr == "fromhex":
            return True
    return False


def rule_D7(tree: Tree) -> RuleResult:
    r = RuleResult("D7", "secrets are attached to a connection only under a client-random equality test on normalised case")
    for mod, qn, listname in (("session", "Session.find_session_secrets", None), ("quic.quic_session", "QuicSession.set_tls_decryptors", None)):
        f = tree.func(mod, qn)
        cfg = cfg_of(f.node)
        r.instances += 1
        key = f"{mod}:{qn}:client-random-match"
        appends = [n for n in body_walk(f.node) if isinstance(n, ast.Call) and isinstance(n.func, ast.Attribute) and n.func.attr == "append"
                   and isinstance(n.func.value, ast.Name)]
        # the append whose argument is the loop variable of the loop over self.keylog
        found = False
        ok = False
        detail = ""
        for ap in appends:
            loop = next((a for a in ancestors(ap) if isinstance(a, ast.For) and (dotted(a.iter) or "").endswith("keylog")), None)
            if loop is None or not ap.args or dotted(ap.args[0]) != dotted(loop.target):
                continue
            found = True
            lv = dotted(loop.target)
            nid = cfg.node_of(ap)
            for t, truth in cfg.facts_at(nid):
                if (isinstance(t, ast.Compare) and len(t.ops) == 1 and
                        ((isinstance(t.ops[0], ast.Eq) and truth) or (isinstance(t.ops[0], ast.NotEq) and not truth))):
                    sides = [t.left, t.comparators[0]]
                    txt = [src(s) for s in sides]
                    has_key_side = any(f"{lv}.client_random" in s for s in txt)
                    has_session_side = any("client_random" in s and f"{lv}." not in s for s in txt)
                    if has_key_side and has_session_side:
                        key_side = sides[0] if f"{lv}.client_random" in txt[0] else sides[1]
                        oth_side = sides[1] if key_side is sides[0] else sides[0]
                        norm = _normalised_hex_side(key_side) and (_normalised_hex_side(oth_side) or not isinstance(oth_side, ast.Call)
                                                                   or isinstance(oth_side, ast.Name))
                        # text-vs-text needs both sides case-normalised; bytes-vs-bytes needs fromhex on the key side
                        if isinstance(key_side, ast.Call) and key_side.func.attr == "fromhex":
                            norm = True
                        elif isinstance(key_side, ast.Call) and key_side.func.attr in ("lower", "upper", "casefold"):
                            norm = isinstance(oth_side, ast.Call) and isinstance(oth_side.func, ast.Attribute) and oth_side.func.attr == key_side.func.attr
                        else:
                            norm = False
                        ok = norm
                        detail = src(t, 120)
        if not found:
            raise AnchorMissing(f"{qn}: the loop collecting the connection's secrets from the key list was not found")
        # every line of the shared key list is considered: the scan has no break / return / else-break
        r.instances += 1
        kl = next(a for ap in appends for a in ancestors(ap) if isinstance(a, ast.For) and (dotted(a.iter) or "").endswith("keylog"))
        early = [src(x) for s2 in kl.body for x in ast.walk(s2) if isinstance(x, (ast.Break, ast.Return))]
        r.ob(not early and dotted(kl.iter) == "self.keylog", Finding("D7", f"{mod}:{qn}:full-scan",
                                                                     f"{qn} must look at every entry of the shared key list (key-log lines of concurrent connections are interleaved); the scan "
                                                                     f"iterates `{src(kl.iter)}` and leaves early with {early}", f.module.line(kl)))
        r.sample({"function": qn, "test": detail, "ok": ok})
        r.ob(ok, Finding("D7", key, f"{qn}: a key-log entry must be added to the connection's secrets only under "
                                    f"`entry.client_random == <this connection's client random>` compared on normalised case "
                                    f"(found: {detail or 'no such dominating test'})", f.module.line(f.node)))
    # the secret a TLS <= 1.2 key schedule starts from is chosen by its label, not by its position among the connection's lines (another label with the same client
    # random — e.g. CLIENT_EARLY_TRAFFIC_SECRET of a 0-RTT attempt that fell back to TLS 1.2 — may be listed first)
    r.instances += 1
    gk = tree.func("session", "Session.generate_keys")
    sel = [n for n in body_walk(gk.node) if isinstance(n, ast.Assign) and dotted(n.targets[0]) == "secret"]
    by_pos = [src(n.value, 60) for n in sel if isinstance(n.value, ast.Subscript) and not isinstance(n.value.slice, ast.Slice)]
    by_label = [n for n in sel if any(isinstance(x, ast.Attribute) and x.attr == "label" for x in ast.walk(n.value))
                and {try_fold(c) for c in ast.walk(n.value) if isinstance(c, ast.Constant) and isinstance(c.value, str)} >= {"CLIENT_RANDOM", "RSA"}]
    r.ob(len(sel) >= 1 and not by_pos and len(by_label) == len(sel),
         Finding("D7", "session:Session.generate_keys:secret-by-label",
                 f"generate_keys takes `{by_pos[0] if by_pos else (src(sel[0].value, 60) if sel else None)}` as the connection's secret: the CLIENT_RANDOM / RSA line must be selected by its label — "
                 f"with another line of the same client random listed first no decryptor is installed (the export then depends on the line order of the key log)", gk.module.line(gk.node)))
    return r

"""C02 / C04 / C07 — QUIC: datagram grouping (D8), key dictionary agreement (T5), AAD layouts and header-protection constants (T9),
epoch rule, connection-ID matching (D7b), frame attribute definedness (A3f), STREAM type set agreement (T8s)."""
from __future__ import annotations

import ast
from typing import Any, Dict, List, Optional, Set, Tuple

from ..core import Tree, Func, Class, dotted, src, AnalysisError, AnchorMissing, body_walk, ancestors
from ..framework import Finding, RuleResult
from ..norm import try_fold, strip_stmts, canon
from ..cfg import cfg_of, fact_holds
from ..dataflow import reaching_definitions
from ..symeval import value_of, Unknown
from .pkn import nf

QS = "quic.quic_session"
QD = "quic.quic_dissector"
QOB = "quic.quic_output_builder"


# ------------------------------------------------------------------------------------------ D8
def rule_D8(tree: Tree) -> RuleResult:
    r = RuleResult("D8", "QUIC output grouping: frames are merged into the current datagram only when they come from the same input datagram (equal capture time); "
                         "a closed group is emitted with its own time and direction before the group variables are rebound")
    f = tree.func(QOB, "QUICOutputbuilder.build")
    m = f.module
    cfg = cfg_of(f.node)
    loop = next((n for n in cfg.nodes if n.kind == "for" and src(n.ast.iter) == "self.decrypted_traffic"), None)
    if loop is None:
        raise AnchorMissing("QUICOutputbuilder.build: frame loop not found")
    body = cfg.loop_body_nodes(loop.id)
    merges = [n for n in cfg.nodes if n.id in body and n.kind == "stmt" and any(isinstance(c, ast.Call) and dotted(c.func) == "packets.extend" for c in ast.walk(n.ast))]
    resets = [n for n in cfg.nodes if n.id in body and n.kind == "stmt" and isinstance(n.ast, ast.Assign) and dotted(n.ast.targets[0]) == "packets"]
    if not merges:
        raise AnchorMissing("QUICOutputbuilder.build: `packets.extend(data)` not found")
    k = 0
    for mg in merges:
        k += 1
        r.instances += 1
        # new group if a reset of `packets` dominates the merge inside the loop body
        fresh = any(cfg.dominates(rs.id, mg.id) for rs in resets)
        facts = cfg.facts_at(mg.id)
        same_ts = fact_holds(facts, ("frame.src_packet.ts == ts", "ts == frame.src_packet.ts"), True) or fact_holds(facts, ("frame.src_packet.ts != ts", "ts != frame.src_packet.ts"), False)
        conds = [f"{src(e, 50)}={t}" for e, t in facts if "frame" in src(e) and "frame_type" not in src(e)]
        r.sample({"merge": f"{m.line(mg.ast)}", "fresh_group": fresh, "same_ts_fact": same_ts, "path_condition": conds})
        r.ob(fresh or same_ts, Finding("D8", f"{QOB}:QUICOutputbuilder.build:merge#{k}",
                                       f"`packets.extend(data)` at line {mg.lineno} adds a frame to the datagram being assembled under {conds or 'no condition'} — without "
                                       f"`frame.src_packet.ts == ts` frames of different input datagrams (equal packet-number bytes, e.g. client pn 5 then server pn 5) are "
                                       f"merged into one output datagram carrying the first one's direction and time", m.line(mg.ast)))
    # no selected data is lost: every path from the data selection to the next iteration passes exactly one `packets.extend(data)`
    r.instances += 1
    skip = [n for n in cfg.nodes if n.id in body and n.kind == "if" and src(n.ast.test) == "data is None"]
    lost = []
    if skip:
        start = skip[0].id
        merge_ids = {mg.id for mg in merges}
        # paths from the F-successor of `data is None` back to the loop header avoiding all merges
        succ_f = [s for s, lab in cfg.succ[start] if lab == "F"]
        for s0 in succ_f:
            seen = set()
            work = [s0]
            while work:
                x = work.pop()
                if x in seen or x in merge_ids:
                    continue
                seen.add(x)
                if x == loop.id:
                    lost.append(s0)
                    break
                work.extend(cfg.successors(x, False))
    # STREAM frames reach the merge too: the `data = frame.stream_data` branch falls through to the same code
    r.ob(bool(skip) and not lost, Finding("D8", f"{QOB}:QUICOutputbuilder.build:no-data-loss",
                                          "some path through the loop body selects frame data but reaches the next frame without `packets.extend(data)`: that frame's bytes vanish "
                                          "from the export (e.g. the first frame of a later coalesced packet of the same datagram)", m.line(f.node)))
    # emission inside the loop precedes the rebinding of ts / isserver; rebinding takes the new frame's values
    r.instances += 1
    emits = [n for n in cfg.nodes if n.id in body and n.kind == "stmt" and any(isinstance(c, ast.Call) and dotted(c.func) == "self.out.append" for c in ast.walk(n.ast))]
    reb = {v: [n for n in cfg.nodes if n.id in body and n.kind == "stmt" and isinstance(n.ast, ast.Assign) and dotted(n.ast.targets[0]) == v] for v in ("ts", "isserver")}
    ok = len(emits) == 1 and all(len(v) == 1 for v in reb.values())
    if ok:
        E = emits[0]
        ok = src(next(c for c in ast.walk(E.ast) if isinstance(c, ast.Call)).args[0]).endswith(", ts)")
        ok = ok and all(cfg.dominates(E.id, v[0].id) for v in reb.values())
        ok = ok and src(reb["ts"][0].ast.value) == "frame.src_packet.ts" and src(reb["isserver"][0].ast.value) == "frame.src_packet.isserver"
        # group variables rebound together: same path condition
        ok = ok and cfg.conditions_at(reb["ts"][0].id) == cfg.conditions_at(reb["isserver"][0].id)
        # the reset of the buffer also sits on that path, after the emission
        ok = ok and any(cfg.dominates(E.id, rs.id) for rs in resets)
    r.ob(ok, Finding("D8", f"{QOB}:QUICOutputbuilder.build:close-group",
                     "when a datagram boundary is found the assembled datagram must be emitted as (packet, ts) with the group's own ts/direction, and only then ts, isserver and "
                     "the buffer rebound together from the new frame", m.line(f.node)))
    # direction of an emitted group: `if isserver:` on the group variable selects server→client addressing (B1 handles mirror; role check here)
    r.instances += 1
    ok = True
    cnt = 0
    for n in body_walk(f.node):
        if isinstance(n, ast.If) and src(n.test) == "isserver":
            cnt += 1
            for c in ast.walk(ast.Module(body=n.body, type_ignores=[])):
                if isinstance(c, ast.Call) and dotted(c.func) == "Ether":
                    kw = {k.arg: dotted(k.value) for k in c.keywords}
                    if kw.get("src") != "self.server_mac_address" or kw.get("dst") != "self.client_mac_address":
                        ok = False
                if isinstance(c, ast.Call) and dotted(c.func) in ("IP", "IPv6"):
                    kw = {k.arg: (dotted(k.value) or src(k.value)) for k in c.keywords}
                    if kw.get("src") != "self.server_ip" or kw.get("dst") != "self.client_ip":
                        ok = False
                if isinstance(c, ast.Call) and dotted(c.func) == "UDP":
                    kw = {k.arg: dotted(k.value) for k in c.keywords}
                    if kw.get("sport") != "self.server_port" or kw.get("dport") != "self.client_port":
                        ok = False
    r.ob(ok and cnt == 2, Finding("D8", f"{QOB}:QUICOutputbuilder.build:direction-addressing", "a group flagged isserver must be addressed server→client (MAC, IP, port), both inside the loop and for the last group", m.line(f.node)))
    # initial group variables and final emission
    r.instances += 1
    pre = {dotted(s.targets[0]): src(s.value) for s in f.node.body if isinstance(s, ast.Assign)}
    ok = pre.get("ts") == "self.decrypted_traffic[0].src_packet.ts" and pre.get("isserver") == "self.decrypted_traffic[0].src_packet.isserver" and pre.get("packets") == "bytearray()"
    tail = [s for s in f.node.body if isinstance(s, ast.Expr) and isinstance(s.value, ast.Call) and dotted(s.value.func) == "self.out.append"]
    ok = ok and len(tail) == 1 and src(tail[0].value.args[0]) == "(packet, ts)"
    # between the loop and the final emission the group variables are not rebound
    after = False
    rebinds = []
    for st in f.node.body:
        if isinstance(st, ast.For):
            after = True
            continue
        if after:
            for x in ast.walk(st):
                if isinstance(x, ast.Name) and isinstance(x.ctx, ast.Store) and x.id in ("ts", "isserver", "packets"):
                    rebinds.append(f"{x.id} (line {x.lineno})")
    ok = ok and not rebinds
    r.ob(ok, Finding("D8", f"{QOB}:QUICOutputbuilder.build:first-and-last-group", f"the first group starts with the first frame's time/direction and an empty buffer; the last open group is emitted after the loop with the *running* group state (rebound after the loop: {rebinds})", m.line(f.node)))
    return r


# ------------------------------------------------------------------------------------------ T5
def produced_keys(tree: Tree, fn: str) -> List[str]:
    f = tree.func("quic.quic_key_generation", fn)
    out = []
    for n in body_walk(f.node):
        if isinstance(n, ast.Dict) and n.keys and all(isinstance(k, ast.Constant) and isinstance(k.value, str) for k in n.keys):
            out.extend(k.value for k in n.keys)
    return out


def rule_T5_quic(tree: Tree) -> RuleResult:
    r = RuleResult("T5q", "QUIC key names: every key a consumer reads is produced; role / epoch agreement of names, list positions of QuicDecryptor keys")
    prod = set(produced_keys(tree, "dev_quic_keys")) | set(produced_keys(tree, "dev_initial_keys"))
    if len(prod) < 20:
        raise AnalysisError(f"only {len(prod)} produced QUIC key names found (floor 20)")
    # consumers
    for mod, qn in ((QD, "extract_quic_packet"), (QS, "QuicSession.set_tls_decryptors"), (QS, "QuicSession.set_initial_decryptor")):
        f = tree.func(mod, qn)
        cfg = cfg_of(f.node)
        for n in body_walk(f.node):
            if isinstance(n, ast.Subscript) and dotted(n.value) == "keys" and isinstance(n.ctx, ast.Load):
                k = try_fold(n.slice)
                if not isinstance(k, str):
                    continue
                r.instances += 1
                r.ob(k in prod, Finding("T5q", f"{mod}:{qn}:consumed-key:{k}", f"{qn} reads keys[{k!r}], which no key-derivation function produces (KeyError → packet type never decrypted)", f.module.line(n)))
                if mod == QD:
                    # role and epoch agreement with the branch
                    r.instances += 1
                    nid = cfg.node_of(n)
                    facts = cfg.facts_at(nid)
                    role = "server" if fact_holds(facts, "isserver", True) else "client" if fact_holds(facts, "isserver", False) else None
                    epoch = None
                    for b, lab in cfg.conditions_at(nid):
                        nd = cfg.nodes[b]
                        if nd.kind == "case" and lab == "T":
                            t = src(nd.ast.pattern)
                            if "INITIAL" in t:
                                epoch = "initial"
                            elif "SHORT" in t:
                                epoch = "application"
                    for e, t in facts:
                        s = src(e)
                        if t and s == "packet_type == QuicPacketType.HANDSHAKE":
                            epoch = "handshake"
                        if t and s == "packet_type == QuicPacketType.RTT_O":
                            epoch = "early"
                    toks = k.split("_")
                    ok = k.endswith("_hp") and (role is None and toks[0] == "client" and epoch == "early" or toks[0] == role) and (epoch is None or toks[1] == epoch)
                    r.ob(ok, Finding("T5q", f"{mod}:{qn}:key-role:{k}", f"{qn}: header-protection key {k!r} is used for a {role or 'client'} packet of the {epoch} epoch", f.module.line(n)))
    # decryptor key lists
    want_pos = [("server", "key"), ("server", "iv"), ("client", "key"), ("client", "iv"), ("server", "sec"), ("client", "sec")]
    st = tree.func(QS, "QuicSession.set_tls_decryptors")
    si = tree.func(QS, "QuicSession.set_initial_decryptor")
    for f in (st, si):
        for n in body_walk(f.node):
            if isinstance(n, ast.Call) and dotted(n.func) == "QuicDecryptor":
                lst = n.args[0]
                early = next((try_fold(k.value) for k in n.keywords if k.arg == "early"), None)
                if isinstance(lst, ast.Name):
                    lst = next((s.value for s in body_walk(f.node) if isinstance(s, ast.Assign) and dotted(s.targets[0]) == lst.id), lst)
                if not isinstance(lst, ast.List):
                    raise AnalysisError(f"{f.qualname}: QuicDecryptor key list is not a list literal")
                names = [try_fold(e.slice) if isinstance(e, ast.Subscript) else None for e in lst.elts]
                # which decryptor slot
                slot = None
                for a in ancestors(n):
                    if isinstance(a, ast.Assign) and isinstance(a.targets[0], ast.Subscript) and dotted(a.targets[0].value) == "self.decryptors":
                        slot = try_fold(a.targets[0].slice)
                if slot is None:
                    asg = next((a for a in ancestors(n) if isinstance(a, ast.Assign)), None)
                    if asg is not None and isinstance(asg.targets[0], ast.Name):
                        var = asg.targets[0].id
                        for s in body_walk(f.node):
                            if isinstance(s, ast.Assign) and isinstance(s.targets[0], ast.Subscript) and dotted(s.targets[0].value) == "self.decryptors" and dotted(s.value) == var:
                                slot = try_fold(s.targets[0].slice)
                r.instances += 1
                ok = slot is not None and all(isinstance(x, str) for x in names)
                if ok:
                    ep = slot.lower()
                    if early:
                        ok = names == ["client_early_key", "client_early_iv"] and slot == "Early"
                    else:
                        ok = early is False and len(names) in (4, 6) and all(nm == f"{role}_{ep}_{kind}" for nm, (role, kind) in zip(names, want_pos))
                        ok = ok and (len(names) == 6) == (slot == "Application")
                r.ob(ok, Finding("T5q", f"{QS}:{f.qualname}:decryptor-keys:{slot}",
                                 f"{f.qualname}: decryptor slot {slot!r} is built from {names} (early={early}); QuicDecryptor expects [server key, server iv, client key, client iv"
                                 f"(, server secret, client secret)] of that epoch", f.module.line(n)))
    # QuicDecryptor.__init__ positions
    qd = tree.func("quic.quic_decryptor", "QuicDecryptor.__init__")
    r.instances += 1
    cfg = cfg_of(qd.node)
    got_e, got_n = {}, {}
    for n in cfg.nodes:
        if n.kind == "stmt" and isinstance(n.ast, ast.Assign) and isinstance(n.ast.value, ast.Subscript) and dotted(n.ast.value.value) == "keys":
            tgt = dotted(n.ast.targets[0])
            idx = try_fold(n.ast.value.slice)
            if fact_holds(cfg.facts_at(n.id), "early", True):
                got_e[tgt] = idx
            else:
                got_n[tgt] = idx
    ok = got_e == {"self.client_key": 0, "self.client_iv": 1} and got_n == {"self.server_key": 0, "self.server_iv": 1, "self.client_key": 2, "self.client_iv": 3}
    r.ob(ok, Finding("T5q", "quic.quic_decryptor:QuicDecryptor.__init__:positions", f"QuicDecryptor must read [server key, server iv, client key, client iv] (early: [client key, client iv]); found {got_n} / early {got_e}", qd.module.line(qd.node)))
    # key_update positions
    ku = tree.func("quic.quic_key_generation", "key_update")
    r.instances += 1
    reads = {dotted(s.targets[0]): try_fold(s.value.slice) for s in body_walk(ku.node) if isinstance(s, ast.Assign) and isinstance(s.value, ast.Subscript) and (dotted(s.value.value) or "").endswith(".keys")}
    ret = next((n.value for n in body_walk(ku.node) if isinstance(n, ast.Return)), None)
    out_names = [dotted(e) for e in ret.args[0].elts] if isinstance(ret, ast.Call) and ret.args and isinstance(ret.args[0], ast.List) else []
    ok = reads == {"server_n": 4, "client_n": 5} and out_names == ["server_application_key", "server_application_iv", "client_application_key", "client_application_iv", "server_application_secret", "client_application_secret"]
    r.ob(ok, Finding("T5q", "quic.quic_key_generation:key_update:positions", f"key_update must read the previous server/client secrets at positions 4/5 and return the six values in decryptor order; reads {reads}, returns {out_names}", ku.module.line(ku.node)))
    # decryptor selection per packet type in decrypt_packet
    dp = tree.func(QS, "QuicSession.decrypt_packet")
    cfg = cfg_of(dp.node)
    r.instances += 1
    sel = {}
    for n in cfg.nodes:
        if n.kind == "stmt" and isinstance(n.ast, ast.Assign) and dotted(n.ast.targets[0]) == "decryptor":
            v = n.ast.value
            base = v
            idx = None
            if isinstance(v, ast.Subscript) and isinstance(v.value, ast.Subscript):
                idx = src(v.slice)
                base = v.value
            slot = try_fold(base.slice) if isinstance(base, ast.Subscript) and dotted(base.value) == "self.decryptors" else None
            ctx = None
            for b, lab in cfg.conditions_at(n.id):
                nd = cfg.nodes[b]
                if nd.kind == "case" and lab == "T":
                    ctx = src(nd.ast.pattern).split(".")[-1]
            if ctx is None:
                facts = cfg.facts_at(n.id)
                ctx = "short-server" if fact_holds(facts, "quic_packet.isserver", True) else "short-client" if fact_holds(facts, "quic_packet.isserver", False) else "?"
            sel[ctx] = (slot, idx)
    want = {"INITIAL": ("Initial", None), "HANDSHAKE": ("Handshake", None), "RTT_O": ("Early", None),
            "short-server": ("Application", "self.epoch_server"), "short-client": ("Application", "self.epoch_client")}
    r.ob(sel == want, Finding("T5q", f"{QS}:QuicSession.decrypt_packet:decryptor-selection", f"decryptor per packet type must be {want}; found {sel}", dp.module.line(dp.node)))
    return r


# ------------------------------------------------------------------------------------------ T9 AAD + HP
def _flatten_add(e: ast.AST) -> List[str]:
    if isinstance(e, ast.BinOp) and isinstance(e.op, ast.Add):
        return _flatten_add(e.left) + _flatten_add(e.right)
    return [(dotted(e) or src(e, 40)).split(".")[-1]]


def rule_T9_aad(tree: Tree) -> RuleResult:
    r = RuleResult("T9a", "QUIC AAD = header bytes in wire order per header form (RFC 9000 §17.2 / §17.3); AEAD call uses the reconstructed packet number and this AAD")
    f = tree.func(QS, "QuicSession.decrypt_packet")
    cfg = cfg_of(f.node)
    want = {
        "INITIAL": ["first_byte", "version", "dcid_len", "dcid", "scid_len", "scid", "token_len_bytes", "token", "packet_len_bytes", "packet_num"],
        "HANDSHAKE|RTT_O": ["first_byte", "version", "dcid_len", "dcid", "scid_len", "scid", "packet_len_bytes", "packet_num"],
        "short": ["first_byte", "dcid", "packet_num"],
    }
    got = {}
    for n in cfg.nodes:
        if n.kind == "stmt" and isinstance(n.ast, ast.Assign) and dotted(n.ast.targets[0]) == "associated_data":
            ctx = None
            for b, lab in cfg.conditions_at(n.id):
                nd = cfg.nodes[b]
                if nd.kind == "case" and lab == "T":
                    names = sorted({(dotted(x) or "").split(".")[-1] for x in ast.walk(nd.ast.pattern) if isinstance(x, ast.Attribute)} - {"QuicPacketType"})
                    ctx = "|".join(names)
            if ctx is None:
                facts = cfg.facts_at(n.id)
                if fact_holds(facts, "isinstance(quic_packet, LongQuicPacket)", False):
                    ctx = "short"
            got[ctx] = _flatten_add(n.ast.value)
    for k, w in want.items():
        r.instances += 1
        r.ob(got.get(k) == w, Finding("T9a", f"{QS}:QuicSession.decrypt_packet:aad:{k}", f"AAD of {k} packets is built from {got.get(k)}, the header in wire order is {w}", f.module.line(f.node)))
    r.sample({"aad": got})
    # AEAD call
    r.instances += 1
    calls = [c for c in body_walk(f.node) if isinstance(c, ast.Call) and dotted(c.func) == "decryptor.decrypt"]
    ok = len(calls) == 1 and [src(a) for a in calls[0].args] == ["quic_packet.payload", "packet_number", "associated_data", "quic_packet.isserver"]
    pn = [src(s.value) for s in body_walk(f.node) if isinstance(s, ast.Assign) and dotted(s.targets[0]) == "packet_number"]
    ok = ok and pn == ["self.get_full_packet_number(quic_packet)"]
    r.ob(ok, Finding("T9a", f"{QS}:QuicSession.decrypt_packet:aead-call", "the AEAD call must be decrypt(payload, reconstructed packet number, AAD, direction of the packet)", f.module.line(f.node)))
    # frames of the decrypted payload are handled in order
    r.instances += 1
    pf = [src(s.value) for s in body_walk(f.node) if isinstance(s, ast.Assign) and dotted(s.targets[0]) == "frames"]
    loops = [n for n in body_walk(f.node) if isinstance(n, ast.For) and src(n.iter) == "frames"]
    ok = pf == ["parse_frames(payload, quic_packet)"] and len(loops) == 1 and any(isinstance(c, ast.Call) and dotted(c.func) == "self.handle_frame" for c in ast.walk(loops[0]))
    r.ob(ok, Finding("T9a", f"{QS}:QuicSession.decrypt_packet:frame-handling", "frames = parse_frames(payload, quic_packet), each handed to handle_frame in order", f.module.line(f.node)))
    # nonce construction in QuicDecryptor.decrypt: left-pad the packet number to the IV length, xor with the direction's IV
    qd = tree.func("quic.quic_decryptor", "QuicDecryptor.decrypt")
    r.instances += 1
    txt = {dotted(s.targets[0]): src(s.value) for s in body_walk(qd.node) if isinstance(s, ast.Assign) and dotted(s.targets[0])}
    ok = txt.get("packet_number") == "b'\\x00' * (len(iv) - len(packet_number)) + packet_number" and txt.get("nonce") == "bytes([_a ^ _b for _a, _b in zip(packet_number, iv)])"
    rets = [src(n.value) for n in body_walk(qd.node) if isinstance(n, ast.Return)]
    ok = ok and rets == ["decryptor.decrypt(nonce, ciphertext, associated_data)"]
    r.ob(ok, Finding("T9a", "quic.quic_decryptor:QuicDecryptor.decrypt:nonce", "nonce = IV xor left-zero-padded packet number (RFC 9001 §5.3); AEAD.decrypt(nonce, ciphertext, aad)", qd.module.line(qd.node)))
    return r


def rule_T9_hp(tree: Tree) -> RuleResult:
    r = RuleResult("T9h", "header-protection removal constants (RFC 9001 §5.4): sample at pn_offset+4, 16 bytes; masks 0x0f / 0x1f; pn length = low 2 bits + 1; key phase bit 0x04; "
                          "header form bit 7; long packet type bits 0x30")
    m = tree.module(QD)
    ex = tree.func(QD, "extract_quic_packet")
    # sample offset and length
    so = [s for s in body_walk(ex.node) if isinstance(s, ast.Assign) and dotted(s.targets[0]) == "sample_offset"]
    sa = [s for s in body_walk(ex.node) if isinstance(s, ast.Assign) and dotted(s.targets[0]) == "sample"]
    r.instances += 1
    ok = len(so) == 3 and all(src(s.value) == "pn_offset + 4" for s in so) and len(sa) == 3 and all(src(s.value) in ("datagram_data[sample_offset:sample_offset + 16]",) for s in sa)
    r.ob(ok, Finding("T9h", f"{QD}:extract_quic_packet:sample", f"the header-protection sample is the 16 bytes at pn_offset + 4 for every packet type; found offsets {[src(s.value) for s in so]} samples {[src(s.value) for s in sa]}", m.line(ex.node)))
    # pn_offset forms
    r.instances += 1
    po = [(s, src(s.value) if isinstance(s, ast.Assign) else src(s.value)) for s in body_walk(ex.node) if isinstance(s, (ast.Assign, ast.AugAssign)) and dotted(s.targets[0] if isinstance(s, ast.Assign) else s.target) == "pn_offset"]
    forms = sorted(t for _, t in po)
    want = sorted(["7 + len(dcid) + len(scid)", "packet_len_len + token_len_len + token_len", "packet_len_len", "1 + len(guessed_dcid)"])
    r.ob(forms == want, Finding("T9h", f"{QD}:extract_quic_packet:pn-offset",
                                f"packet-number offset: long header 7+dcid+scid (+ token length field + token + length field for Initial; + length field for Handshake/0-RTT), short header 1+dcid; found {forms}", m.line(ex.node)))
    # the byte-wise helpers keep the length of their (shorter) operand: the unmasked packet-number field must stay pn_len bytes long — its length is the
    # encoded length that A.3 and the AAD use — so no round trip through an integer (which drops leading zero bytes)
    for hn, opcls in (("byte_xor", ast.BitXor), ("byte_and", ast.BitAnd)):
        r.instances += 1
        hf = tree.func(QD, hn)
        zips = [c for c in body_walk(hf.node) if isinstance(c, ast.Call) and dotted(c.func) == "zip" and len(c.args) == 2]
        ops = [b for b in body_walk(hf.node) if isinstance(b, ast.BinOp) and isinstance(b.op, opcls)]
        conv = [c for c in body_walk(hf.node) if isinstance(c, ast.Call) and (dotted(c.func) or "").split(".")[-1] in ("from_bytes", "to_bytes", "bit_length")]
        r.ob(len(zips) == 1 and len(ops) == 1 and not conv, Finding("T9h", f"{QD}:{hn}:bytewise",
                                                                  f"{hn} must combine its operands byte by byte over zip(a, b) (result as long as the shorter operand); found zip={len(zips)}, "
                                                                  f"operators={len(ops)}, integer conversions={len(conv)} — an integer round trip shortens a packet-number field with leading zero bytes", m.line(hf.node)))
    # remove_header_protection
    rh = tree.func(QD, "remove_header_protection")
    cfg = cfg_of(rh.node)
    r.instances += 1
    masks = {}
    for n in cfg.nodes:
        if n.kind == "stmt" and isinstance(n.ast, ast.Assign) and dotted(n.ast.targets[0]) == "first_packet_byte":
            hexes = [try_fold(c) for c in ast.walk(n.ast.value) if (isinstance(c, ast.Call) and (dotted(c.func) or "").endswith("fromhex")) or (isinstance(c, ast.Constant) and isinstance(c.value, bytes))]
            form = "LONG" if fact_holds(cfg.facts_at(n.id), "header_type == QuicHeaderType.LONG", True) else "SHORT" if fact_holds(cfg.facts_at(n.id), "header_type == QuicHeaderType.LONG", False) else "?"
            masks[form] = hexes
            uses_mask0 = "mask[0]" in src(n.ast.value)
            if not uses_mask0:
                masks[form] = "no mask[0]"
    r.ob(masks == {"LONG": [b"\x0f"], "SHORT": [b"\x1f"]}, Finding("T9h", f"{QD}:remove_header_protection:first-byte-mask", f"first byte is unmasked with mask[0] & 0x0f (long) / 0x1f (short); found {masks}", m.line(rh.node)))
    r.instances += 1
    defs = {dotted(s.targets[0]): src(s.value) for s in body_walk(rh.node) if isinstance(s, ast.Assign) and dotted(s.targets[0])}
    ok = defs.get("pn_len") == "decode_variable_length_int(byte_and(bytes([int.from_bytes(first_packet_byte, 'big')]), b'\\x03')) + 1" \
        and defs.get("packet_number_field") == "byte_xor(datagram_data[pn_offset:pn_offset + pn_len], mask[1:pn_len + 1])"
    rets = [src(n.value) for n in body_walk(rh.node) if isinstance(n, ast.Return)]
    ok = ok and rets == ["(first_packet_byte, packet_number_field, pn_len)"]
    r.ob(ok, Finding("T9h", f"{QD}:remove_header_protection:pn-field", "pn length = (unmasked first byte & 0x03) + 1; pn field = datagram[pn_offset:pn_offset+pn_len] xor mask[1:pn_len+1]; returns (first byte, pn field, pn length)", m.line(rh.node)))
    # mask selection: ChaCha20 mask only for suite 0x1303
    r.instances += 1
    sel = {}
    for n in cfg.nodes:
        if n.kind == "stmt" and isinstance(n.ast, ast.Assign) and dotted(n.ast.targets[0]) == "mask":
            fn = dotted(n.ast.value.func) if isinstance(n.ast.value, ast.Call) else None
            sel[fn] = fact_holds(cfg.facts_at(n.id), "ciphersuite == b'\\x13\\x03'", True)
    r.ob(sel == {"make_chacha_hp_mask": True, "make_hp_mask": False}, Finding("T9h", f"{QD}:remove_header_protection:mask-selection", f"ChaCha20 header protection only for TLS_CHACHA20_POLY1305_SHA256, AES-ECB otherwise; found {sel}", m.line(rh.node)))
    # Initial packets: AES header protection whatever the negotiated suite (RFC 9001 §5.2)
    r.instances += 1
    cfge = cfg_of(ex.node)
    hp_suite = {}
    for c in body_walk(ex.node):
        if isinstance(c, ast.Call) and dotted(c.func) == "remove_header_protection":
            arg = next((k.value for k in c.keywords if k.arg == "ciphersuite"), None)
            ctx = "?"
            for b, lab in cfge.conditions_at(cfge.node_of(c)):
                nd = cfge.nodes[b]
                if nd.kind == "case" and lab == "T":
                    t = src(nd.ast.pattern)
                    ctx = "INITIAL" if "INITIAL" in t else "HANDSHAKE|RTT_O" if "HANDSHAKE" in t else "SHORT" if "SHORT" in t else ctx
            hp_suite[ctx] = src(arg) if arg is not None else None
    r.ob(hp_suite == {"INITIAL": "None", "HANDSHAKE|RTT_O": "ciphersuite", "SHORT": "ciphersuite"},
         Finding("T9h", f"{QD}:extract_quic_packet:initial-hp-suite",
                 f"header protection of Initial packets is always AES-128-ECB: the Initial arm must not hand the negotiated suite to remove_header_protection; found {hp_suite}", m.line(ex.node)))
    # key phase, header form, packet type bits
    r.instances += 1
    kp = [src(s.value) for s in body_walk(ex.node) if isinstance(s, ast.Assign) and dotted(s.targets[0]) == "key_phase"]
    ht = tree.func(QD, "get_header_type")
    pt = tree.func(QD, "get_packet_type")
    httest = next((src(n.test) for n in body_walk(ht.node) if isinstance(n, ast.If)), None)
    ptdef = [src(s.value) for s in body_walk(pt.node) if isinstance(s, ast.Assign) and dotted(s.targets[0]) == "packet_type"]
    ptmap = {}
    for n in body_walk(pt.node):
        if isinstance(n, ast.Match):
            for c in n.cases:
                if isinstance(c.pattern, ast.MatchValue):
                    ptmap[try_fold(c.pattern.value)] = src(c.body[0].value) if isinstance(c.body[0], ast.Return) else None
    ok = kp == ["decrypted_header[0][0] >> 2 & 1"] and httest == "datagram_data[0] >> 7 & 1 == 1" and ptdef == ["(datagram_data[0] & int('00110000', 2)) >> 4"] \
        and ptmap == {0: "QuicPacketType.INITIAL", 1: "QuicPacketType.RTT_O", 2: "QuicPacketType.HANDSHAKE", 3: "QuicPacketType.RETRY"}
    r.ob(ok, Finding("T9h", f"{QD}:header-bits", f"key phase = bit 2 of the unmasked first byte; header form = bit 7; long packet type = bits 0x30 (0 Initial, 1 0-RTT, 2 Handshake, 3 Retry); found {kp} / {httest} / {ptdef} / {ptmap}", m.relpath))
    # hp masks
    r.instances += 1
    mk = tree.func("quic.quic_key_generation", "make_hp_mask")
    mc = tree.func("quic.quic_key_generation", "make_chacha_hp_mask")
    t1 = [src(s.value) for s in body_walk(mk.node) if isinstance(s, ast.Assign)]
    t2 = [src(s.value) for s in body_walk(mc.node) if isinstance(s, ast.Assign)]
    ok = t1 == ["Cipher(AES(hp_key), ECB()).encryptor()", "encryptor.update(sample) + encryptor.finalize()"] and \
        t2 == ["Cipher(ChaCha20(hp_key, sample), mode=None).encryptor()", "encryptor.update(b'\\x00' * 5) + encryptor.finalize()"]
    r.ob(ok, Finding("T9h", "quic.quic_key_generation:hp-masks", "mask = AES-ECB(hp_key, sample) resp. ChaCha20(hp_key, counter‖nonce = sample) over 5 zero bytes", mk.module.relpath))
    # short header: payload length and datagram consumption
    r.instances += 1
    tl = [src(s.value, 2000) for s in body_walk(ex.node) if isinstance(s, ast.Assign) and dotted(s.targets[0]) == "total_packet_len"]
    want_tl = sorted(["1 + 4 + 1 + int.from_bytes(dcid_len, 'big') + 1 + int.from_bytes(scid_len, 'big') + token_len_len + token_len + packet_len_len + decrypted_header[-1] + payload_len",
                      "1 + 4 + 1 + int.from_bytes(dcid_len, 'big') + 1 + int.from_bytes(scid_len, 'big') + packet_len_len + decrypted_header[-1] + payload_len",
                      "1 + 4 + 1 + int.from_bytes(dcid_len, 'big') + 1 + int.from_bytes(scid_len, 'big') + len(retry_token) + len(retry_integ_tag)",
                      "1 + len(guessed_dcid) + decrypted_header[-1] + len(payload)"])
    cons = [src(s.value) for s in body_walk(ex.node) if isinstance(s, ast.Assign) and dotted(s.targets[0]) == "in_packet.tls_data" and not isinstance(s.value, ast.Constant)]
    r.ob(sorted(tl) == want_tl and cons == ["datagram_data[total_packet_len:]"], Finding("T9h", f"{QD}:extract_quic_packet:consumed-length",
                                                                                        f"each packet consumes exactly its header + packet number + payload bytes of the datagram (coalesced packets follow); found {tl} / {cons}", m.line(ex.node)))
    return r


# ------------------------------------------------------------------------------------------ epoch rule
def rule_epoch(tree: Tree) -> RuleResult:
    r = RuleResult("EPO", "1-RTT key generations: a key-phase flip of a direction advances that direction's epoch; a new generation is derived from the last one; packets use their direction's epoch")
    f = tree.func(QS, "QuicSession.check_key_epoch")
    cfg = cfg_of(f.node)
    for d, truth in (("server", True), ("client", False)):
        r.instances += 1
        got = {}
        for n in cfg.nodes:
            if n.kind == "stmt" and isinstance(n.ast, (ast.Assign, ast.AugAssign)):
                facts = cfg.facts_at(n.id)
                if fact_holds(facts, "isserver", truth) and fact_holds(facts, f"self.last_key_phase_{d} != key_phase_bit", True):
                    tg = dotted(n.ast.targets[0] if isinstance(n.ast, ast.Assign) else n.ast.target)
                    got[tg] = ("+=" if isinstance(n.ast, ast.AugAssign) else "=") + src(n.ast.value)
        ok = got == {f"self.epoch_{d}": "+=1", f"self.last_key_phase_{d}": "=key_phase_bit"}
        r.ob(ok, Finding("EPO", f"{QS}:QuicSession.check_key_epoch:{d}", f"a flip of the {d} key-phase bit must advance epoch_{d} by one and remember the bit; found {got}", f.module.line(f.node)))
    r.instances += 1
    ku = [c for c in body_walk(f.node) if isinstance(c, ast.Call) and dotted(c.func) == "key_update"]
    ok = len(ku) == 1 and [src(a) for a in ku[0].args] == ["self.decryptors['Application'][-1]", "self.hash_fun", "self.key_length", "self.cipher", "self.quic_version"]
    if ok:
        nid = cfg.node_of(ku[0])
        facts = cfg.facts_at(nid)
        ok = any("self.epoch_client == len(self.decryptors['Application'])" in src(e) and "self.epoch_server == len(self.decryptors['Application'])" in src(e) and t for e, t in facts)
    app = [c for c in body_walk(f.node) if isinstance(c, ast.Call) and dotted(c.func) == "self.decryptors['Application'].append" or (isinstance(c, ast.Call) and src(c.func) == "self.decryptors['Application'].append")]
    ok = ok and len(app) == 1
    r.ob(ok, Finding("EPO", f"{QS}:QuicSession.check_key_epoch:next-generation", "when either direction reaches a generation not yet derived, key_update is applied to the *last* generation and the result appended", f.module.line(f.node)))
    dp = tree.func(QS, "QuicSession.decrypt_packet")
    r.instances += 1
    calls = [c for c in body_walk(dp.node) if isinstance(c, ast.Call) and dotted(c.func) == "self.check_key_epoch"]
    ok = len(calls) == 1 and [src(a) for a in calls[0].args] == ["quic_packet.key_phase", "quic_packet.isserver"]
    if ok:
        # … *before*: every read of self.epoch_<d> in decrypt_packet (the index of the 1-RTT decryptor) is dominated by the check
        cfgd = cfg_of(dp.node)
        cn = cfgd.node_of(calls[0])
        facts_c = [(src(e), t) for e, t in cfgd.facts_at(cn)]
        ok = any(s == "quic_packet.packet_type == QuicPacketType.RTT_1" and t for s, t in facts_c) and len(facts_c) <= 2
        for n in body_walk(dp.node):
            if isinstance(n, ast.Attribute) and n.attr in ("epoch_server", "epoch_client") and isinstance(n.ctx, ast.Load):
                try:
                    rn = cfgd.node_of(n)
                except Exception:
                    continue
                # reads on the long-header path are not preceded by the check (no key phase there); on the short-header path the check must come first
                if not cfgd.paths_exist(cn, rn) and any(s.startswith("isinstance(quic_packet, ShortQuicPacket)") and t for s, t in [(src(e), t) for e, t in cfgd.facts_at(rn)]):
                    ok = False
    r.ob(ok, Finding("EPO", f"{QS}:QuicSession.decrypt_packet:epoch-check", "every 1-RTT packet updates the epoch with its own key phase and direction before the decryptor is chosen", dp.module.line(dp.node)))
    return r


# ------------------------------------------------------------------------------------------ D7b
def rule_D7b(tree: Tree) -> RuleResult:
    r = RuleResult("D7b", "a datagram is given to a QUIC session by connection ID only if the ID is non-empty, otherwise by the full 4-tuple")
    f = tree.func("main", "handle_quic_packet")
    cfg = cfg_of(f.node)
    calls = [c for c in body_walk(f.node) if isinstance(c, ast.Call) and dotted(c.func) == "session.handle_packet"]
    if len(calls) < 3:
        raise AnchorMissing("handle_quic_packet: dispatch calls not found")
    kinds = set()
    for c in calls:
        r.instances += 1
        facts = cfg.facts_at(cfg.node_of(c))
        txt = [(src(e), t) for e, t in facts]
        by_tuple = any(s.startswith("session.matches_session_dgram(") and t for s, t in txt)
        cidvar = dotted(c.args[1]) if len(c.args) > 1 else None
        nonempty = any((s == cidvar and t) or (s in (f"len({cidvar}) > 0", f"len({cidvar}) != 0", f"{cidvar} != b''") and t) or (s in (f"len({cidvar}) == 0", f"{cidvar} == b''") and not t) for s, t in txt)
        by_cid = any((cidvar and cidvar in s and (" in session." in s or "==" in s) and t) for s, t in txt)
        if by_tuple:
            kinds.add("tuple")
            four = any(s == "session.matches_session_dgram(packet.ip_src, packet.ip_dst, packet.sport, packet.dport)" and t for s, t in txt)
            r.ob(four, Finding("D7b", "main:handle_quic_packet:tuple-args", "the address fallback must compare (ip_src, ip_dst, sport, dport) of the packet", f.module.line(c)))
            continue
        kinds.add("cid")
        r.ob(by_cid and nonempty, Finding("D7b", "main:handle_quic_packet:nonempty-cid",
                                          f"`{src(c, 60)}` is reached under {[s for s, t in txt if t][:4]}: a connection-ID match must require a non-empty ID — an empty ID is a prefix of every "
                                          f"short header and is shared by all zero-length-CID connections, so one session swallows other connections' datagrams", f.module.line(c)))
    # dispatch inventory: every hand-over of the datagram in the demultiplexer is one of the matched ones above or goes to the session created for it
    r.instances += 1
    stray = []
    for c in body_walk(f.node):
        if isinstance(c, ast.Call) and isinstance(c.func, ast.Attribute) and c.func.attr in ("handle_packet", "handle_quic_packet", "decrypt_packet") and c not in calls:
            recv = dotted(c.func.value)
            created = [a for a in body_walk(f.node) if isinstance(a, ast.Assign) and dotted(a.targets[0]) == recv and isinstance(a.value, ast.Call) and dotted(a.value.func) == "QuicSession"]
            if not (recv and created and cfg.dominates(cfg.node_of(created[0]), cfg.node_of(c))):
                stray.append(src(c, 70))
    r.ob(not stray, Finding("D7b", "main:handle_quic_packet:unmatched-dispatch",
                            f"`{stray[0] if stray else ''}` hands the datagram to a session that neither matched it (connection ID / 4-tuple) nor was created for it", f.module.line(f.node)))
    r.instances += 1
    r.ob(kinds == {"cid", "tuple"}, Finding("D7b", "main:handle_quic_packet:match-kinds", "datagrams are matched by connection ID first and by 4-tuple otherwise", f.module.line(f.node)))
    # new sessions only for long headers
    r.instances += 1
    ns = [c for c in body_walk(f.node) if isinstance(c, ast.Call) and dotted(c.func) == "QuicSession"]
    ok = len(ns) == 1 and fact_holds(cfg.facts_at(cfg.node_of(ns[0])), "header_type != QuicHeaderType.SHORT", True)
    r.ob(ok, Finding("D7b", "main:handle_quic_packet:new-session", "a new QUIC session is created only for a long-header packet that matched no session", f.module.line(f.node)))
    # direction by connection ID requires a non-empty ID too
    pi = tree.func(QS, "QuicSession.packet_isserver")
    cfgp = cfg_of(pi.node)
    for n in cfgp.nodes:
        if n.kind == "stmt" and isinstance(n.ast, ast.Return):
            facts = [(src(e), t) for e, t in cfgp.facts_at(n.id)]
            cid_based = [s for s, t in facts if t and " in self." in s]
            if cid_based:
                r.instances += 1
                ne = any(s == pi.params[2] and t for s, t in facts)
                want = False if "server_cids" in cid_based[0] else True
                r.ob(ne and try_fold(n.ast.value) is want, Finding("D7b", f"{QS}:QuicSession.packet_isserver:cid-direction",
                                                                   f"direction from a connection ID: dcid ∈ server_cids ⇒ sent by the client, dcid ∈ client_cids ⇒ sent by the server, only for non-empty IDs; found `return {src(n.ast.value)}` under {cid_based}", pi.module.line(n.ast)))
    # CID bookkeeping from Initial packets and NEW_CONNECTION_ID
    hq = tree.func(QS, "QuicSession.handle_quic_packet")
    r.instances += 1
    ok = False
    for n in body_walk(hq.node):
        if isinstance(n, ast.If) and src(n.test) == "quic_packet.isserver":
            th = sorted(src(s.value) for s in n.body if isinstance(s, ast.Expr))
            el = sorted(src(s.value) for s in n.orelse if isinstance(s, ast.Expr))
            ok = th == ["self.client_cids.add(quic_packet.dcid)", "self.server_cids.add(quic_packet.scid)"] and el == ["self.client_cids.add(quic_packet.scid)", "self.server_cids.add(quic_packet.dcid)"]
    r.ob(ok, Finding("D7b", f"{QS}:QuicSession.handle_quic_packet:cid-learning", "an Initial packet teaches sender-CID := its SCID and receiver-CID := its DCID", hq.module.line(hq.node)))
    # … and only an Initial packet does (plus NEW_CONNECTION_ID frames, below): Retry / Version Negotiation packets are dissected without any key, so anybody's
    # datagram of that shape would register connection IDs that later capture another connection's short-header packets
    r.instances += 1
    adds = [c for c in body_walk(hq.node) if isinstance(c, ast.Call) and isinstance(c.func, ast.Attribute) and c.func.attr == "add" and (dotted(c.func.value) or "").endswith("_cids")]
    cfgq = cfg_of(hq.node)
    okc = bool(adds)
    for c in adds:
        facts = [(src(e), t) for e, t in cfgq.facts_at(cfgq.node_of(c))]
        if not any(s2 == "quic_packet.packet_type == QuicPacketType.INITIAL" and t for s2, t in facts):
            okc = False
    r.ob(okc, Finding("D7b", f"{QS}:QuicSession.handle_quic_packet:cid-learning-initial-only",
                      "connection IDs may be learned from packet headers only under `quic_packet.packet_type == QuicPacketType.INITIAL`", hq.module.line(hq.node)))
    hf = tree.func(QS, "QuicSession.handle_frame")
    r.instances += 1
    ok = False
    for n in body_walk(hf.node):
        if isinstance(n, ast.If) and src(n.test) == "isserver":
            th = [src(s.value) for s in n.body if isinstance(s, ast.Expr)]
            el = [src(s.value) for s in n.orelse if isinstance(s, ast.Expr)]
            ok = th == ["self.server_cids.add(frame.connection_id)"] and el == ["self.client_cids.add(frame.connection_id)"]
    r.ob(ok, Finding("D7b", f"{QS}:QuicSession.handle_frame:new-connection-id", "NEW_CONNECTION_ID issued by the server adds a server CID, by the client a client CID", hf.module.line(hf.node)))
    return r


# ------------------------------------------------------------------------------------------ A3f / T8s
def rule_frame_attrs(tree: Tree) -> RuleResult:
    r = RuleResult("A3f", "frame attributes read by the QUIC output builder / session exist in the frame class selected by the tested type; STREAM / CRYPTO / VN type constants agree")
    qf = tree.module("quic.quic_frame")
    b = tree.func(QOB, "QUICOutputbuilder.build")
    cfg = cfg_of(b.node)
    # class by frame_type constant
    by_type: Dict[int, Class] = {}
    reg = qf.assigns.get("frame_type")
    if not isinstance(reg, ast.Dict):
        raise AnchorMissing("frame_type registry not found")
    for k, v in zip(reg.keys, reg.values):
        ks = try_fold(k)
        c = tree.resolve_expr(qf, v)
        if isinstance(ks, tuple) and isinstance(c, Class):
            for t in ks:
                by_type[t] = c
    for c in qf.classes.values():
        for st in c.node.body:
            if isinstance(st, ast.Assign) and dotted(st.targets[0]) == "frame_type" and isinstance(try_fold(st.value), int):
                by_type.setdefault(try_fold(st.value), c)

    def attrs_of(c: Class) -> Set[str]:
        out = set()
        for k in c.mro():
            for st in k.node.body:
                if isinstance(st, ast.Assign):
                    out |= {dotted(t) for t in st.targets if dotted(t)}
            for meth in k.methods.values():
                for n in body_walk(meth.node):
                    if isinstance(n, (ast.Assign, ast.AnnAssign)):
                        for t in (n.targets if isinstance(n, ast.Assign) else [n.target]):
                            d = dotted(t)
                            if d and d.startswith("self."):
                                out.add(d[5:])
        return out
    for n in cfg.nodes:
        if n.kind != "stmt" or not isinstance(n.ast, ast.Assign) or dotted(n.ast.targets[0]) != "data":
            continue
        v = n.ast.value
        if not (isinstance(v, ast.Attribute) and dotted(v.value) == "frame"):
            continue
        r.instances += 1
        types: Set[int] = set()
        for e, t in cfg.facts_at(n.id):
            if isinstance(e, ast.Compare) and dotted(e.left) == "frame.frame_type" and t:
                c0 = try_fold(e.comparators[0])
                if isinstance(e.ops[0], ast.Eq) and isinstance(c0, int):
                    types.add(c0)
                elif isinstance(e.ops[0], ast.In) and isinstance(c0, (list, tuple)):
                    types |= set(c0)
        missing = [f"0x{t:02x}→{by_type[t].name if t in by_type else 'no class'}" for t in sorted(types) if t not in by_type or v.attr not in attrs_of(by_type[t])]
        r.sample({"read": src(v), "types": sorted(types), "missing": missing})
        r.ob(bool(types) and not missing, Finding("A3f", f"{QOB}:QUICOutputbuilder.build:frame-attr:{v.attr}",
                                                  f"`data = {src(v)}` is executed for frame types {sorted(hex(t) for t in types)}, but {missing} has no attribute `{v.attr}` → AttributeError, "
                                                  f"the session's whole export is lost", b.module.line(n.ast)))
    # STREAM set agreement
    r.instances += 1
    stream_cls = tree.cls("quic.quic_frame", "StreamFrame")
    reg_stream = sorted(t for t, c in by_type.items() if c is stream_cls)
    builder_stream = None
    for n in body_walk(b.node):
        if isinstance(n, ast.Compare) and dotted(n.left) == "frame.frame_type" and isinstance(n.ops[0], ast.In):
            builder_stream = sorted(try_fold(n.comparators[0]) or [])
    hf = tree.func(QS, "QuicSession.handle_frame")
    cases = {}
    for n in body_walk(hf.node):
        if isinstance(n, ast.Match):
            for c in n.cases:
                if isinstance(c.pattern, ast.MatchClass):
                    cases[dotted(c.pattern.cls)] = [src(s, 60) for s in c.body if not (isinstance(s, ast.Assign) and "cast(" in src(s))]
    ok = reg_stream == list(range(8, 16)) and builder_stream == reg_stream and cases.get("StreamFrame") == ["self.output_buffer.append(frame)"]
    r.ob(ok, Finding("A3f", "quic:stream-type-set", f"STREAM frames are types 0x08–0x0f in the registry ({reg_stream}) and in the builder ({builder_stream}); the session appends every StreamFrame to the output buffer ({cases.get('StreamFrame')})", qf.relpath))
    r.instances += 1
    ok = cases.get("CryptoFrame") == ["self.handle_crypto_frame(frame)"] and cases.get("PseudoVersionNegotiationFrame") == ["self.output_buffer.append(frame)"]
    hc = tree.func(QS, "QuicSession.handle_crypto_frame")
    ok = ok and any(isinstance(c, ast.Call) and src(c) == "self.output_buffer.append(frame)" for c in body_walk(hc.node))
    r.ob(ok, Finding("A3f", f"{QS}:QuicSession.handle_frame:crypto-vn", "CRYPTO frames feed the TLS parser and are kept for metadata export; version-negotiation pseudo frames are kept", hf.module.line(hf.node)))
    # what the version-negotiation pseudo frame carries reaches `bytearray.extend` in the builder (only with -a): it must be bytes — a slice of the datagram —
    # or empty; a non-empty slice of struct.unpack's result is a tuple of bytes objects and raises TypeError there, which drops the whole connection
    r.instances += 1
    dis = tree.func("quic.quic_dissector", "extract_quic_packet")
    kws = [k.value for c in body_walk(dis.node) if isinstance(c, ast.Call) and dotted(c.func) == "LongQuicPacket" for k in c.keywords if k.arg == "supported_version"]
    okv = len(kws) == 1
    if okv:
        e = kws[0]
        base = dotted(e.value) if isinstance(e, ast.Subscript) else None
        if base in ("datagram_data", f"{dis.params[0]}.tls_data"):
            okv = isinstance(e.slice, ast.Slice)
        elif base == "header_parts" and isinstance(e.slice, ast.Slice):
            lo, hi = try_fold(e.slice.lower) if e.slice.lower is not None else None, try_fold(e.slice.upper) if e.slice.upper is not None else None
            okv = isinstance(lo, int) and isinstance(hi, int) and lo < 0 and hi < 0 and hi <= lo  # provably empty
        else:
            okv = False
    r.ob(okv, Finding("A3f", "quic.quic_dissector:extract_quic_packet:vn-payload-type",
                      f"the Version Negotiation payload `{src(kws[0], 60) if kws else None}` must be a bytes slice of the datagram (or empty): a tuple of struct fields makes "
                      f"QUICOutputbuilder.build raise TypeError with -a and the connection disappears from the export", dis.module.line(dis.node)))
    # attributes of the carrying packet that the builder reads exist for every packet kind (a frame's packet may be a Version Negotiation or Retry packet)
    read = sorted({n.attr for n in body_walk(b.node) if isinstance(n, ast.Attribute) and isinstance(n.ctx, ast.Load) and (dotted(n.value) or "").endswith("src_packet")})
    if not read:
        raise AnchorMissing("QUICOutputbuilder.build reads no attribute of frame.src_packet")
    qp = tree.module("quic.quic_packet")
    for cn in ("LongQuicPacket", "ShortQuicPacket"):
        c = tree.cls("quic.quic_packet", cn)
        for attr in read:
            r.instances += 1
            ok = False
            for k in c.mro():
                init = k.methods.get("__init__")
                if init is None:
                    continue
                cf = cfg_of(init.node)
                for n in cf.nodes:
                    if n.kind == "stmt" and isinstance(n.ast, (ast.Assign, ast.AnnAssign)) and any(dotted(t) == f"self.{attr}" for t in (n.ast.targets if isinstance(n.ast, ast.Assign) else [n.ast.target])):
                        if cf.dominates(n.id, cf.exit):
                            ok = True
            r.ob(ok, Finding("A3f", f"quic.quic_packet:{cn}:attr-on-every-path:{attr}",
                             f"QUICOutputbuilder.build reads `frame.src_packet.{attr}`, but {cn}.__init__ sets it only for some packet types: a frame carried by another kind of "
                             f"packet (Version Negotiation, Retry) raises AttributeError in the builder and the whole connection is missing from the export", qp.relpath))
    return r


def rule_itermut(tree: Tree) -> RuleResult:
    r = RuleResult("ITER", "no container is structurally modified inside a `for` loop that iterates over it (removal during iteration skips the element after each removed one)")
    from ..callgraph import CallGraph
    cg = CallGraph.of(tree)
    run = tree.func("main", "run")
    reach = cg.reachable([run])
    mut = {"remove", "pop", "insert", "append", "extend", "clear", "sort", "reverse", "add", "discard", "update", "popitem"}
    for f in sorted(reach, key=lambda x: x.key):
        for n in body_walk(f.node):
            if not isinstance(n, ast.For):
                continue
            it = n.iter
            # iteration over a copy is fine: list(x), x[:], sorted(x), tuple(x), x.copy(), enumerate(list(x))
            if isinstance(it, ast.Call) and dotted(it.func) in ("list", "tuple", "sorted", "set", "frozenset", "reversed"):
                continue
            if isinstance(it, ast.Call) and isinstance(it.func, ast.Attribute) and it.func.attr in ("copy", "items", "keys", "values"):
                base = src(it.func.value, 200) if it.func.attr != "copy" else None
            else:
                base = src(it, 200)
            if base is None or isinstance(it, (ast.Constant, ast.List, ast.Tuple)):
                continue
            if isinstance(it, ast.Subscript) and isinstance(it.slice, ast.Slice):
                continue
            hits = []
            # other names of the same object: `a = <base>` / `a, b = <base>, …` anywhere in the function (an alias is not a copy)
            aliases = {base}
            for _ in range(3):
                for a_ in body_walk(f.node):
                    if isinstance(a_, ast.Assign) and len(a_.targets) == 1:
                        pairs = []
                        if isinstance(a_.targets[0], ast.Name):
                            pairs = [(a_.targets[0], a_.value)]
                        elif isinstance(a_.targets[0], ast.Tuple) and isinstance(a_.value, ast.Tuple) and len(a_.targets[0].elts) == len(a_.value.elts):
                            pairs = [(t_, v_) for t_, v_ in zip(a_.targets[0].elts, a_.value.elts) if isinstance(t_, ast.Name)]
                        for t_, v_ in pairs:
                            if src(v_, 200) in aliases:
                                aliases.add(t_.id)
            for st in n.body:
                for c in ast.walk(st):
                    if isinstance(c, ast.Call) and isinstance(c.func, ast.Attribute) and c.func.attr in mut and src(c.func.value, 200) in aliases:
                        # a mutation immediately followed by leaving the loop is harmless
                        hits.append(c)
                    if isinstance(c, ast.Delete) and any(isinstance(t, ast.Subscript) and src(t.value, 200) == base for t in c.targets):
                        hits.append(c)
            if not hits and not any(isinstance(x, ast.Attribute) for x in ast.walk(it)):
                continue
            r.instances += 1
            harmless = True
            for h in hits:
                stmt = h
                from ..core import parent
                while not isinstance(stmt, ast.stmt):
                    stmt = parent(stmt)
                blk = None
                p = parent(stmt)
                for fld in ("body", "orelse"):
                    lst = getattr(p, fld, None)
                    if isinstance(lst, list) and stmt in lst:
                        blk = lst
                nxt = blk[blk.index(stmt) + 1] if blk is not None and blk.index(stmt) + 1 < len(blk) else None
                if not isinstance(nxt, (ast.Break, ast.Return)):
                    harmless = False
            r.ob(not hits or harmless, Finding("ITER", f"{f.key}:mutates-iterated:{base[:60]}",
                                               f"{f.qualname}: `for … in {base[:80]}` {src(hits[0], 60) if hits else ''} modifies the list being iterated: the element after each removed one is skipped "
                                               f"(e.g. three buffered CRYPTO frames arriving in reverse order are never reassembled)", f.module.line(n)))
    return r


def rule_crypto_reassembly(tree: Tree) -> RuleResult:
    r = RuleResult("CRY", "CRYPTO reassembly per direction and packet-number space: buffer the frame, sort by offset, consume every frame whose offset equals the expected offset "
                          "(append data, advance by its length, drop it), then parse the contiguous bytes")
    f = tree.func("quic.quic_tls_parser", "QuicTlsSession.update_session")
    m = f.module
    cfg = cfg_of(f.node)
    for d, truth in (("server", True), ("client", False)):
        r.instances += 1
        buf = f"self.{d}_frame_buffer[frame.src_packet.packet_type]"
        nodes = {}
        for n in cfg.nodes:
            if not fact_holds(cfg.facts_at(n.id), "frame.src_packet.isserver", truth):
                continue
            t = src(n.ast, 300) if n.ast is not None else ""
            if n.kind == "stmt" and t == f"{buf}.append(frame)":
                nodes["append"] = n
            elif n.kind == "stmt" and t == f"{buf}.sort(key=lambda x: x.offset)":
                nodes["sort"] = n
            elif n.kind == "for" and buf in src(n.ast.iter, 300):
                nodes["scan"] = n
            elif n.kind == "stmt" and t == f"self.handle_buffer({truth})":
                nodes["parse"] = n
            elif n.kind == "if" and src(n.ast.test, 300) == f"crypto_frame.offset == self.{d}_offset[frame.src_packet.packet_type]":
                nodes["match"] = n
        ok = all(k in nodes for k in ("append", "sort", "scan", "parse", "match"))
        if ok:
            ok = cfg.dominates(nodes["append"].id, nodes["sort"].id) and cfg.dominates(nodes["sort"].id, nodes["scan"].id) and cfg.dominates(nodes["scan"].id, nodes["parse"].id) \
                and nodes["parse"].id not in cfg.loop_body_nodes(nodes["scan"].id)
            body = [src(s2, 300) for s2 in nodes["match"].ast.body]
            want = [f"self.{d}_buffer[frame.src_packet.packet_type] += crypto_frame.crypto", f"self.{d}_offset[frame.src_packet.packet_type] += crypto_frame.crypto_length",
                    f"{buf}.remove(crypto_frame)"]
            ok = ok and body == want and not nodes["match"].ast.orelse
        r.ob(ok, Finding("CRY", f"quic.quic_tls_parser:QuicTlsSession.update_session:{d}-reassembly",
                         f"update_session ({d} arm): the new CRYPTO frame must be buffered *before* the buffer is sorted by offset and scanned; a frame is consumed iff its offset equals the "
                         f"expected offset (data appended, offset advanced by its length, frame removed); then handle_buffer({truth}) — out-of-order ClientHello fragments are otherwise never completed",
                         m.line(f.node)))
    # handle_buffer: message framing type(1) length(3)
    hb = tree.func("quic.quic_tls_parser", "QuicTlsSession.handle_buffer")
    r.instances += 1
    txt = src(hb.node, 4000)
    ok = "record_len = int.from_bytes(buffer[1:4], 'big')" in txt and "if len(buffer) < 4 + record_len:" in txt and "self.handle_record(buffer[0], buffer[:4 + record_len])" in txt \
        and "buffer = buffer[4 + record_len:]" in txt and "if len(buffer) <= 4:" in txt
    r.ob(ok, Finding("CRY", "quic.quic_tls_parser:QuicTlsSession.handle_buffer:framing", "handshake messages are framed as type(1) length(3) body; a message is handed on only when complete and then removed from the buffer", hb.module.line(hb.node)))
    return r


def rule_quic_handshake_state(tree: Tree) -> RuleResult:
    r = RuleResult("QHS", "QUIC handshake state: TLS decryptors are (re)built only when new handshake data was parsed and the flag is cleared afterwards; a Retry discards "
                          "every derived key (the next Initial is protected with keys of the Retry's source connection ID)")
    f = tree.func(QS, "QuicSession.handle_crypto_frame")
    cfg = cfg_of(f.node)
    r.instances += 1
    calls = [c for c in body_walk(f.node) if isinstance(c, ast.Call) and dotted(c.func) == "self.set_tls_decryptors"]
    resets = [n for n in cfg.nodes if n.kind == "stmt" and isinstance(n.ast, ast.Assign) and dotted(n.ast.targets[0]) == "self.tls_session.new_data" and try_fold(n.ast.value) is False]
    ok = len(calls) == 1 and len(resets) == 1
    if ok:
        nid = cfg.node_of(calls[0])
        facts = cfg.facts_at(nid)
        ok = fact_holds(facts, "self.tls_session.new_data", True) and fact_holds(cfg.facts_at(resets[0].id), "self.tls_session.new_data", True)
        # the reset is reached on every path that saw new data (it is not nested under the key conditions)
        extra = [src(e, 60) for e, t in cfg.facts_at(resets[0].id) if src(e, 60) != "self.tls_session.new_data"]
        ok = ok and not extra
        ok = ok and [src(a) for a in calls[0].args] == ["self.tls_session.client_random", "self.tls_session.ciphersuite"]
    r.ob(ok, Finding("QHS", f"{QS}:QuicSession.handle_crypto_frame:new-data-flag",
                     "set_tls_decryptors(client_random, ciphersuite) may run only when the TLS parser reports new data, and the flag must be cleared on that path: otherwise every later "
                     "CRYPTO frame re-creates the 1-RTT decryptor list and drops the generations derived by key updates", f.module.line(f.node)))
    hq = tree.func(QS, "QuicSession.handle_quic_packet")
    cfg2 = cfg_of(hq.node)
    r.instances += 1
    got = {}
    for n in cfg2.nodes:
        if n.kind == "stmt" and isinstance(n.ast, (ast.Assign, ast.AnnAssign)) and fact_holds(cfg2.facts_at(n.id), "quic_packet.packet_type == QuicPacketType.RETRY", True):
            tg = dotted(n.ast.targets[0] if isinstance(n.ast, ast.Assign) else n.ast.target)
            got[tg] = src(n.ast.value, 60)
    want = {"self.tls_session": "QuicTlsSession()", "self.decryptors": "{}", "self.keys": "{}"}
    bad = {k: got.get(k) for k, v in want.items() if got.get(k) != v}
    r.ob(not bad, Finding("QHS", f"{QS}:QuicSession.handle_quic_packet:retry-reset",
                          f"a Retry must discard the TLS parser state and *all* derived keys and decryptors (Initial keys included: the retried Initial uses the Retry's SCID as DCID); found {bad}", hq.module.line(hq.node)))
    # Initial keys are (re)derived from the DCID of the packet at hand whenever no Initial decryptor is installed
    hp = tree.func(QS, "QuicSession.handle_packet")
    cfg3 = cfg_of(hp.node)
    r.instances += 1
    ic = [c for c in body_walk(hp.node) if isinstance(c, ast.Call) and dotted(c.func) == "self.set_initial_decryptor"]
    ok = len(ic) == 1 and [src(a) for a in ic[0].args] == [hp.params[2], "False"]
    if ok:
        facts = [(src(e, 80), t) for e, t in cfg3.facts_at(cfg3.node_of(ic[0]))]
        ok = facts == [("'Initial' not in list(self.decryptors.keys())", True)] or facts == [("'Initial' in list(self.decryptors.keys())", False)] or facts == [("'Initial' not in self.decryptors", True)]
    r.ob(ok, Finding("QHS", f"{QS}:QuicSession.handle_packet:initial-keys", "Initial keys are derived from the destination connection ID of the first packet seen while no Initial decryptor is installed (AES-128 parameters)", hp.module.line(hp.node)))
    # 0-RTT keys: the suite of early data is that of the resumed session, which the ClientHello does not name — it is *not* "the first suite offered"
    # (RFC 8446 §4.2.10: the PSK's cipher suite; a GREASE value or a preferred-but-different suite may come first)
    r.instances += 1
    ch = tree.func("quic.quic_tls_parser", "QuicTlsSession.handle_client_hello")
    first_offer = [n for n in body_walk(ch.node) if isinstance(n, ast.Assign) and dotted(n.targets[0]) == "self.ciphersuite" and isinstance(n.value, ast.Subscript)
                   and isinstance(n.value.slice, ast.Slice) and try_fold(n.value.slice.lower) in (0, None) and try_fold(n.value.slice.upper) == 2 and "suite" in src(n.value.value).lower()]
    r.ob(not first_offer, Finding("QHS", "quic.quic_tls_parser:QuicTlsSession.handle_client_hello:early-suite-first-offered",
                                  f"`{src(first_offer[0], 70) if first_offer else ''}`: the keys for 0-RTT packets are derived for the first cipher suite of the ClientHello's list; a client that "
                                  f"lists another suite (or a GREASE value) first sends 0-RTT data under the resumed session's suite and that datagram is not exported", ch.module.line(ch.node)))
    return r

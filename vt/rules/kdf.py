"""C15 — key schedules: KDF call-site conformance (T6), telescoping key-block slices (T7), key-dictionary agreement (T5),
argument selection at wiring call sites (B4)."""
from __future__ import annotations

import ast
from typing import Any, Dict, List, Optional, Set, Tuple

from ..core import Tree, Func, Class, dotted, src, AnalysisError, AnchorMissing, body_walk, ancestors
from ..framework import Finding, RuleResult
from ..norm import try_fold, strip_stmts, fold, NotConst
from ..cfg import cfg_of, fact_holds
from ..callgraph import CallGraph
from .pkn import nf, _fmt

KD = "key_derivator"
QK = "quic.quic_key_generation"
BLOCK_ORDER = ["client_write_MAC_secret", "server_write_MAC_secret", "client_write_key", "server_write_key", "client_write_IV", "server_write_IV"]


# ------------------------------------------------------------------------------------------ T7
def rule_T7_keyblock(tree: Tree) -> RuleResult:
    r = RuleResult("T7k", "key block partition (RFC 5246 §6.3): MAC_c, MAC_s, key_c, key_s, IV_c, IV_s as consecutive, gap-free slices of widths M, M, K, K, I, I")
    m = tree.module(KD)
    for fn in ("dev_ssl_30_keys", "dev_tls_10_11_keys", "dev_tls_12_keys"):
        f = tree.func(KD, fn)
        d = None
        for n in body_walk(f.node):
            if isinstance(n, ast.Assign) and isinstance(n.value, ast.Dict) and dotted(n.targets[0]) == "keys":
                d = n.value
        if d is None:
            raise AnchorMissing(f"{fn}: key dictionary literal not found")
        env = {"mac_length": ("s", "M"), "key_length": ("s", "K"), "iv_length": ("s", "I")}
        names = [try_fold(k) for k in d.keys]
        r.instances += 1
        r.ob(names == BLOCK_ORDER, Finding("T7k", f"{KD}:{fn}:order", f"{fn}: key block entries must be {BLOCK_ORDER} in this order, found {names}", m.line(d)))
        widths = ["M", "M", "K", "K", "I", "I"]
        prev_hi = ("c", 0)
        for name, v, w in zip(names, d.values, widths):
            r.instances += 1
            ok = isinstance(v, ast.Subscript) and dotted(v.value) == "key_block" and isinstance(v.slice, ast.Slice)
            why = "not a slice of key_block"
            if ok:
                lo = nf(v.slice.lower, env) if v.slice.lower is not None else ("c", 0)
                hi = nf(v.slice.upper, env)
                width = nf(ast.BinOp(left=v.slice.upper, op=ast.Sub(), right=v.slice.lower if v.slice.lower is not None else ast.Constant(0)), env)
                ok = lo == prev_hi and width == ("s", w)
                why = f"slice [{_fmt(lo)} : {_fmt(hi)}] (width {_fmt(width)}); expected start {_fmt(prev_hi)}, width {w}"
                prev_hi = hi
            r.ob(ok, Finding("T7k", f"{KD}:{fn}:slice:{name}", f"{fn}: {name} = {why} — a gap or overlap shifts every later key", m.line(v)))
        # requested length covers the partition: key_block_length + 2 * iv_length
        r.instances += 1
        kb = [n for n in body_walk(f.node) if isinstance(n, ast.Assign) and dotted(n.targets[0]) == "key_block" and isinstance(n.value, ast.Call)]
        ok = len(kb) == 1
        if ok:
            call = kb[0].value
            length_arg = call.args[3] if fn == "dev_ssl_30_keys" else call.args[4]
            ok = nf(length_arg, {"key_block_length": ("s", "KB"), "iv_length": ("s", "I")}) == nf(ast.parse("KB + 2 * I", mode="eval").body, {"KB": ("s", "KB"), "I": ("s", "I")})
        r.ob(ok, Finding("T7k", f"{KD}:{fn}:requested-length", f"{fn}: the PRF must be asked for key_block_length + 2·iv_length bytes", m.line(f.node)))
        # AEAD: no MAC keys
        r.instances += 1
        cfg = cfg_of(f.node)
        z = [n for n in cfg.nodes if n.kind == "stmt" and isinstance(n.ast, ast.Assign) and dotted(n.ast.targets[0]) == "mac_length" and try_fold(n.ast.value) == 0]
        ok = len(z) == 1 and [(src(e), t) for e, t in cfg.facts_at(z[0].id)] == [("use_aead", True)]
        r.ob(ok, Finding("T7k", f"{KD}:{fn}:aead-no-mac", f"{fn}: AEAD suites have no MAC keys: `mac_length = 0` must depend on use_aead alone (for every AEAD cipher, ChaCha20-Poly1305 included)", m.line(f.node)))
    return r


# ------------------------------------------------------------------------------------------ T6 (TLS 1.3 + QUIC HKDF call sites, labels, PRF seeds)
LABEL_ROLE = {
    "CLIENT_HANDSHAKE_TRAFFIC_SECRET": ("client", "handshake"), "SERVER_HANDSHAKE_TRAFFIC_SECRET": ("server", "handshake"),
    "CLIENT_TRAFFIC_SECRET_0": ("client", "application"), "SERVER_TRAFFIC_SECRET_0": ("server", "application"),
    "CLIENT_EARLY_TRAFFIC_SECRET": ("client", "early"), "SERVER_EARLY_TRAFFIC_SECRET": ("server", "early"),
}


def _hkdf_calls(fn: ast.FunctionDef):
    """(target, HKDFExpand call, derive arg, enclosing node)"""
    out = []
    for n in body_walk(fn):
        tgt = val = None
        if isinstance(n, ast.Assign) and len(n.targets) == 1:
            tgt, val = dotted(n.targets[0]), n.value
        if val is None:
            continue
        if isinstance(val, ast.Call) and isinstance(val.func, ast.Attribute) and val.func.attr == "derive" and isinstance(val.func.value, ast.Call) \
                and dotted(val.func.value.func) == "HKDFExpand":
            out.append((tgt, val.func.value, val.args[0] if val.args else None, n))
    return out


def _kw_or_pos(call: ast.Call, i: int, name: str):
    if len(call.args) > i:
        return call.args[i]
    for k in call.keywords:
        if k.arg == name:
            return k.value
    return None


def rule_T6_quic(tree: Tree) -> RuleResult:
    return rule_T6(tree, parts=("quic",))


def rule_T6(tree: Tree, parts=("tls", "quic")) -> RuleResult:
    r = RuleResult("T6", "KDF call sites: target role ↔ key-log label ↔ secret; label bytes, declared lengths and output lengths per RFC 8446 §7.3 / RFC 9001 §5; PRF labels and seed order")
    kd = tree.module(KD)
    if "tls" in parts:
        _t6_tls(tree, r, kd)
    if "quic" in parts:
        _t6_quic(tree, r)
    return r


def _t6_tls(tree: Tree, r: RuleResult, kd) -> None:
    # ---- TLS 1.3
    f = tree.func(KD, "dev_tls_13_keys")
    cfg = cfg_of(f.node)
    consts = {dotted(s.targets[0]): try_fold(s.value) for s in f.node.body if isinstance(s, ast.Assign) and dotted(s.targets[0])}
    r.instances += 1
    ok = consts.get("key_label") == b"tls13 key" and consts.get("iv_label") == b"tls13 iv" and consts.get("iv_length") == b"\x00\x0c" \
        and consts.get("iv_label_len") == bytes([len(b"tls13 iv")]) and consts.get("key_label_len") == bytes([len(b"tls13 key")])
    infos = {dotted(s.targets[0]): src(s.value) for s in f.node.body if isinstance(s, ast.Assign) and dotted(s.targets[0]) in ("iv_info", "key_info")}
    ok = ok and infos == {"iv_info": "iv_length + iv_label_len + iv_label + b'\\x00'", "key_info": "key_length + key_label_len + key_label + b'\\x00'"}
    kl = [src(s.value) for s in f.node.body if isinstance(s, ast.Assign) and dotted(s.targets[0]) == "key_length"]
    ok = ok and kl == ["int(key_length).to_bytes(2, 'big')"]
    r.ob(ok, Finding("T6", f"{KD}:dev_tls_13_keys:hkdf-labels", f"HkdfLabel = length(2) ‖ len(label)(1) ‖ 'tls13 key'|'tls13 iv' ‖ 0x00 with IV length 12; found {consts} {infos}", kd.line(f.node)))
    calls = _hkdf_calls(f.node)
    if len(calls) != 8:
        raise AnalysisError(f"dev_tls_13_keys: expected 8 HKDF-Expand call sites, found {len(calls)}")
    for tgt, hk, sec, node in calls:
        r.instances += 1
        label = None
        for e, t in cfg.facts_at(cfg.node_of(node)):
            if t and isinstance(e, ast.Compare) and src(e.left) == "secret.label":
                label = try_fold(e.comparators[0])
        role = LABEL_ROLE.get(label)
        kind = "key" if tgt.endswith("_key") else "iv" if tgt.endswith("_iv") else "?"
        L = src(_kw_or_pos(hk, 1, "length"))
        info = src(_kw_or_pos(hk, 2, "info"))
        ok = role is not None and tgt == f"{role[0]}_{role[1]}_{kind}" and src(sec) == "bytes.fromhex(secret.value)" and src(_kw_or_pos(hk, 0, "algorithm")) == "hash_fun"
        ok = ok and ((kind == "key" and L == "int.from_bytes(key_length, 'big')" and info == "key_info") or (kind == "iv" and L == "12" and info == "iv_info"))
        r.ob(ok, Finding("T6", f"{KD}:dev_tls_13_keys:site:{tgt}", f"`{tgt}` is derived under label {label!r} with length {L} and info {info} from {src(sec)}; expected the {kind} of that label's own secret", kd.line(node)))
    # returned dictionary maps names to the matching variables
    r.instances += 1
    d = next((n.value for n in body_walk(f.node) if isinstance(n, ast.Assign) and isinstance(n.value, ast.Dict) and dotted(n.targets[0]) == "keys"), None)
    got = {try_fold(k): dotted(v) for k, v in zip(d.keys, d.values)} if d is not None else {}
    want = {}
    for role in ("client", "server"):
        want[f"{role}_handshake_traffic_secret"] = f"{role}_handshake_key"
        want[f"{role}_application_traffic_secret_0"] = f"{role}_application_key"
        want[f"{role}_handshake_iv"] = f"{role}_handshake_iv"
        want[f"{role}_application_iv"] = f"{role}_application_iv"
    r.ob(got == want, Finding("T6", f"{KD}:dev_tls_13_keys:result-names", f"the result dictionary must map each name to the value of the same role/epoch; found {got}", kd.line(f.node)))
    # ---- TLS <= 1.2 labels and seed order
    r.instances += 1
    ok = True
    det = []
    for fn, label_idx in (("dev_tls_10_11_keys", 3), ("dev_tls_12_keys", 3)):
        g = tree.func(KD, fn)
        call = next(n.value for n in body_walk(g.node) if isinstance(n, ast.Assign) and dotted(n.targets[0]) == "key_block")
        args = [src(a) for a in call.args]
        det.append((fn, args))
        ok = ok and args[:3] == ["master_secret", "client_random", "server_random"] and try_fold(call.args[label_idx]) == b"key expansion"
        if fn == "dev_tls_10_11_keys":
            ok = ok and try_fold(call.args[5]) == 0
        else:
            ok = ok and args[5] == "mac_function"
    g = tree.func(KD, "dev_ssl_30_keys")
    call = next(n.value for n in body_walk(g.node) if isinstance(n, ast.Assign) and dotted(n.targets[0]) == "key_block")
    ok = ok and [src(a) for a in call.args][:3] == ["master_secret", "client_random", "server_random"] and try_fold(call.args[4]) == 0
    for fn, want_args in (("gen_master_secret_ssl_30", ["pm_secret", "client_random", "server_random", "48", "1"]),
                          ("gen_master_secret_tls_10_11", ["pm_secret", "client_random", "server_random", "b'master secret'", "48", "1"])):
        g = tree.func(KD, fn)
        call = next(n.value for n in body_walk(g.node) if isinstance(n, ast.Assign) and dotted(n.targets[0]) == "master_secret")
        ok = ok and [src(a) for a in call.args] == want_args
    r.ob(ok, Finding("T6", f"{KD}:prf-call-sites", f"key expansion uses label 'key expansion' and the key-block seed order (non_key = 0); master secrets use 'master secret', 48 bytes, non_key = 1; found {det}", kd.relpath))
    # seed order inside the PRFs
    r.instances += 1
    ok = True
    for fn in ("prf_tls_10_11", "prf_ssl_30"):
        g = tree.func(KD, fn)
        cfgp = cfg_of(g.node)
        seen = {}
        for n in cfgp.nodes:
            if n.kind != "stmt":
                continue
            txt = src(n.ast, 400)
            if "client_random + server_random" in txt or "server_random + client_random" in txt:
                nk = fact_holds(cfgp.facts_at(n.id), "non_key", True)
                k = fact_holds(cfgp.facts_at(n.id), "non_key", False)
                seen["master" if nk else "keyblock" if k else "?"] = "cs" if "client_random + server_random" in txt else "sc"
        ok = ok and seen == {"master": "cs", "keyblock": "sc"}
    g = tree.func(KD, "prf_tls_12")
    seed = [src(s.value) for s in body_walk(g.node) if isinstance(s, ast.Assign) and dotted(s.targets[0]) == "seed"]
    ok = ok and seed == ["label + server_random + client_random"]
    g = tree.func(KD, "gen_master_secret_tls_12")
    seed = [src(s.value) for s in body_walk(g.node) if isinstance(s, ast.Assign) and dotted(s.targets[0]) == "seed"]
    ok = ok and seed == ["b'master secret' + client_random + server_random"]
    r.ob(ok, Finding("T6", f"{KD}:seed-order", "seed order: master secret = label ‖ client_random ‖ server_random; key expansion = label ‖ server_random ‖ client_random (RFC 5246 §6.3 / §8.1)", kd.relpath))
    # PRF expansion: iterate while the output is shorter than requested, then truncate
    for fn, accs in (("prf_ssl_30", ["key_block"]), ("prf_tls_10_11", ["p_md5", "p_sha1"]), ("prf_tls_12", ["secret_block"])):
        g = tree.func(KD, fn)
        for acc in accs:
            r.instances += 1
            loops = [n for n in body_walk(g.node) if isinstance(n, ast.While) and src(n.test) in (f"len({acc}) < length", f"length > len({acc})")]
            grows = any(isinstance(s2, ast.Assign) and dotted(s2.targets[0]) == acc and src(s2.value).startswith(f"{acc} + ") for l in loops for s2 in ast.walk(l)) or \
                any(isinstance(s2, ast.AugAssign) and dotted(s2.target) == acc for l in loops for s2 in ast.walk(l))
            r.ob(len(loops) == 1 and grows, Finding("T6", f"{KD}:{fn}:expansion:{acc}",
                                                   f"{fn}: `{acc}` must be extended by whole digests `while len({acc}) < length` (P_hash / SSLv3 expansion produce at least the requested bytes); "
                                                   f"a fixed or floored round count yields a short key block and truncated keys / IVs", kd.line(g.node)))
        r.instances += 1
        rets = [src(n.value) for n in body_walk(g.node) if isinstance(n, ast.Return)]
        r.ob(len(rets) == 1 and rets[0].endswith("[:length]"), Finding("T6", f"{KD}:{fn}:truncate", f"{fn} must return exactly `length` bytes (…[:length]); found {rets}", kd.line(g.node)))
    # SSLv3 round labels 'A', 'BB', 'CCC', …: counter starts at 1 and is advanced once per round
    r.instances += 1
    g = tree.func(KD, "prf_ssl_30")
    init = [try_fold(s2.value) for s2 in g.node.body if isinstance(s2, ast.Assign) and dotted(s2.targets[0]) == "counter"]
    incs = [src(s2) for s2 in body_walk(g.node) if isinstance(s2, ast.AugAssign) and dotted(s2.target) == "counter"]
    lab = any("counter * sec_bits[counter - 1]" in src(s2, 300) for s2 in body_walk(g.node) if isinstance(s2, ast.Expr))
    r.ob(init == [1] and incs == ["counter += 1"] and lab, Finding("T6", f"{KD}:prf_ssl_30:round-label", "SSL 3.0 round i is salted with i copies of the i-th letter; the counter starts at 1 and advances by 1 per round", kd.line(g.node)))
    # PRF hash selection for TLS 1.2
    r.instances += 1
    g = tree.func(KD, "prf_tls_12")
    cfgp = cfg_of(g.node)
    macs = {}
    for n in cfgp.nodes:
        if n.kind == "stmt" and isinstance(n.ast, ast.Assign) and dotted(n.ast.targets[0]) == "mac":
            macs[src(n.ast.value)] = fact_holds(cfgp.facts_at(n.id), "mac_function == hashes.SHA384", True)
    r.ob(macs == {"hashes.SHA256": False, "hashes.SHA384": True}, Finding("T6", f"{KD}:prf_tls_12:hash-selection", f"TLS 1.2 PRF hash is SHA-384 iff the suite hash is SHA-384, else SHA-256; found {macs}", kd.line(g.node)))
    # master secret for RSA lines: PRF hash of the suite (F18)
    r.instances += 1
    g = tree.func(KD, "gen_master_secret_tls_12")
    hs = {src(c.args[1]) for c in body_walk(g.node) if isinstance(c, ast.Call) and dotted(c.func) == "hmac.HMAC" and len(c.args) > 1}
    hparams = [p for p in g.params if "mac" in p or "hash" in p]
    r.ob(bool(hparams) and hs != {"hashes.SHA256()"}, Finding("T6", f"{KD}:gen_master_secret_tls_12:hash-fixed",
                                                               "gen_master_secret_tls_12 hard-codes HMAC-SHA256; for `RSA` key-log lines with a SHA-384 suite the master secret must be derived with the SHA-384 PRF", kd.line(g.node)))
    if hparams and hs != {"hashes.SHA256()"}:
        hp = hparams[0]
        # same selection as prf_tls_12; every HMAC of the function uses the selected hash; the result is the first 48 bytes of P_hash
        r.instances += 1
        cfgm = cfg_of(g.node)
        macs = {}
        for n in cfgm.nodes:
            if n.kind == "stmt" and isinstance(n.ast, ast.Assign) and dotted(n.ast.targets[0]) == "mac":
                macs[src(n.ast.value)] = fact_holds(cfgm.facts_at(n.id), f"{hp} == hashes.SHA384", True)
        direct = hs == {f"{hp}()"}
        r.ob((macs == {"hashes.SHA256": False, "hashes.SHA384": True} and hs == {"mac()"}) or (direct and not macs),
             Finding("T6", f"{KD}:gen_master_secret_tls_12:hash-selection",
                     f"master secret PRF hash: SHA-384 iff the suite hash is SHA-384, else SHA-256, used by every HMAC of the function; found selection {macs}, HMAC hashes {sorted(hs)}", kd.line(g.node)))
        r.instances += 1
        ms = [src(s2.value) for s2 in body_walk(g.node) if isinstance(s2, ast.Assign) and dotted(s2.targets[0]) == "master_secret"]
        rets = [src(n.value) for n in body_walk(g.node) if isinstance(n, ast.Return)]
        r.ob(ms == ["(p1 + p2)[:48]"] and rets == ["master_secret"],
             Finding("T6", f"{KD}:gen_master_secret_tls_12:length-48", f"the master secret is the first 48 bytes of P_hash = p1 ‖ p2 (a SHA-384 digest is 48 bytes: `p1 + p2[:16]` would be 64); found {ms} / return {rets}", kd.line(g.node)))
        # wiring: the call site passes the suite's hash
        r.instances += 1
        gk = tree.func("session", "Session.generate_keys")
        calls = [c for c in body_walk(gk.node) if isinstance(c, ast.Call) and (dotted(c.func) or "").endswith("gen_master_secret_tls_12")]
        idx = g.params.index(hp)
        okc = bool(calls)
        for c in calls:
            a = c.args[idx] if len(c.args) > idx else next((k.value for k in c.keywords if k.arg == hp), None)
            okc = okc and a is not None and src(a) in ("cipher_suite['MAC']", 'cipher_suite["MAC"]')
        r.ob(okc, Finding("T6", "session:Session.generate_keys:master-secret-hash", "generate_keys must hand the suite's hash (cipher_suite['MAC']) to gen_master_secret_tls_12; the default is SHA-256", gk.module.line(gk.node)))


def _t6_quic(tree: Tree, r: RuleResult) -> None:
    # ---- QUIC
    qk = tree.module(QK)
    mi = tree.func(QK, "make_info")
    r.instances += 1
    body = {dotted(s.targets[0]): src(s.value) for s in body_walk(mi.node) if isinstance(s, ast.Assign) and dotted(s.targets[0])}
    ret = [src(n.value) for n in body_walk(mi.node) if isinstance(n, ast.Return)]
    lenvar = next(iter(body), None)
    ok = len(body) == 1 and body[lenvar] == f"len({mi.params[0]}) + 6" and ret == [f"{mi.params[1]}.to_bytes(2, 'big') + {lenvar}.to_bytes(1, 'big') + b'tls13 ' + {mi.params[0]} + b'\\x00'"]
    r.ob(ok, Finding("T6", f"{QK}:make_info:hkdf-label", f"HkdfLabel = length(2) ‖ (6 + len(label))(1) ‖ 'tls13 ' ‖ label ‖ 0x00; found {body} {ret}", qk.line(mi.node)))
    dq = tree.func(QK, "dev_quic_keys")
    cfgq = cfg_of(dq.node)
    r.instances += 1
    infos = {}
    for n in cfgq.nodes:
        if n.kind == "stmt" and isinstance(n.ast, ast.Assign) and (dotted(n.ast.targets[0]) or "").endswith("_info") and isinstance(n.ast.value, ast.Call):
            v1 = fact_holds(cfgq.facts_at(n.id), "QuicVersion.V1 == quic_version", True) or fact_holds(cfgq.facts_at(n.id), "quic_version == QuicVersion.V1", True)
            infos[(dotted(n.ast.targets[0]), "v1" if v1 else "v2")] = (try_fold(n.ast.value.args[0]), src(n.ast.value.args[1]))
    want = {("key_info", "v1"): (b"quic key", "key_length"), ("iv_info", "v1"): (b"quic iv", "12"), ("hp_info", "v1"): (b"quic hp", "key_length"),
            ("key_info", "v2"): (b"quicv2 key", "key_length"), ("iv_info", "v2"): (b"quicv2 iv", "12"), ("hp_info", "v2"): (b"quicv2 hp", "key_length")}
    r.ob(infos == want, Finding("T6", f"{QK}:dev_quic_keys:labels", f"QUIC v1 labels are 'quic key' / 'quic iv' (12) / 'quic hp'; v2 'quicv2 …'; found {infos}", qk.line(dq.node)))
    calls = _hkdf_calls(dq.node)
    if len(calls) < 16:
        raise AnalysisError(f"dev_quic_keys: expected ≥16 HKDF call sites, found {len(calls)}")
    for tgt, hk, sec, node in calls:
        r.instances += 1
        label = None
        for e, t in cfgq.facts_at(cfgq.node_of(node)):
            if t and isinstance(e, ast.Compare) and src(e.left) == "secret.label":
                label = try_fold(e.comparators[0])
        role = LABEL_ROLE.get(label)
        kind = tgt.split("_")[-1]
        L = src(_kw_or_pos(hk, 1, "length"))
        info = src(_kw_or_pos(hk, 2, "info"))
        stem = {"early": "early_traffic"}.get(role[1], role[1]) if role else None
        ok = role is not None and tgt == f"{role[0]}_{stem}_{kind}" and src(sec) == "bytes.fromhex(secret.value)" and src(_kw_or_pos(hk, 0, "algorithm")) == "hash_fun"
        ok = ok and {"key": ("key_length", "key_info"), "iv": ("12", "iv_info"), "hp": ("key_length", "hp_info")}.get(kind) == (L, info)
        r.ob(ok, Finding("T6", f"{QK}:dev_quic_keys:site:{tgt}", f"`{tgt}` is derived under label {label!r} with length {L} and info {info}; expected the {kind} of that label's own secret", qk.line(node)))
    # application secrets kept for key updates; result names
    r.instances += 1
    d = next((n.value for n in body_walk(dq.node) if isinstance(n, ast.Assign) and isinstance(n.value, ast.Dict) and dotted(n.targets[0]) == "keys"), None)
    got = {try_fold(k): dotted(v) for k, v in zip(d.keys, d.values)} if d is not None else {}
    bad = []
    for k, v in got.items():
        role, ep, kind = k.split("_")
        exp = f"{role}_{ep}_{'secret' if kind == 'sec' else kind}" if ep != "early" else f"{role}_early_traffic_{kind}"
        if v != exp:
            bad.append((k, v))
    secs = {dotted(s.targets[0]): src(s.value) for s in body_walk(dq.node) if isinstance(s, ast.Assign) and (dotted(s.targets[0]) or "").endswith("_application_secret")}
    ok = not bad and len(got) == 20 and secs == {"client_application_secret": "bytes.fromhex(secret.value)", "server_application_secret": "bytes.fromhex(secret.value)"}
    r.ob(ok, Finding("T6", f"{QK}:dev_quic_keys:result-names", f"result names must map to the values of the same role/epoch/kind; mismatches {bad}", qk.line(dq.node)))
    # Initial keys
    di = tree.func(QK, "dev_initial_keys")
    cfgi = cfg_of(di.node)
    r.instances += 1
    salts = {}
    for n in cfgi.nodes:
        if n.kind == "stmt" and isinstance(n.ast, ast.Assign) and dotted(n.ast.targets[0]) == "initial_salt":
            ver = "v1" if fact_holds(cfgi.facts_at(n.id), "quic_version == QuicVersion.V1", True) else "v2" if fact_holds(cfgi.facts_at(n.id), "quic_version == QuicVersion.V2", True) else "?"
            salts[ver] = try_fold(n.ast.value)
    ok = salts.get("v1") == bytes.fromhex("38762cf7f55934b34d179ae6a4c80cadccbb7f0a") and salts.get("v2") == bytes.fromhex("0dede3def700a6db819381be6e269dcbf9bd2ed9")
    ext = [src(s.value) for s in body_walk(di.node) if isinstance(s, ast.Assign) and dotted(s.targets[0]) == "initial_secret"]
    ok = ok and ext == ["HKDF(hash_fun, salt=initial_salt, length=32, info=None)._extract(connection_id)"]
    cs = {dotted(s.targets[0]): src(s.value) for s in body_walk(di.node) if isinstance(s, ast.Assign) and dotted(s.targets[0]) in ("client_initial", "server_initial", "hash_fun")}
    ok = ok and cs == {"hash_fun": "SHA256()", "client_initial": "HKDFExpand(hash_fun, 32, info=make_info(b'client in', 32)).derive(initial_secret)",
                       "server_initial": "HKDFExpand(hash_fun, 32, info=make_info(b'server in', 32)).derive(initial_secret)"}
    r.ob(ok, Finding("T6", f"{QK}:dev_initial_keys:initial-secret", f"initial_secret = HKDF-Extract(version salt, client DCID) with SHA-256; client/server secrets via 'client in' / 'server in' (32 bytes); found salts {salts}", qk.line(di.node)))
    r.instances += 1
    lens = {}
    for n in cfgi.nodes:
        if n.kind == "stmt" and isinstance(n.ast, ast.Assign) and dotted(n.ast.targets[0]) in ("key_length", "hp_key_length"):
            lens.setdefault(dotted(n.ast.targets[0]), set()).add(try_fold(n.ast.value))
    params_used = [p for p in di.params if p not in ("connection_id", "quic_version")]
    ok = lens.get("key_length", {16}) == {16} and lens.get("hp_key_length", {16}) == {16}
    if not ok:
        # lengths selected by a parameter: acceptable only if every call site passes a constant that selects 16
        from ..prov import Prov
        from ..symeval import geval, Unknown
        pv = Prov(tree)
        sel_ok = True
        for p in params_used:
            leaves, flags = pv.of(di, ast.Name(p, ast.Load()))
            consts = {l[1] for l in leaves if l[0] == "const"}
            if len(leaves) != len(consts) or not leaves:
                sel_ok = False
                continue
            for cv in consts:
                env = {p: {"True": True, "False": False}.get(cv, cv)}
                for n in cfgi.nodes:
                    if n.kind == "stmt" and isinstance(n.ast, ast.Assign) and dotted(n.ast.targets[0]) in ("key_length", "hp_key_length") and try_fold(n.ast.value) != 16:
                        # reachable under this constant?
                        reach = True
                        for e, t in cfgi.facts_at(n.id):
                            try:
                                if geval(tree, di.module, e, env) is not t:
                                    reach = False
                            except Unknown:
                                pass
                        if reach:
                            sel_ok = False
        ok = sel_ok
        params_used = [f"{p} (call sites pass {sorted(pv.of(di, ast.Name(p, ast.Load()))[0])})" for p in params_used]
    r.ob(ok, Finding("T6", f"{QK}:dev_initial_keys:suite-independent",
                     f"Initial packets are always protected with AES-128-GCM / AES-128-ECB keys of 16 bytes (RFC 9001 §5.2), whatever suite is negotiated; dev_initial_keys derives "
                     f"lengths {dict((k, sorted(v)) for k, v in lens.items())} depending on {params_used}: with TLS_CHACHA20_POLY1305_SHA256 offered first the server's Initial (ServerHello) "
                     f"cannot be decrypted", qk.line(di.node)))
    r.instances += 1
    d = next((n.value for n in body_walk(di.node) if isinstance(n, ast.Assign) and isinstance(n.value, ast.Dict)), None)
    bad = []
    if d is not None:
        for k, v in zip(d.keys, d.values):
            name = try_fold(k)
            role, _, kind = name.split("_")
            txt = src(v, 300)
            lab = {"key": "key_label", "iv": "iv_label", "hp": "hp_label"}[kind]
            exp_len = {"key": "key_length", "iv": "12", "hp": "key_length"}[kind]
            exp_info_len = {"key": "key_length", "iv": "12", "hp": "hp_key_length"}[kind]
            want_txt = f"HKDFExpand(hash_fun, {exp_len}, make_info({lab}, {exp_info_len})).derive({role}_initial)"
            if txt != want_txt:
                bad.append((name, txt))
    labs = {}
    for n in cfgi.nodes:
        if n.kind == "stmt" and isinstance(n.ast, ast.Assign) and (dotted(n.ast.targets[0]) or "").endswith("_label"):
            v1 = fact_holds(cfgi.facts_at(n.id), "quic_version == QuicVersion.V1", True)
            labs[(dotted(n.ast.targets[0]), "v1" if v1 else "v2")] = try_fold(n.ast.value)
    ok = d is not None and not bad and len(d.keys) == 6 and labs.get(("key_label", "v1")) == b"quic key" and labs.get(("iv_label", "v1")) == b"quic iv" and labs.get(("hp_label", "v1")) == b"quic hp"
    r.ob(ok, Finding("T6", f"{QK}:dev_initial_keys:sites", f"each Initial key/iv/hp must be HKDF-Expand-Label of its own role's initial secret with the matching label and length; mismatches {bad[:2]}", qk.line(di.node)))
    # key update
    ku = tree.func(QK, "key_update")
    r.instances += 1
    txt = {dotted(s.targets[0]): src(s.value, 300) for s in body_walk(ku.node) if isinstance(s, ast.Assign) and dotted(s.targets[0])}
    ok = txt.get("server_n_1") == "HKDFExpand(hash_fun, hash_fun.digest_size, ku_info).derive(server_n)" and txt.get("client_n_1") == "HKDFExpand(hash_fun, hash_fun.digest_size, ku_info).derive(client_n)"
    for role in ("client", "server"):
        ok = ok and txt.get(f"{role}_application_key") == f"HKDFExpand(hash_fun, key_length, key_info).derive({role}_n_1)" \
            and txt.get(f"{role}_application_iv") == f"HKDFExpand(hash_fun, 12, iv_info).derive({role}_n_1)" and txt.get(f"{role}_application_secret") == f"{role}_n_1"
    kinfo = [(try_fold(c.args[0]), src(c.args[1])) for c in body_walk(ku.node) if isinstance(c, ast.Call) and dotted(c.func) == "make_info"]
    ok = ok and kinfo[:3] == [(b"quic key", "key_length"), (b"quic iv", "12"), (b"quic ku", "hash_fun.digest_size")]
    r.ob(ok, Finding("T6", f"{QK}:key_update:schedule", "key update (RFC 9001 §6.1): secret_{n+1} = Expand-Label(secret_n, 'quic ku', Hash.length); key and IV (not hp) re-derived from secret_{n+1} of the same direction", qk.line(ku.node)))



# ------------------------------------------------------------------------------------------ T5 (TLS)
def rule_T5_tls(tree: Tree) -> RuleResult:
    r = RuleResult("T5t", "TLS key names: every key Decryptor.parse_keys reads is produced by the key-derivation function of that version; role agreement")
    pk = tree.func("decryptor", "Decryptor.parse_keys")
    cfg = cfg_of(pk.node)
    prod13 = set()
    f13 = tree.func(KD, "dev_tls_13_keys")
    for n in body_walk(f13.node):
        if isinstance(n, ast.Dict) and n.keys and all(isinstance(k, ast.Constant) and isinstance(k.value, str) for k in n.keys):
            prod13 |= {k.value for k in n.keys}
    prod12 = set(BLOCK_ORDER)
    cnt = 0
    for n in cfg.nodes:
        if n.kind != "stmt" or not isinstance(n.ast, ast.Assign):
            continue
        v = n.ast.value
        if isinstance(v, ast.Subscript) and dotted(v.value) == "keys":
            k = try_fold(v.slice)
            tgt = dotted(n.ast.targets[0]) or ""
            is13 = fact_holds(cfg.facts_at(n.id), "self.tls_version == TlsVersion.TLS13", True)
            if any(t and "is None" in src(e) for e, t in cfg.facts_at(n.id)):
                continue  # fall-back assignments, checked separately below
            cnt += 1
            r.instances += 1
            prod = prod13 if is13 else prod12
            role_k = k.split("_")[0] if isinstance(k, str) else None
            role_t = tgt.replace("self.", "").split("_")[0]
            kind_ok = True
            if not is13:
                kind_ok = (k.endswith("_IV") and tgt.endswith("_iv")) or (k.endswith("_write_key") and tgt.endswith("_key")) or (k.endswith("_MAC_secret") and tgt.endswith("_mac"))
            else:
                ep_k = "handshake" if "handshake" in k else "application"
                kind_ok = ep_k in tgt and ((k.endswith("_iv") and tgt.endswith("_iv")) or (not k.endswith("_iv") and tgt.endswith("_key")))
            r.ob(k in prod and role_k == role_t and kind_ok, Finding("T5t", f"decryptor:Decryptor.parse_keys:{tgt.replace('self.', '')}",
                                                                     f"parse_keys: `{src(n.ast)}` — the key name must be produced for this version and denote the same role and kind as the attribute", pk.module.line(n.ast)))
    if cnt < 12:
        raise AnalysisError(f"parse_keys: only {cnt} key reads found (floor 12)")
    # fall-back when handshake secrets are missing: own direction's application values
    for d in ("client", "server"):
        r.instances += 1
        got = {}
        for n in cfg.nodes:
            if n.kind == "stmt" and isinstance(n.ast, ast.Assign):
                facts = [src(e) for e, t in cfg.facts_at(n.id) if t]
                if any(f"keys['{d}_handshake_traffic_secret'] is None" in x for x in facts):
                    got[dotted(n.ast.targets[0])] = src(n.ast.value)
        ok = got == {f"self.{d}_handshake_key": f"keys['{d}_application_traffic_secret_0']", f"self.{d}_handshake_iv": f"keys['{d}_application_iv']"}
        r.ob(ok, Finding("T5t", f"decryptor:Decryptor.parse_keys:{d}-fallback", f"without {d} handshake secrets the {d} direction starts with its own application key and IV; found {got}", pk.module.line(pk.node)))
    return r


# ------------------------------------------------------------------------------------------ B4
def rule_B4(tree: Tree) -> RuleResult:
    r = RuleResult("B4", "argument selection: no positional argument named like one parameter is bound to another (swap); generate_keys hands the suite parameters to the right slots")
    cg = CallGraph.of(tree)
    for f in sorted(tree.all_funcs(), key=lambda x: x.key):
        for cs in cg.sites.get(f, []):
            if len(cs.callees) != 1 or cs.kind != "repo":
                continue
            callee = cs.callees[0]
            params = callee.params
            if callee.cls is not None and params and params[0] == "self":
                params = params[1:]
            args = cs.node.args
            if len(args) < 2 or any(isinstance(a, ast.Starred) for a in args):
                continue
            names = [(dotted(a) or "").split(".")[-1] for a in args]
            if sum(1 for n in names if n) < 2:
                continue
            r.instances += 1
            bad = []
            for i, n in enumerate(names):
                if not n or i >= len(params):
                    continue
                if n in params and params[i] != n:
                    j = params.index(n)
                    # a swap: the argument named like params[i] sits elsewhere as well, or position j carries a differently named argument that is a parameter name too
                    if j < len(names) and names[j] in params and names[j] != n:
                        bad.append(f"argument `{n}` is bound to parameter `{params[i]}` while `{names[j]}` is bound to `{params[j]}`")
            r.ob(not bad, Finding("B4", f"{f.key}:call:{callee.qualname}:{cs.node.lineno - f.node.lineno}",
                                  f"{f.qualname} calls {callee.qualname}({', '.join(names)}) whose parameters are ({', '.join(params)}): {bad[:1]}", f.module.line(cs.node)))
    # keyword arguments: `name=other` while a variable called `name` exists in the calling function is the keyword form of the same swap
    KW_EXCEPTIONS = {("quic.quic_dissector:extract_quic_packet", "ShortQuicPacket", "dcid", "guessed_dcid"):
                     "a short header carries no connection-ID length: the ID guessed by the demultiplexer is the packet's DCID"}
    for f in tree.all_funcs():
        if f.module.short in ("log", "about"):
            continue
        names = {n.id for n in body_walk(f.node) if isinstance(n, ast.Name)} | set(f.params)
        for c in body_walk(f.node):
            if not isinstance(c, ast.Call) or not c.keywords:
                continue
            bad = []
            for k in c.keywords:
                if k.arg and isinstance(k.value, ast.Name) and k.value.id != k.arg and k.arg in names \
                        and (f.key, (dotted(c.func) or "").split(".")[-1], k.arg, k.value.id) not in KW_EXCEPTIONS:
                    bad.append(f"{k.arg}={k.value.id}")
            if any(isinstance(k.value, ast.Name) for k in c.keywords):
                r.instances += 1
                r.ob(not bad, Finding("B4", f"{f.key}:kwcall:{(dotted(c.func) or '?').split('.')[-1]}:{','.join(bad)}",
                                      f"{f.qualname} calls {src(c.func, 40)}(… {', '.join(bad)} …) although a variable named like the keyword exists in the function: the parameter receives "
                                      f"the neighbouring value", f.module.line(c)))
    # generate_keys wiring
    gk = tree.func("session", "Session.generate_keys")
    cfg = cfg_of(gk.node)
    m = gk.module
    want_tail = {
        "dev_tls_12_keys": ["key_length", "mac_length", "2 * key_length + 2 * mac_length", "cipher_suite['CryptoAlgo'][0]", "cipher_suite['Mode'][1]", "cipher_suite['MAC']"],
        "dev_tls_10_11_keys": ["key_length", "mac_length", "2 * key_length + 2 * mac_length", "cipher_suite['CryptoAlgo'][0]", "cipher_suite['Mode'][1]"],
        "dev_ssl_30_keys": ["key_length", "mac_length", "2 * key_length + 2 * mac_length", "cipher_suite['CryptoAlgo'][0]", "cipher_suite['CryptoAlgo'][1]"],
    }
    randoms = {"dev_tls_12_keys": ["client_random", "server_random"], "dev_tls_10_11_keys": ["server_random", "client_random"], "dev_ssl_30_keys": ["server_random", "client_random"]}
    version_of = {"dev_tls_13_keys": {"TLS13"}, "dev_tls_12_keys": {"TLS12"}, "dev_tls_10_11_keys": {"TLS10", "TLS11"}, "dev_ssl_30_keys": {"SSL30"}}
    n_sites = 0
    for c in body_walk(gk.node):
        if not (isinstance(c, ast.Call) and (dotted(c.func) or "").startswith("key_derivator.dev_")):
            continue
        fn = dotted(c.func).split(".")[-1]
        n_sites += 1
        r.instances += 1
        nid = cfg.node_of(c)
        vers = set()
        for b, lab in cfg.conditions_at(nid):
            nd = cfg.nodes[b]
            if nd.kind == "case" and lab == "T":
                vers |= {(dotted(x) or "").split(".")[-1] for x in ast.walk(nd.ast.pattern) if isinstance(x, ast.Attribute) and (dotted(x) or "").startswith("TlsVersion.")}
        label = None
        for e, t in cfg.facts_at(nid):
            if t and isinstance(e, ast.Compare) and src(e.left) == "secret.label":
                label = try_fold(e.comparators[0])
        args = [src(a) for a in c.args]
        if fn == "dev_tls_13_keys":
            ok = args == ["secret_list", "key_length", "cipher_suite['MAC']()"] and vers == version_of[fn]
        else:
            first = "bytes.fromhex(secret.value)" if label == "CLIENT_RANDOM" else "master_secret" if label == "RSA" else None
            ok = first is not None and args[0] == first and args[1:3] == randoms[fn] and args[3:] == want_tail[fn] and vers == version_of[fn]
            if label == "RSA":
                # the master secret comes from the matching generator with (pre-master, client_random, server_random)
                gen = {"dev_tls_12_keys": "gen_master_secret_tls_12", "dev_tls_10_11_keys": "gen_master_secret_tls_10_11", "dev_ssl_30_keys": "gen_master_secret_ssl_30"}[fn]
                from ..dataflow import reaching_definitions
                rd = reaching_definitions(cfg)
                defs = rd.get(nid, {}).get("master_secret", set())
                extra = ", cipher_suite['MAC']" if gen == "gen_master_secret_tls_12" and len(tree.func(KD, gen).params) > 3 else ""
                ok = ok and len(defs) == 1 and src(cfg.nodes[next(iter(defs))].ast.value) == f"key_derivator.{gen}(bytes.fromhex(secret.value), client_random, server_random{extra})"
        r.ob(ok, Finding("B4", f"session:Session.generate_keys:{fn}:{label or 'tls13'}",
                         f"generate_keys ({'/'.join(sorted(vers))}, {label or 'TLS 1.3 secrets'}): {fn}({', '.join(args)}) — expected the secret of that key-log line, the randoms in the callee's order "
                         f"{randoms.get(fn, '')} and (key_length, mac_length, 2·key+2·mac, bulk class, AEAD flag[, MAC hash])", m.line(c)))
    if n_sites < 7:
        raise AnalysisError(f"generate_keys: only {n_sites} key-derivation call sites found (floor 7)")
    # secret_list[0] is applied to a list filtered to this connection's client random
    r.instances += 1
    sl = [src(s.value) for s in body_walk(gk.node) if isinstance(s, ast.Assign) and dotted(s.targets[0]) == "secret_list"]
    r.ob(sl == ["self.find_session_secrets()"], Finding("B4", "session:Session.generate_keys:secret-list", f"the secrets used must be those of find_session_secrets() (filtered by client random); found {sl}", m.line(gk.node)))
    # Decryptor(...) argument roles
    r.instances += 1
    dcs = [c for c in body_walk(gk.node) if isinstance(c, ast.Call) and dotted(c.func) == "Decryptor"]
    # every construction site (there is one; a conditional selection of an argument is analysed as one site per arm): the first deviating one is shown
    dc = next((c for c in dcs if [src(a) for a in c.args] != ["cipher_suite['CryptoAlgo'][0]", "cipher_suite['Mode'][0]", "cipher_suite['MAC']", "keys", "self.tls_version",
                                                               "cipher_suite['KeyLength']", "cipher_suite['MAC'].digest_size", "cipher_suite['TagLength']", "block_size",
                                                               "self.extensions", "self.compression_method"]), dcs[0] if dcs else None)
    args = [src(a) for a in dc.args] if dc else []
    want = ["cipher_suite['CryptoAlgo'][0]", "cipher_suite['Mode'][0]", "cipher_suite['MAC']", "keys", "self.tls_version", "cipher_suite['KeyLength']", "cipher_suite['MAC'].digest_size",
            "cipher_suite['TagLength']", "block_size", "self.extensions", "self.compression_method"]
    dparams = tree.func("decryptor", "Decryptor.__init__").params[1:]
    wantp = ["bulk_alg", "bulk_mode", "mac_alg", "keys", "tls_version", "key_length", "mac_length", "tag_length", "block_length", "extensions", "compression"]
    r.ob(args == want and dparams == wantp, Finding("B4", "session:Session.generate_keys:decryptor-args", f"Decryptor({', '.join(args)}) vs parameters ({', '.join(dparams)})", m.line(gk.node)))
    # key_length / mac_length provenance
    r.instances += 1
    defs = {dotted(s.targets[0]): src(s.value) for s in body_walk(gk.node) if isinstance(s, ast.Assign) and dotted(s.targets[0]) in ("key_length", "mac_length", "cipher_suite")}
    ok = defs == {"cipher_suite": "cipher_suite_parser.split_cipher_suite(bytes(server_cipher_suite))", "key_length": "cipher_suite['KeyLength']", "mac_length": "cipher_suite['MAC'].digest_size"}
    r.ob(ok, Finding("B4", "session:Session.generate_keys:lengths", f"key and MAC lengths must come from the resolved suite of the ServerHello; found {defs}", m.line(gk.node)))
    # QUIC wiring
    st = tree.func("quic.quic_session", "QuicSession.set_tls_decryptors")
    r.instances += 1
    call = next((c for c in body_walk(st.node) if isinstance(c, ast.Call) and dotted(c.func) == "dev_quic_keys"), None)
    ok = call is not None and [src(a) for a in call.args] == ["self.key_length", "session_keys", "self.hash_fun()", "self.quic_version"]
    r.ob(ok, Finding("B4", "quic.quic_session:QuicSession.set_tls_decryptors:dev-quic-keys-args", "dev_quic_keys(key_length, secrets of this client random, hash instance, quic version)", st.module.line(st.node)))
    # suite table of set_tls_decryptors
    r.instances += 1
    table = {}
    for n in body_walk(st.node):
        if isinstance(n, ast.Match):
            for c in n.cases:
                if isinstance(c.pattern, ast.MatchValue):
                    table[try_fold(c.pattern.value)] = {dotted(s.targets[0]): src(s.value) for s in c.body if isinstance(s, ast.Assign)}
    want = {b"\x13\x01": {"self.hash_fun": "SHA256", "self.cipher": "AESGCM", "self.key_length": "16"}, b"\x13\x02": {"self.hash_fun": "SHA384", "self.cipher": "AESGCM", "self.key_length": "32"},
            b"\x13\x03": {"self.hash_fun": "SHA256", "self.cipher": "ChaCha20Poly1305", "self.key_length": "32"}, b"\x13\x04": {"self.hash_fun": "SHA256", "self.cipher": "AESCCM", "self.key_length": "16"}}
    r.ob(table == want, Finding("B4", "quic.quic_session:QuicSession.set_tls_decryptors:suite-table", f"QUIC suites 0x1301–0x1304 → (hash, AEAD, key length); found {table}", st.module.line(st.node)))
    return r

"""GI — guard inventory of effect statements.

For every *effect statement* of the analysed files (a write to an attribute / subscript, a mutating container call, a call of a repository
function or method, a `return <value>`, a `yield`) the set of branch conditions that hold on every path to it (edge dominance on the CFG,
polarity-aware atoms) is compared with the set recorded for the same statement of the reference tree (vt/ref_guards.json, regenerated with
`python3 -m vt.canon /repo` after every repair of /repo).

  * a statement whose text no longer exists is not compared (a modified statement is the business of the specific rules);
  * an atom is identified by the names / attribute chains / constants it mentions, its operator class and — for ==, is, in and bare
    truth tests — its polarity, so re-spelling a test (`len(x) == 0` / `not x` excepted, see residual list) does not change it;
  * reported: a statement that gained conditions and lost none ("effect E now also depends on G": a new early return / continue / guard in
    front of it, or a new wrapping `if`), or lost conditions and gained none ("guard G of effect E was dropped");
  * a statement that both gained and lost atoms is a re-written test and is left to the specific rules.

The rule is the generic counterpart of the must-pass-through obligations: it decides "no new condition stands between the entry of the
function and this effect" for every effect at once."""
from __future__ import annotations

import ast
import json
import os
from typing import Dict, List, Optional, Set, Tuple

from ..core import Tree, Func, dotted, src, AnalysisError, body_walk
from ..framework import Finding, RuleResult
from ..cfg import cfg_of, split_fact
from ..callgraph import CallGraph

REF_PATH = os.path.join(os.path.dirname(os.path.dirname(os.path.abspath(__file__))), "ref_guards.json")
MUT = {"append", "extend", "add", "update", "clear", "pop", "remove", "insert", "sort", "setdefault", "discard", "popitem", "writepkt", "write", "reverse"}
_NEG = {ast.NotEq: ast.Eq, ast.IsNot: ast.Is, ast.NotIn: ast.In}
_ORD = (ast.Lt, ast.LtE, ast.Gt, ast.GtE)
SKIP_MODULES = {"log", "about", "quic.udp_output_builder"}


def _is_logging(call: ast.Call) -> bool:
    d = dotted(call.func) or ""
    return d.startswith("logging.") or d.startswith("logger.") or d in ("print",)


def _mentions(e: ast.AST) -> Tuple[str, ...]:
    out: Set[str] = set()

    def walk(n: ast.AST):
        d = dotted(n) if isinstance(n, (ast.Name, ast.Attribute)) else None
        if d is not None:
            out.add(d)
            return
        if isinstance(n, ast.Constant):
            out.add(repr(n.value))
            return
        for c in ast.iter_child_nodes(n):
            walk(c)
    walk(e)
    return tuple(sorted(out))


def atom_id(e: ast.AST, truth: bool) -> Tuple:
    """Identity of a fact: (mentions, operator class, polarity or None)."""
    if isinstance(e, ast.Compare) and len(e.ops) == 1:
        op = e.ops[0]
        if type(op) in _NEG:
            return (_mentions(e), _NEG[type(op)].__name__, not truth)
        if isinstance(op, (ast.Eq, ast.Is, ast.In)):
            return (_mentions(e), type(op).__name__, truth)
        if isinstance(op, _ORD):
            return (_mentions(e), "ord", None)
    if isinstance(e, (ast.Name, ast.Attribute, ast.Call, ast.Subscript)):
        return (_mentions(e), "truth", truth)
    return (_mentions(e), type(e).__name__, None)


def _is_effect(st: ast.stmt, cg: CallGraph) -> bool:
    if isinstance(st, (ast.Assign, ast.AugAssign, ast.AnnAssign)):
        tg = st.targets if isinstance(st, ast.Assign) else [st.target]
        flat = []
        for t in tg:
            flat.extend(t.elts if isinstance(t, (ast.Tuple, ast.List)) else [t])
        if any(isinstance(t, (ast.Attribute, ast.Subscript)) for t in flat):
            return True
        v = getattr(st, "value", None)
        return v is not None and _has_repo_call(v, cg)
    if isinstance(st, ast.Return):
        return st.value is not None and not (isinstance(st.value, ast.Constant) and st.value.value is None)
    if isinstance(st, ast.Expr):
        v = st.value
        if isinstance(v, (ast.Yield, ast.YieldFrom)):
            return True
        if isinstance(v, ast.Call):
            if _is_logging(v):
                return False
            if isinstance(v.func, ast.Attribute) and v.func.attr in MUT:
                return True
            return _has_repo_call(v, cg)
    return False


def _has_repo_call(e: ast.AST, cg: CallGraph) -> bool:
    for c in ast.walk(e):
        if isinstance(c, ast.Call) and not _is_logging(c):
            cs = cg.site(c)
            if cs is not None and cs.callees:
                return True
    return False


def _norm(st: ast.stmt) -> str:
    return " ".join(src(st, 400).split())


LINES: Dict[Tuple[str, str], int] = {}


# ------------------------------------------------------------------ path conditions as propositional formulas (GI decides implication, not spelling)
_FLIPC = {ast.Gt: ast.Lt, ast.GtE: ast.LtE}


def _atom_text(e: ast.AST) -> str:
    return " ".join(ast.unparse(e).split())


def formula_of(e: ast.AST, truth: bool = True):
    """["and"|"or", f…] | ["not", f] | ["atom", text]; comparisons are brought to ==, is, in, < (negated / flipped as needed)."""
    if not truth:
        return ["not", formula_of(e, True)]
    if isinstance(e, ast.UnaryOp) and isinstance(e.op, ast.Not):
        return ["not", formula_of(e.operand, True)]
    if isinstance(e, ast.BoolOp):
        return ["and" if isinstance(e.op, ast.And) else "or"] + [formula_of(v, True) for v in e.values]
    if isinstance(e, ast.Compare) and len(e.ops) == 1:
        op, l, r = e.ops[0], e.left, e.comparators[0]
        neg = False
        if isinstance(op, ast.NotEq):
            op, neg = ast.Eq(), True
        elif isinstance(op, ast.IsNot):
            op, neg = ast.Is(), True
        elif isinstance(op, ast.NotIn):
            op, neg = ast.In(), True
        elif isinstance(op, ast.Gt):
            op, l, r = ast.Lt(), r, l
        elif isinstance(op, ast.GtE):          # a >= b  ==  not (a < b)
            op, neg = ast.Lt(), True
        elif isinstance(op, ast.LtE):          # a <= b  ==  not (b < a)
            op, l, r, neg = ast.Lt(), r, l, True
        if isinstance(op, (ast.Eq, ast.Is)) and _atom_text(l) > _atom_text(r):
            l, r = r, l
        a = ["atom", _atom_text(ast.Compare(left=l, ops=[op], comparators=[r]))]
        return ["not", a] if neg else a
    if isinstance(e, ast.Constant):
        return ["and"] if e.value else ["or"]  # `while 1` / `while True`: a constant test is a constant
    return ["atom", _atom_text(e)]


def _f_atoms(f, out):
    if f[0] == "atom":
        out.add(f[1])
    else:
        for g in f[1:]:
            _f_atoms(g, out)
    return out


def _f_eval(f, env) -> bool:
    k = f[0]
    if k == "atom":
        return env[f[1]]
    if k == "not":
        return not _f_eval(f[1], env)
    if k == "and":
        return all(_f_eval(g, env) for g in f[1:])
    return any(_f_eval(g, env) for g in f[1:])


def implies(f, g, limit: int = 14) -> Optional[bool]:
    """does f imply g for every assignment of their atoms (atoms are independent propositions)? None when there are too many atoms."""
    atoms = sorted(_f_atoms(f, set()) | _f_atoms(g, set()))
    if len(atoms) > limit:
        return None
    import itertools
    for vals in itertools.product((False, True), repeat=len(atoms)):
        env = dict(zip(atoms, vals))
        if _f_eval(f, env) and not _f_eval(g, env):
            return False
    return True


CONDS: Dict[str, Dict[str, list]] = {}


def inventory(tree: Tree, relpaths: Optional[Set[str]] = None) -> Dict[str, Dict[str, List[List]]]:
    """{func key: {statement text#k: [atom ids]}} for the effect statements of every function of the selected files."""
    cg = CallGraph.of(tree)
    out: Dict[str, Dict[str, List[List]]] = {}
    for f in tree.all_funcs():
        if f.module.short in SKIP_MODULES:
            continue
        if relpaths is not None and f.module.relpath not in relpaths:
            continue
        cfg = cfg_of(f.node)
        seen: Dict[str, int] = {}
        entry: Dict[str, List[List]] = {}
        for n in cfg.nodes:
            if n.kind != "stmt" or n.ast is None or not isinstance(n.ast, ast.stmt):
                continue
            if not _is_effect(n.ast, cg):
                continue
            text = _norm(n.ast)
            k = seen.get(text, 0)
            seen[text] = k + 1
            atoms = []
            for b, lab in cfg.conditions_at(n.id):
                bn = cfg.nodes[b]
                if bn.kind in ("if", "while"):
                    for e, t in split_fact(bn.ast.test, lab == "T"):
                        a = atom_id(e, t)
                        atoms.append([list(a[0]), a[1], a[2]])
                elif bn.kind == "case" and lab == "T":
                    atoms.append([list(_mentions(bn.ast.pattern)), "case", True])
            atoms.sort(key=repr)
            entry[f"{text}#{k}"] = atoms
            conj = ["and"]
            for b, lab in cfg.conditions_at(n.id):
                bn = cfg.nodes[b]
                if bn.kind in ("if", "while"):
                    conj.append(formula_of(bn.ast.test, lab == "T"))
                elif bn.kind == "case" and lab == "T":
                    conj.append(["atom", "case " + _atom_text(bn.ast.pattern)])
            CONDS.setdefault(f"{f.module.relpath}::{f.qualname}", {})[f"{text}#{k}"] = conj
            LINES[(f"{f.module.relpath}::{f.qualname}", f"{text}#{k}")] = getattr(n.ast, "lineno", 0)
        if entry:
            out[f"{f.module.relpath}::{f.qualname}"] = entry
    return out


def build_reference(root: str) -> Dict:
    os.environ["VT_REPO"] = root
    t = Tree()
    CONDS.clear()
    out = inventory(t)
    out["::conds"] = {k: dict(v) for k, v in CONDS.items()}
    out["::writes"] = write_inventory(t)
    out["::defs"] = defs_inventory(t)
    out["::logs"] = log_inventory(t)
    out["::handlers"] = handler_inventory(t)
    return out


_REF = None


def _ref():
    global _REF
    if _REF is None:
        try:
            with open(REF_PATH) as fh:
                _REF = json.load(fh)
        except FileNotFoundError:
            raise AnalysisError("vt/ref_guards.json is missing (regenerate with `python3 -m vt.canon /repo`)")
    return _REF


def _fmt(a) -> str:
    m, op, pol = a
    txt = ", ".join(m)
    return f"{'not ' if pol is False else ''}{op}({txt})"


def rule_GI(tree: Tree, files: Optional[List[str]] = None, scope: Optional[List[Tuple[str, Optional[str]]]] = None) -> RuleResult:
    r = RuleResult("GI", "guard inventory: every unchanged effect statement (state write, channel append, repo call, return value, yield) is reached under exactly "
                         "the branch conditions of the reference tree — no new early exit or guard in front of it, none dropped")
    ref = _ref()
    import re
    rel = set(files) if files else None
    if scope is not None:
        rel = {f for f, _ in scope}
    cur = inventory(tree, rel)
    if scope is not None:
        def in_scope(fkey: str) -> bool:
            relpath, qn = fkey.split("::", 1)
            return any(f == relpath and (rx is None or re.fullmatch(rx, qn.split(".")[-1])) for f, rx in scope)
        cur = {k: v for k, v in cur.items() if in_scope(k)}
    compared = 0
    for fkey, stmts in sorted(cur.items()):
        rstm = ref.get(fkey)
        if rstm is None or fkey.startswith("::"):
            continue  # new function: nothing to compare with
        relpath, qn = fkey.split("::", 1)
        groups: Dict[Tuple[str, str], List[str]] = {}
        for skey, atoms in stmts.items():
            if skey not in rstm:
                continue
            compared += 1
            r.instances += 1
            have = {json.dumps(a, sort_keys=True) for a in atoms}
            want = {json.dumps(a, sort_keys=True) for a in rstm[skey]}
            added = sorted(have - want)
            dropped = sorted(want - have)
            fr = (ref.get("::conds") or {}).get(fkey, {}).get(skey)
            fc = CONDS.get(fkey, {}).get(skey)
            if (added or dropped) and fr is not None and fc is not None:
                # decide by implication between the two path conditions: a re-spelled guard (De Morgan, a conjunct factored into an outer `if`,
                # guard clauses instead of nesting) is the same condition; only a strictly stronger / strictly weaker one is reported
                r2c, c2r = implies(fr, fc), implies(fc, fr)
                if r2c is not None and c2r is not None and not (r2c and c2r):
                    # the same statement may stand at several places (one per direction / address family): merging or splitting such copies keeps
                    # the union of their conditions — compare that before calling one copy's condition changed
                    text0 = skey.rsplit("#", 1)[0]
                    ur = ["or"] + [v for k2, v in (ref.get("::conds") or {}).get(fkey, {}).items() if k2.rsplit("#", 1)[0] == text0]
                    uc = ["or"] + [v for k2, v in CONDS.get(fkey, {}).items() if k2.rsplit("#", 1)[0] == text0 and k2 in stmts]
                    if len(ur) != len(uc) and implies(ur, uc) and implies(uc, ur):
                        r2c = c2r = True
                if r2c is not None and c2r is not None:
                    if r2c and c2r:
                        added, dropped = [], []
                    elif c2r and not r2c:
                        dropped = []
                        added = added or ["[[], \"stronger\", true]"]
                    elif r2c and not c2r:
                        added = []
                        dropped = dropped or ["[[], \"weaker\", true]"]
                    else:
                        added, dropped = added or ["x"], dropped or ["x"]  # re-written test: left to the specific rules
            if added and not dropped:
                groups.setdefault(("new-condition", "; ".join(_fmt(json.loads(a)) for a in added)), []).append(skey)
            elif dropped and not added:
                groups.setdefault(("dropped-condition", "; ".join(_fmt(json.loads(a)) for a in dropped)), []).append(skey)
            else:
                r.ob(True)
        for (kind, g), skeys in sorted(groups.items()):
            texts = [k.rsplit("#", 1)[0] for k in skeys]
            line = LINES.get((fkey, skeys[0]), 0)
            shown = "`, `".join(t[:70] for t in texts[:3]) + (f"` and {len(texts) - 3} more" if len(texts) > 3 else "`")
            if kind == "new-condition":
                msg = (f"{qn}: `{shown} now also depend{'s' if len(texts) == 1 else ''} on [{g}] — a new early return / continue / guard stands between the entry of the "
                       f"function and {'this effect' if len(texts) == 1 else 'these effects'}; inputs for which the new condition fails no longer get "
                       f"{'it' if len(texts) == 1 else 'them'}")
            else:
                msg = f"{qn}: `{shown} no longer depend{'s' if len(texts) == 1 else ''} on [{g}] — a guard of {'this effect' if len(texts) == 1 else 'these effects'} was removed"
            for _ in skeys:
                r.ob(False, Finding("GI", f"{fkey}:{kind}:{_short(g)}", msg, f"{relpath}:{line}"))
    r.sample({"effect_statements_compared": compared, "functions": len(cur)})
    floor = 150 if rel is None else 1
    if compared < floor:
        raise AnalysisError(f"GI: only {compared} effect statements could be matched with the reference inventory (floor {floor}) — regenerate vt/ref_guards.json or anchor drift")
    return r


# ------------------------------------------------------------------ WSI: write-site inventory of state attributes
def _writes_of(f: Func, cg: CallGraph) -> Set[str]:
    """State attributes the function writes itself: `<recv>.A = …`, `<recv>.A[...] = …`, `<recv>.A <op>= …`, `<recv>.A.mutator(…)`, `del <recv>.A[...]`;
    receiver `self` is keyed by the class, any other receiver by its attribute name alone."""
    out: Set[str] = set()
    own = f.cls.name if f.cls is not None else None

    def key(t: ast.AST) -> Optional[str]:
        while isinstance(t, ast.Subscript):
            t = t.value
        if isinstance(t, ast.Attribute):
            base = dotted(t.value)
            if base == "self" and own:
                return f"{own}.{t.attr}"
            if base is not None and base != "self":
                return f"*.{t.attr}"
        return None
    for n in body_walk(f.node):
        tg: List[ast.AST] = []
        if isinstance(n, ast.Assign):
            for t in n.targets:
                tg.extend(t.elts if isinstance(t, (ast.Tuple, ast.List)) else [t])
        elif isinstance(n, (ast.AugAssign, ast.AnnAssign)):
            if not (isinstance(n, ast.AnnAssign) and n.value is None):
                tg.append(n.target)
        elif isinstance(n, ast.Delete):
            tg.extend(n.targets)
        elif isinstance(n, ast.Call) and isinstance(n.func, ast.Attribute) and n.func.attr in MUT and n.func.attr not in ("writepkt", "write"):
            tg.append(n.func.value)
        for t in tg:
            k = key(t)
            if k:
                out.add(k)
    return out


def write_inventory(tree: Tree) -> Dict[str, List[str]]:
    """{func key: sorted transitive write set} — own writes plus those of every resolved repo callee (closure over the call graph), so that
    extracting a helper or inlining one does not change the set of its callers."""
    cg = CallGraph.of(tree)
    funcs = [f for f in tree.all_funcs() if f.module.short not in SKIP_MODULES]
    own = {f: _writes_of(f, cg) for f in funcs}
    trans = {f: set(w) for f, w in own.items()}
    changed = True
    while changed:
        changed = False
        for f in funcs:
            for c in cg.callees(f):
                add = trans.get(c, set()) - trans[f]
                if add:
                    trans[f] |= add
                    changed = True
    return {f"{f.module.relpath}::{f.qualname}": sorted(trans[f]) for f in funcs}


def rule_WSI(tree: Tree, scope: Optional[List[Tuple[str, Optional[str]]]] = None) -> RuleResult:
    import re
    r = RuleResult("WSI", "write-site inventory: an existing function (with everything it calls) writes no state attribute of the reference tree that it did not write there — "
                          "state is not reset, advanced or overwritten from a new place")
    ref = _ref().get("::writes")
    if ref is None:
        raise AnalysisError("vt/ref_guards.json has no write inventory (regenerate with `python3 -m vt.canon /repo`)")
    known_attrs = {a for ws in ref.values() for a in ws}
    # an attribute that the reference tree only *reads* (configuration, input fields) and that is now assigned is state written from a new place too
    from ..canon import _ref as _names_ref
    ref_attr_names = set(_names_ref().get("::attribute-names", []))
    cur = write_inventory(tree)
    n = 0
    for fkey, ws in sorted(cur.items()):
        if fkey not in ref:
            continue
        relpath, qn = fkey.split("::", 1)
        if scope is not None and not any(f == relpath and (rx is None or re.fullmatch(rx, qn.split(".")[-1])) for f, rx in scope):
            continue
        n += 1
        r.instances += 1
        new = [a for a in ws if a not in ref[fkey] and (a in known_attrs or a.split(".")[-1] in ref_attr_names)]
        r.ob(not new, Finding("WSI", f"{fkey}:new-writes:{','.join(new)}",
                              f"{qn} now writes {new}, state that this function (and everything it calls) did not touch in the reference tree: the attribute is "
                              f"reset / advanced / overwritten from a new place", relpath))
    if n < (100 if scope is None else 1):
        raise AnalysisError(f"WSI: only {n} functions matched the reference write inventory")
    return r


def _short(text: str) -> str:
    import hashlib
    return (text[:40] + ":" + hashlib.sha1(text.encode()).hexdigest()[:6]).replace(" ", "_")


if __name__ == "__main__":
    import sys
    ref = build_reference(sys.argv[1] if len(sys.argv) > 1 else "/repo")
    with open(REF_PATH, "w") as fh:
        json.dump(ref, fh, indent=0, sort_keys=True)
    print(sum(len(v) for k, v in ref.items() if not k.startswith("::")), "effect statements in", len(ref) - 1, "functions")


# ------------------------------------------------------------------ STALE: a value read once before a loop although the loop changes it
def rule_STALE(tree: Tree, scope: Optional[List[Tuple[str, Optional[str]]]] = None) -> RuleResult:
    """A local bound once, before a loop, to a plain attribute read (`v = self.a.b`) and used inside the loop is the value of *that moment*; when the
    loop body — with everything it calls — assigns that attribute, later iterations work with a stale copy. (Hoisting a read out of a loop is only
    an optimisation when the loop does not write the location.)  Also: lazily initialised attribute caches (`if x.c is None: x.c = f(x.a, x.b)`) whose
    sources are mutated elsewhere."""
    import re
    r = RuleResult("STALE", "no attribute value is cached across a loop (or in a lazily initialised attribute) while the code it spans changes the attribute it was read from")
    cg = CallGraph.of(tree)
    funcs = [f for f in tree.all_funcs() if f.module.short not in SKIP_MODULES]
    own = {f: _writes_of(f, cg) for f in funcs}
    trans = {f: set(w) for f, w in own.items()}
    changed = True
    while changed:
        changed = False
        for f in funcs:
            for c in cg.callees(f):
                add = trans.get(c, set()) - trans[f]
                if add:
                    trans[f] |= add
                    changed = True

    def owner_key(f: Func, chain: str) -> Optional[str]:
        parts = chain.split(".")
        if parts[0] != "self" or f.cls is None or len(parts) < 2:
            return f"*.{parts[-1]}" if len(parts) >= 2 else None
        c = f.cls
        for a in parts[1:-1]:
            t = cg.attr_type(c, a)
            if t is None or isinstance(t, tuple):
                return f"*.{parts[-1]}"
            c = t
        return f"{c.name}.{parts[-1]}"

    n_loops = 0
    for f in funcs:
        relpath, qn = f.module.relpath, f.qualname
        if scope is not None and not any(ff == relpath and (rx is None or re.fullmatch(rx, qn.split(".")[-1])) for ff, rx in scope):
            continue
        cfg = cfg_of(f.node)
        assigns: Dict[str, List[ast.Assign]] = {}
        for n in body_walk(f.node):
            if isinstance(n, ast.Assign) and len(n.targets) == 1 and isinstance(n.targets[0], ast.Name):
                assigns.setdefault(n.targets[0].id, []).append(n)
            elif isinstance(n, (ast.AugAssign, ast.For)) :
                t = n.target
                for x in ast.walk(t):
                    if isinstance(x, ast.Name):
                        assigns.setdefault(x.id, []).append(None)  # type: ignore[arg-type]
        for loop in [n for n in body_walk(f.node) if isinstance(n, (ast.For, ast.While))]:
            n_loops += 1
            r.instances += 1
            body_nodes = [x for st in loop.body for x in ast.walk(st)]
            header = cfg.node_of(loop)
            # what the loop body writes, directly and through calls — only writes after which another iteration can still run
            wr: Set[str] = set()
            direct: Set[str] = set()
            for x in body_nodes:
                if isinstance(x, ast.Call):
                    cs = cg.site(x)
                    if cs is not None and cs.callees:
                        try:
                            again = cfg.paths_exist(cfg.node_of(x), header)
                        except Exception:
                            again = True
                        if again:
                            for c in cs.callees:
                                wr |= trans.get(c, set())
                tg = []
                if isinstance(x, ast.Assign):
                    tg = list(x.targets)
                elif isinstance(x, ast.AugAssign):
                    tg = [x.target]
                for t in tg:
                    while isinstance(t, ast.Subscript):
                        t = t.value
                    if isinstance(t, ast.Attribute) and dotted(t):
                        direct.add(dotted(t))
            bad = []
            for v, defs in assigns.items():
                if len(defs) != 1 or defs[0] is None:
                    continue
                a = defs[0]
                chain = dotted(a.value)
                if chain is None or "." not in chain:
                    continue
                if any(a is x for x in body_nodes):
                    continue
                try:
                    if not cfg.dominates(cfg.node_of(a), header):
                        continue
                except Exception:
                    continue
                if not any(isinstance(x, ast.Name) and x.id == v and isinstance(x.ctx, ast.Load) for x in body_nodes):
                    continue
                k = owner_key(f, chain)
                hit = chain in direct or (k is not None and not k.startswith("*.") and k in wr)
                if hit:
                    bad.append((v, chain, a))
            for v, chain, a in bad:
                r.ob(False, Finding("STALE", f"{f.key}:hoisted-read:{chain}",
                                    f"{f.qualname}: `{v} = {chain}` is read once before the loop at line {getattr(loop, 'lineno', 0)} and used inside it, but the loop body (through what it "
                                    f"calls) assigns `{chain.split('.')[-1]}`: iterations after the change still use the old value", f.module.line(a)))
            if not bad:
                r.ob(True)
        # lazily initialised caches
        for n in body_walk(f.node):
            if isinstance(n, ast.If) and isinstance(n.test, ast.Compare) and len(n.test.ops) == 1 and isinstance(n.test.ops[0], ast.Is) \
                    and isinstance(n.test.comparators[0], ast.Constant) and n.test.comparators[0].value is None and isinstance(n.test.left, ast.Attribute):
                tgt = dotted(n.test.left)
                for st in n.body:
                    if isinstance(st, ast.Assign) and dotted(st.targets[0]) == tgt:
                        base = tgt.rsplit(".", 1)[0]
                        srcs = {dotted(x) for x in ast.walk(st.value) if isinstance(x, ast.Attribute) and (dotted(x) or "").startswith(base + ".")}
                        srcs.discard(tgt)
                        stale = []
                        for sname in sorted(x for x in srcs if x):
                            attr = sname.split(".")[-1]
                            writers = [g.qualname for g in funcs if g.name != "__init__" and any(w.endswith("." + attr) for w in own[g])]
                            if writers:
                                stale.append((sname, writers[:3]))
                        r.instances += 1
                        r.ob(not stale, Finding("STALE", f"{f.key}:lazy-cache:{tgt}",
                                                f"{f.qualname}: `{src(st, 80)}` is computed once (guarded by `{tgt} is None`) from {[s for s, _ in stale]}, which "
                                                f"{[w for _, w in stale][:1]} keep changing afterwards: the cached value goes stale", f.module.line(st)))
    if n_loops < (40 if scope is None else 1):
        raise AnalysisError(f"STALE: only {n_loops} loops analysed")
    return r


# ------------------------------------------------------------------ LDI: local definition inventory
def _local_defs(f: Func) -> Dict[str, int]:
    out: Dict[str, int] = {p: 0 for p in f.params if p not in ("self", "cls")}  # a parameter that gets re-bound counts as an additional definition

    def add(t: ast.AST):
        for x in ast.walk(t):
            if isinstance(x, ast.Name) and isinstance(x.ctx, ast.Store):
                out[x.id] = out.get(x.id, 0) + 1
    for n in body_walk(f.node):
        if isinstance(n, ast.Assign):
            for t in n.targets:
                if isinstance(t, (ast.Name, ast.Tuple, ast.List)):
                    add(t)
        elif isinstance(n, (ast.AugAssign, ast.AnnAssign)):
            if isinstance(n.target, ast.Name) and not (isinstance(n, ast.AnnAssign) and n.value is None):
                add(n.target)
        elif isinstance(n, (ast.For, ast.comprehension)):
            add(n.target)
        elif isinstance(n, ast.withitem) and n.optional_vars is not None:
            add(n.optional_vars)
        elif isinstance(n, ast.NamedExpr):
            add(n.target)
    return out


def defs_inventory(tree: Tree) -> Dict[str, Dict[str, int]]:
    return {f"{f.module.relpath}::{f.qualname}": _local_defs(f) for f in tree.all_funcs() if f.module.short not in SKIP_MODULES}


def rule_LDI(tree: Tree, scope: Optional[List[Tuple[str, Optional[str]]]] = None) -> RuleResult:
    import re
    r = RuleResult("LDI", "local definition inventory: no local of the reference tree is assigned at an additional place — a value is not transformed by an inserted "
                          "re-definition between where it is computed and where it is used")
    ref = _ref().get("::defs")
    if ref is None:
        raise AnalysisError("vt/ref_guards.json has no definition inventory (regenerate with `python3 -m vt.canon /repo`)")
    cur = defs_inventory(tree)
    n = 0
    for fkey, defs in sorted(cur.items()):
        if fkey not in ref:
            continue
        relpath, qn = fkey.split("::", 1)
        if scope is not None and not any(f == relpath and (rx is None or re.fullmatch(rx, qn.split(".")[-1])) for f, rx in scope):
            continue
        n += 1
        r.instances += 1
        more = sorted(v for v, k in defs.items() if v in ref[fkey] and k > ref[fkey][v])
        r.ob(not more, Finding("LDI", f"{fkey}:redefined:{','.join(more)}",
                               f"{qn}: local{'s' if len(more) != 1 else ''} {more} {'are' if len(more) != 1 else 'is'} assigned at more places than in the reference tree: an inserted "
                               f"re-definition changes the value that the following statements (state updates, returns, output) work with", relpath))
    if n < (100 if scope is None else 1):
        raise AnalysisError(f"LDI: only {n} functions matched the reference definition inventory")
    return r


# ------------------------------------------------------------------ LSI: log statements stay total
def _log_lookups(f: Func) -> List[str]:
    out = []
    for c in body_walk(f.node):
        if isinstance(c, ast.Call) and _is_logging(c):
            for a in list(c.args) + [k.value for k in c.keywords]:
                for x in ast.walk(a):
                    if isinstance(x, ast.Subscript) and not isinstance(x.slice, ast.Slice) and isinstance(x.ctx, ast.Load):
                        out.append(" ".join(src(x, 120).split()))
                    elif isinstance(x, ast.Call) and dotted(x.func) in ("next", "int", "float", "max", "min"):
                        out.append(" ".join(src(x, 120).split()))
                    elif isinstance(x, ast.Call) and isinstance(x.func, ast.Attribute) and x.func.attr in ("decode", "encode", "fromhex", "index", "to_bytes") \
                            and not any(k.arg == "errors" for k in x.keywords):
                        out.append(" ".join(src(x, 120).split()))  # partial conversions: raise on input they cannot represent
    return sorted(out)


def log_inventory(tree: Tree) -> Dict[str, List[str]]:
    return {f"{f.module.relpath}::{f.qualname}": _log_lookups(f) for f in tree.all_funcs() if f.module.short not in SKIP_MODULES}


def rule_LSI(tree: Tree, scope: Optional[List[Tuple[str, Optional[str]]]] = None) -> RuleResult:
    import re
    r = RuleResult("LSI", "log statements stay total: no log call of an existing function evaluates an index / key lookup or a partial conversion that the reference tree "
                          "did not evaluate there — a log line that raises skips the statements after it")
    ref = _ref().get("::logs")
    if ref is None:
        raise AnalysisError("vt/ref_guards.json has no log inventory (regenerate with `python3 -m vt.canon /repo`)")
    cur = log_inventory(tree)
    n = 0
    for fkey, items in sorted(cur.items()):
        if fkey not in ref:
            continue
        relpath, qn = fkey.split("::", 1)
        if scope is not None and not any(f == relpath and (rx is None or re.fullmatch(rx, qn.split(".")[-1])) for f, rx in scope):
            continue
        n += 1
        r.instances += 1
        have = list(ref[fkey])
        new = []
        for it in items:
            if it in have:
                have.remove(it)
            else:
                new.append(it)
        r.ob(not new, Finding("LSI", f"{fkey}:log-lookup:{_short(';'.join(new))}",
                              f"{qn}: a log call now evaluates {new[:2]} — a lookup / conversion that can raise (KeyError, IndexError, TypeError, ValueError); the exception "
                              f"leaves the function at the log line and skips what follows it (state updates, the -a append of the record)", relpath))
    if n < (100 if scope is None else 1):
        raise AnalysisError(f"LSI: only {n} functions matched the reference log inventory")
    return r


# ------------------------------------------------------------------ HI: handler inventory
def _catch_all_count(f: Func, tree: Tree, ref_funcs: Set[str], cg: CallGraph, seen: Optional[Set[str]] = None) -> int:
    """catch-all handlers (`except:`, `except Exception`, `except BaseException`) that do not re-raise, in f and in the functions f calls that
    the reference tree does not have (an extracted helper keeps the count)."""
    from ..cfg import handler_catches_all, handler_reraises
    seen = seen if seen is not None else set()
    key = f"{f.module.relpath}::{f.qualname}"
    if key in seen:
        return 0
    seen.add(key)
    n = sum(1 for t in body_walk(f.node) if isinstance(t, ast.Try) for h in t.handlers if handler_catches_all(h) and not handler_reraises(h))
    for cs in cg.sites.get(f, []):
        for callee in cs.callees or []:
            ck = f"{callee.module.relpath}::{callee.qualname}"
            if ck not in ref_funcs:
                n += _catch_all_count(callee, tree, ref_funcs, cg, seen)
    return n


def handler_inventory(tree: Tree, ref_funcs: Optional[Set[str]] = None) -> Dict[str, int]:
    cg = CallGraph.of(tree)
    allk = {f"{f.module.relpath}::{f.qualname}" for f in tree.all_funcs()}
    rf = ref_funcs if ref_funcs is not None else allk
    return {f"{f.module.relpath}::{f.qualname}": _catch_all_count(f, tree, rf, cg) for f in tree.all_funcs() if f.module.short not in SKIP_MODULES}


def rule_HI(tree: Tree, scope: Optional[List[Tuple[str, Optional[str]]]] = None) -> RuleResult:
    import re
    r = RuleResult("HI", "handler inventory: no catch-all exception handler of an existing function was narrowed to named exception types, removed, or made to "
                         "re-raise — the exceptions it no longer absorbs travel to an outer handler and skip the statements in between (state updates, clean-up, the rest of a batch)")
    ref = _ref().get("::handlers")
    if ref is None:
        raise AnalysisError("vt/ref_guards.json has no handler inventory (regenerate with `python3 -m vt.canon /repo`)")
    cur = handler_inventory(tree, set(ref))
    n = 0
    for fkey, cnt in sorted(cur.items()):
        if fkey not in ref or not ref[fkey]:
            continue
        relpath, qn = fkey.split("::", 1)
        if scope is not None and not any(f == relpath and (rx is None or re.fullmatch(rx, qn.split(".")[-1])) for f, rx in scope):
            continue
        n += 1
        r.instances += 1
        r.ob(cnt >= ref[fkey], Finding("HI", f"{fkey}:catch-all-handlers",
                                       f"{qn}: {ref[fkey]} catch-all handler{'s' if ref[fkey] != 1 else ''} in the reference tree, {cnt} now (narrowed to named types, removed or re-raising): "
                                       f"a fault the handler used to absorb at this point now leaves the function and skips what follows the call in its callers", relpath))
    r.floor = 0
    return r

"""C17 — QUIC frame registry and layouts (T8) by symbolic cursor; varint decoder shape."""
from __future__ import annotations

import ast
from typing import Any, Dict, List, Optional, Set, Tuple

from ..core import Tree, Func, Class, dotted, src, AnalysisError, AnchorMissing, body_walk
from ..framework import Finding, RuleResult
from ..norm import try_fold, strip_stmts
from ..callgraph import CallGraph
from .pkn import nf, _fmt, _as_sum, _sum

QF = "quic.quic_frame"
VL = "get_variable_length_int_length"
DEC = "decode_variable_length_int"


class Path:
    def __init__(self):
        self.env: Dict[str, Any] = {}
        self.reads: List[dict] = []
        self.conds: List[Tuple[str, bool]] = []
        self.done = False
        self.problems: List[str] = []

    def fork(self) -> "Path":
        p = Path()
        p.env = dict(self.env)
        p.reads = [dict(r) for r in self.reads]
        p.conds = list(self.conds)
        p.done = self.done
        p.problems = list(self.problems)
        return p


class FrameEval:
    """Syntax-directed walk of a frame constructor with a symbolic cursor (linear forms over VL@pos / VAL@pos / BYTE@pos / END)."""

    def __init__(self, payload: str, class_length: Optional[int]):
        self.p = payload
        self.class_length = class_length

    def run(self, fn: ast.FunctionDef) -> List[Path]:
        start = Path()
        if self.class_length is not None:
            start.env["self.length"] = ("c", self.class_length)
        paths = self.block(fn.body, [start], repeated=False)
        return paths

    def block(self, stmts, paths: List[Path], repeated: bool) -> List[Path]:
        for st in stmts:
            nxt: List[Path] = []
            for p in paths:
                if p.done:
                    nxt.append(p)
                    continue
                nxt.extend(self.stmt(st, p, repeated))
            paths = nxt
            if len(paths) > 64:
                raise AnalysisError("frame constructor has too many paths")
        return paths

    def ev(self, e: ast.AST, p: Path, target: Optional[str], repeated: bool):
        pl = self.p
        if isinstance(e, ast.Call):
            fn = (dotted(e.func) or "").split(".")[-1]
            if fn in (VL, DEC) and e.args and isinstance(e.args[0], ast.Subscript) and dotted(e.args[0].value) == pl and isinstance(e.args[0].slice, ast.Slice):
                sl = e.args[0].slice
                A = self.ev(sl.lower, p, None, repeated) if sl.lower is not None else ("c", 0)
                B = self.ev(sl.upper, p, None, repeated) if sl.upper is not None else ("s", "END")
                if fn == VL:
                    p.reads.append({"kind": "vl", "A": A, "B": B, "name": target, "rep": repeated})
                    return ("s", f"VL@{_fmt(A)}")
                p.reads.append({"kind": "dec", "A": A, "B": B, "name": target, "rep": repeated})
                return ("s", f"VAL@{_fmt(A)}")
            if fn == "len" and e.args and dotted(e.args[0]) == pl:
                return ("s", "END")
            if fn == "bool" and e.args:
                return ("opaque", src(e, 40))
            if fn == "enumerate":
                return ("opaque", "enumerate")
            return ("opaque", src(e, 40))
        if isinstance(e, ast.Subscript) and dotted(e.value) == pl:
            if isinstance(e.slice, ast.Slice):
                A = self.ev(e.slice.lower, p, None, repeated) if e.slice.lower is not None else ("c", 0)
                B = self.ev(e.slice.upper, p, None, repeated) if e.slice.upper is not None else ("s", "END")
                p.reads.append({"kind": "slice", "A": A, "B": B, "name": target, "rep": repeated})
                return ("opaque", f"bytes[{_fmt(A)}:{_fmt(B)}]")
            A = self.ev(e.slice, p, None, repeated)
            if A == ("c", 0):
                return ("s", "TYPE")
            p.reads.append({"kind": "byte", "A": A, "B": None, "name": target, "rep": repeated})
            return ("s", f"BYTE@{_fmt(A)}")
        if isinstance(e, (ast.BinOp, ast.UnaryOp)):
            # evaluate leaves through self.ev so that reads are recorded, then normalise
            class Sub(ast.NodeTransformer):
                def __init__(s2):
                    s2.k = 0
                    s2.env = {}

                def visit_Call(s2, node):
                    v = self.ev(node, p, None, repeated)
                    s2.k += 1
                    nm = f"__t{s2.k}"
                    s2.env[nm] = v
                    return ast.Name(nm, ast.Load())

                def visit_Subscript(s2, node):
                    v = self.ev(node, p, None, repeated)
                    s2.k += 1
                    nm = f"__t{s2.k}"
                    s2.env[nm] = v
                    return ast.Name(nm, ast.Load())
            from ..core import clone
            sub = Sub()
            e2 = sub.visit(clone(e))
            env = dict(p.env)
            env.update(sub.env)
            return nf(e2, env)
        d = dotted(e)
        if d is not None:
            if d in p.env:
                return p.env[d]
            return ("s", d)
        if isinstance(e, ast.Constant) and isinstance(e.value, (int, bool)):
            return ("c", int(e.value))
        return ("opaque", src(e, 40))

    def stmt(self, st: ast.stmt, p: Path, repeated: bool) -> List[Path]:
        if isinstance(st, ast.Expr):
            return [p]  # super().__init__ etc.
        if isinstance(st, ast.Assign) and len(st.targets) == 1:
            tgt = dotted(st.targets[0])
            v = self.ev(st.value, p, tgt, repeated)
            if tgt:
                p.env[tgt] = v
            return [p]
        if isinstance(st, ast.AugAssign) and isinstance(st.op, ast.Add):
            tgt = dotted(st.target)
            inc = self.ev(st.value, p, None, repeated)
            cur = p.env.get(tgt)
            if cur is None or cur[0] == "opaque" or inc[0] == "opaque":
                p.problems.append(f"`{src(st, 60)}`: cursor not analysable")
                p.env[tgt] = ("opaque", "?")
                return [p]
            c1, t1 = _as_sum(cur)
            c2, t2 = _as_sum(inc)
            for k, v in t2.items():
                t1[k] = t1.get(k, 0) + v
            p.env[tgt] = _sum(c1 + c2, t1)
            return [p]
        if isinstance(st, ast.If):
            a, b = p.fork(), p.fork()
            label = src(st.test, 60)
            a.conds.append((label, True))
            b.conds.append((label, False))
            return self.block(st.body, [a], repeated) + self.block(st.orelse, [b], repeated)
        if isinstance(st, ast.For):
            it = st.iter
            if isinstance(it, ast.Call) and dotted(it.func) == "range":
                skip = p.fork()
                skip.conds.append((f"loop {src(it, 40)}", False))
                once = p.fork()
                once.conds.append((f"loop {src(it, 40)}", True))
                return [skip] + self.block(st.body, [once], True)
            if isinstance(it, ast.Call) and dotted(it.func) == "enumerate":
                # PaddingFrame scan: handled by the progress rule; layout = run of zero bytes
                scan = p.fork()
                scan.conds.append(("padding-scan", True))
                scan.env["self.length"] = ("s", "PADRUN")
                scan.done = True
                return [scan]
            p.problems.append(f"unrecognised loop `{src(st, 50)}`")
            return [p]
        if isinstance(st, ast.Return):
            p.done = True
            return [p]
        if isinstance(st, (ast.Pass, ast.AnnAssign)):
            return [p]
        p.problems.append(f"unrecognised statement `{src(st, 50)}`")
        return [p]


def layout_of(path: Path) -> Tuple[List[Tuple], List[str]]:
    """Turn the read log of one path into a field list and contiguity problems."""
    problems = list(path.problems)
    fields: List[Tuple] = []
    pos = ("c", 1)
    reads = path.reads
    i = 0
    pending_vl = None
    while i < len(reads):
        r = reads[i]
        if r["kind"] == "vl":
            A, B = r["A"], r["B"]
            if A != pos:
                problems.append(f"varint length read at {_fmt(A)} but the cursor is at {_fmt(pos)}")
            if nf_add(A, 1) != B:
                problems.append(f"varint length read from [{_fmt(A)}:{_fmt(B)}], expected one byte at the cursor")
            pending_vl = A
            # must be followed by the decode of the same varint
            if i + 1 < len(reads) and reads[i + 1]["kind"] == "dec":
                d = reads[i + 1]
                endv = nf_add_sym(A, f"VL@{_fmt(A)}")
                if d["A"] != A or d["B"] != endv:
                    problems.append(f"varint `{d['name']}` decoded from [{_fmt(d['A'])}:{_fmt(d['B'])}], expected [{_fmt(A)}:{_fmt(endv)}]")
                fields.append(("varint", d["name"], r["rep"]))
                pos = endv
                i += 2
                continue
            problems.append(f"varint length at {_fmt(A)} is not followed by its decode")
            pos = nf_add_sym(A, f"VL@{_fmt(A)}")
            fields.append(("varint", None, r["rep"]))
            i += 1
            continue
        if r["kind"] == "dec":
            problems.append(f"varint `{r['name']}` decoded without a preceding length read at the cursor")
            i += 1
            continue
        if r["kind"] == "byte":
            if r["A"] != pos:
                problems.append(f"byte `{r['name']}` read at {_fmt(r['A'])} but the cursor is at {_fmt(pos)}")
            fields.append(("byte", r["name"], r["rep"]))
            pos = nf_add(r["A"], 1)
            i += 1
            continue
        if r["kind"] == "slice":
            if r["A"] != pos:
                problems.append(f"data `{r['name']}` read from {_fmt(r['A'])} but the cursor is at {_fmt(pos)}")
            width = nf(ast.parse("B - A", mode="eval").body, {"A": r["A"], "B": r["B"]})
            fields.append(("bytes", r["name"], _fmt(width), r["rep"]))
            pos = r["B"]
            i += 1
            continue
        i += 1
    final = path.env.get("self.length")
    if final is None:
        problems.append("frame length never set")
    elif final != pos and not (final == ("s", "PADRUN")):
        problems.append(f"frame length is {_fmt(final)} but the fields end at {_fmt(pos)}")
    return fields, problems


def nf_add(a, k: int):
    c, t = _as_sum(a)
    return _sum(c + k, t)


def nf_add_sym(a, name: str):
    c, t = _as_sum(a)
    t[("s", name)] = t.get(("s", name), 0) + 1
    return _sum(c, t)


def V(name, rep=False):
    return ("varint", name, rep)


# RFC 9000 §19 / RFC 9221 §4 layouts: class -> function(conds dict) -> expected field list (after the type byte)
def expected_layout(cls: str, c: Dict[str, bool]) -> Optional[List[Tuple]]:
    def val(start):
        return f"VAL@{start}"
    if cls == "PingFrame" or cls == "HandshakeDoneFrame":
        return []
    if cls == "AckFrame":
        out = [V("self.largest_acknowledged"), V("self.ack_delay"), V("self.range_count"), V("self.first_ack_range")]
        if c.get("loop range(0, self.range_count)"):
            out += [V("gap", True), V("ack_range_length", True)]
        if c.get("self.frame_type == 3"):
            out += [V("self.ect_0_count"), V("self.ect_1_count"), V("self.ect_ce_count")]
        return out
    if cls == "ResetStreamFrame":
        return [V("self.stream_id"), V("self.application_protocol_error_code"), V("self.final_size")]
    if cls == "StopSendingFrame":
        return [V("self.stream_id"), V("self.application_protocol_error_code")]
    if cls == "CryptoFrame":
        return [V("self.offset"), V("self.crypto_length"), ("bytes", "self.crypto", "LEN:self.crypto_length", False)]
    if cls == "NewTokenFrame":
        return [V("self.token_length"), ("bytes", "self.token", "LEN:self.token_length", False)]
    if cls == "StreamFrame":
        out = [V("self.stream_id")]
        if c.get("self.off"):
            out.append(V("self.offset"))
        if c.get("self.len"):
            out += [V("self.data_length"), ("bytes", "self.stream_data", "LEN:self.data_length", False)]
        else:
            out += [("bytes", "self.stream_data", "REST", False)]
        return out
    if cls in ("MaxDataFrame", "DataBlockedFrame"):
        return [V("self.maximum_data")]
    if cls in ("MaxStreamDataFrame", "StreamDataBlockedFrame"):
        return [V("self.stream_id"), V("self.maximum_stream_data")]
    if cls in ("MaxStreamsFrame", "StreamsBlockedFrame"):
        return [V("self.maximum_streams")]
    if cls == "NewConnectionIdFrame":
        return [V("self.sequence_number"), V("self.retire_prior_to"), ("byte", "self.connection_id_length", False),
                ("bytes", "self.connection_id", "LENB:self.connection_id_length", False), ("bytes", "self.stateless_reset_token", "0x10", False)]
    if cls == "RetireConnectionIdFrame":
        return [V("self.sequence_number")]
    if cls in ("PathChallengeFrame", "PathResponseFrame"):
        return [("bytes", "self.data", "8", False)]
    if cls == "ConnectionCloseFrame":
        out = [V("self.error_code")]
        if c.get("self.frame_type == 28"):
            out.append(V("self.close_frame_type"))
        out += [V("self.reason_phrase_length"), ("bytes", "self.reason_phrase", "LEN:self.reason_phrase_length", False)]
        return out
    if cls == "DatagramFrame":
        if c.get("self.len_bit"):
            return [V("payload_length"), ("bytes", "self.payload", "LEN:payload_length", False)]
        return [("bytes", "self.payload", "REST", False)]
    return None


RFC_TYPES = {
    "PaddingFrame": {0x00}, "PingFrame": {0x01}, "AckFrame": {0x02, 0x03}, "ResetStreamFrame": {0x04}, "StopSendingFrame": {0x05}, "CryptoFrame": {0x06},
    "NewTokenFrame": {0x07}, "StreamFrame": set(range(0x08, 0x10)), "MaxDataFrame": {0x10}, "MaxStreamDataFrame": {0x11}, "MaxStreamsFrame": {0x12, 0x13},
    "DataBlockedFrame": {0x14}, "StreamDataBlockedFrame": {0x15}, "StreamsBlockedFrame": {0x16, 0x17}, "NewConnectionIdFrame": {0x18},
    "RetireConnectionIdFrame": {0x19}, "PathChallengeFrame": {0x1a}, "PathResponseFrame": {0x1b}, "ConnectionCloseFrame": {0x1c, 0x1d},
    "HandshakeDoneFrame": {0x1e}, "DatagramFrame": {0x30, 0x31},
}


def rule_T8(tree: Tree) -> RuleResult:
    r = RuleResult("T8", "frame registry covers RFC 9000 §19 / RFC 9221 types disjointly; each class reads its fields contiguously at the cursor in the RFC layout; frame length = end of last field")
    m = tree.module(QF)
    reg = m.assigns.get("frame_type")
    if not isinstance(reg, ast.Dict):
        raise AnchorMissing("frame_type registry not found")
    seen: Dict[int, str] = {}
    cls_types: Dict[str, Set[int]] = {}
    for k, v in zip(reg.keys, reg.values):
        ks = try_fold(k)
        cn = dotted(v)
        r.instances += 1
        ok = isinstance(ks, tuple) and all(isinstance(x, int) for x in ks) and cn in m.classes
        dup = [x for x in (ks or ()) if x in seen] if isinstance(ks, tuple) else []
        r.ob(ok and not dup, Finding("T8", f"{QF}:frame_type:key:{cn}", f"registry key {ks!r} → {cn}: keys must be tuples of type codes mapped to a frame class, each code once (duplicates {dup})", m.line(k)))
        if ok:
            for x in ks:
                seen[x] = cn
            cls_types.setdefault(cn, set()).update(ks)
    for cn, want in RFC_TYPES.items():
        r.instances += 1
        r.ob(cls_types.get(cn) == want, Finding("T8", f"{QF}:frame_type:types:{cn}", f"{cn} must be registered for types {sorted(hex(x) for x in want)}, found {sorted(hex(x) for x in cls_types.get(cn, []))}", m.relpath))
    # the type a frame object reports: a class registered for one code carries it as a class constant equal to that code; a class registered for several codes
    # takes it from the wire (`self.frame_type = payload[0]`) — a class constant there reports the same type for all of them
    for cn, want in RFC_TYPES.items():
        c = tree.cls(QF, cn) if cn in {k.name for k in m.classes.values()} else None
        if c is None:
            continue
        r.instances += 1
        consts = [try_fold(s2.value) for s2 in c.node.body if isinstance(s2, ast.Assign) and dotted(s2.targets[0]) == "frame_type"]
        init = c.methods.get("__init__")
        inst = [src(s2.value) for s2 in body_walk(init.node) if isinstance(s2, ast.Assign) and dotted(s2.targets[0]) == "self.frame_type"] if init else []
        if len(want) == 1:
            okt = (consts == [next(iter(want))] and not inst) or (not consts and inst == ["payload[0]"])
        else:
            okt = not consts and inst == ["payload[0]"]
        r.ob(okt, Finding("T8", f"{QF}:{cn}:frame-type-attribute",
                          f"{cn} is registered for {sorted(hex(x) for x in want)}: its frame_type must be {'that constant' if len(want) == 1 else 'read from the first byte of the frame'}; "
                          f"found class constant {consts}, instance assignment {inst}", m.line(c.node)))
    extra = sorted(set(cls_types) - set(RFC_TYPES))
    if extra:
        r.notes.append(f"registry classes outside RFC 9000 §19 / RFC 9221 (layout not compared, type codes checked for disjointness only): {extra}")
    # parse_frames dispatch: key lookup by membership of the first byte, fallback GenericFrame, advance by frame.length
    pf = tree.func(QF, "parse_frames")
    r.instances += 1
    txt = src(pf.node, 3000)
    ok = "if payload[0] in k:" in txt and "frame = frame_type.get(key)(payload, src_packet)" in txt and "frames.append(frame)" in txt and "payload = payload[frame_length:]" in txt \
        and "frame_length = frame.length" in txt and "while len(payload) != 0:" in txt
    from ..cfg import cfg_of
    pcfg = cfg_of(pf.node)
    wl = [n for n in pcfg.nodes if n.kind == "while"]
    sent = [n for n in pcfg.nodes if n.kind == "stmt" and isinstance(n.ast, ast.Assign) and dotted(n.ast.targets[0]) == "key" and isinstance(n.ast.value, ast.Constant)]
    scan = [n for n in pcfg.nodes if n.kind == "for" and dotted(n.ast.iter) == "keys"]
    ok = ok and len(wl) == 1 and len(sent) == 1 and len(scan) == 1 and wl[0].id in sent[0].loops and pcfg.dominates(sent[0].id, scan[0].id)
    r.ob(ok, Finding("T8", f"{QF}:parse_frames:dispatch", "parse_frames must reset the dispatch key for every frame, select the class whose key contains the first byte, construct it on the remaining payload, append it, and advance by frame.length", m.line(pf.node)))
    # per class layouts
    for cn in sorted(RFC_TYPES):
        if cn == "PaddingFrame":
            continue
        c = m.classes.get(cn)
        if c is None:
            continue
        init = c.methods.get("__init__")
        cls_len = None
        for st in c.node.body:
            if isinstance(st, ast.Assign) and dotted(st.targets[0]) == "length":
                cls_len = try_fold(st.value)
        if init is None:
            continue
        payload = init.params[1]
        paths = FrameEval(payload, cls_len).run(init.node)
        for p in paths:
            r.instances += 1
            conds = {k: v for k, v in p.conds}
            fields, problems = layout_of(p)
            want = expected_layout(cn, conds)
            got_n = [_norm_field(f) for f in fields]
            want_n = [_norm_want(w, p) for w in (want or [])]
            label = ",".join(f"{k}={'T' if v else 'F'}" for k, v in p.conds) or "-"
            ok = not problems and want is not None and got_n == want_n
            r.sample({"class": cn, "path": label, "fields": [str(x) for x in got_n]}, cap=8)
            r.ob(ok, Finding("T8", f"{QF}:{cn}:layout:{label}",
                             f"{cn} ({label}): fields read {got_n}, RFC layout {want_n}; {'; '.join(problems[:3])}", m.line(init.node)))
    return r


def _norm_field(f):
    if f[0] == "bytes":
        return ("bytes", f[1], f[2])
    return (f[0], f[1])


def _norm_want(w, p: Path):
    if w[0] == "bytes":
        spec = w[2]
        if spec.startswith("LEN:") or spec.startswith("LENB:"):
            attr = spec.split(":", 1)[1]
            v = p.env.get(attr)
            return ("bytes", w[1], _fmt(v) if v is not None else spec)
        if spec == "REST":
            # rest of packet: END - start; the start is whatever the cursor was — compare by suffix
            for r in p.reads:
                if r["kind"] == "slice" and r["name"] == w[1]:
                    return ("bytes", w[1], _fmt(nf(ast.parse("B - A", mode="eval").body, {"A": r["A"], "B": ("s", "END")})))
            return ("bytes", w[1], "REST")
        return ("bytes", w[1], spec)
    return (w[0], w[1])


def rule_varint(tree: Tree) -> RuleResult:
    r = RuleResult("VARINT", "variable-length integer decoder (RFC 9000 §16): length = 1 << (first byte >> 6); value = low 6 bits then big-endian accumulation over exactly `length` bytes")
    from ..norm import alpha_canon, alpha_canon_src
    m = tree.module("quic.quic_decode")
    REF = {
        VL: ["def f(b):\n    v = b[0]\n    prefix = v >> 6\n    length = 1 << prefix\n    return length",
             "def f(b):\n    return 1 << (b[0] >> 6)"],
        DEC: ["def f(b):\n    v = b[0]\n    prefix = v >> 6\n    length = 1 << prefix\n    v = v & 0x3f\n    for i in range(1, length):\n        v = (v << 8) + b[i]\n    return v",
              "def f(b):\n    v = b[0]\n    prefix = v >> 6\n    length = 1 << prefix\n    v = v & 0x3f\n    for i in range(1, length):\n        v = (v << 8) | b[i]\n    return v"],
    }
    for fn in (DEC, VL):
        f = tree.func("quic.quic_decode", fn)
        r.instances += 1
        got = alpha_canon(f.node)
        refs = [alpha_canon_src(x) for x in REF[fn]]
        r.ob(got in refs, Finding("VARINT", f"quic.quic_decode:{fn}:shape", f"{fn} (alpha-normalised) is `{got}`; RFC 9000 §16 reference forms: {refs}", m.line(f.node)))
    # PaddingFrame: a run of zero bytes
    pad = tree.func(QF, "PaddingFrame.__init__")
    r.instances += 1
    got = alpha_canon(pad.node)
    ref = alpha_canon_src("def f(self, payload, src_packet):\n    super().__init__(src_packet)\n    self.length = 1\n    for i, byte in enumerate(payload):\n        if byte != 0:\n            self.length = i\n            return\n    self.length = len(payload)")
    r.ob(got == ref, Finding("VARINT", f"{QF}:PaddingFrame.__init__:shape", f"PADDING is the maximal run of zero bytes at the cursor; found `{got}`", pad.module.line(pad.node)))
    return r

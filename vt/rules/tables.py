"""T1–T4 — cipher-suite registry, name→parameter resolution, algorithm-list agreement, decrypt dispatch."""
from __future__ import annotations

import ast
import json
import os
import re
from typing import Any, Dict, List, Optional, Tuple

from ..core import Tree, Func, Module, dotted, src, AnalysisError, AnchorMissing, body_walk
from ..framework import Finding, RuleResult, VERIF
from ..norm import fold, NotConst, try_fold, strip_stmts
from ..symeval import Sym, geval, value_of, Unknown, ref_of, select_case

CSP = "cipher_suite_parser"
CR = "cryptography.hazmat.primitives."
ALG = CR + "ciphers.algorithms."
AEAD = CR + "ciphers.aead."
MODES = CR + "ciphers.modes."
HASH = CR + "hashes."


def load_ref() -> Dict[int, str]:
    p = os.path.join(VERIF, "ref", "iana_tls_cipher_suites.json")
    with open(p) as fh:
        d = json.load(fh)["suites"]
    return {int(k, 16): v for k, v in d.items()}


def suite_table(tree: Tree) -> Tuple[Module, ast.Dict, List[Tuple[bytes, str, ast.AST]]]:
    m = tree.module(CSP)
    node = m.assigns.get("cipher_suites")
    if not isinstance(node, ast.Dict):
        # re-bound after the literal (rule T1 reports that): read the literal itself
        lits = [st.value for st in m.tree.body if isinstance(st, ast.Assign) and any(isinstance(t, ast.Name) and t.id == "cipher_suites" for t in st.targets) and isinstance(st.value, ast.Dict)]
        node = lits[0] if lits else None
    if not isinstance(node, ast.Dict):
        raise AnchorMissing("dict literal `cipher_suites` not found in cipher_suite_parser.py")
    rows = []
    for k, v in zip(node.keys, node.values):
        if k is None:
            raise AnalysisError("cipher_suites uses ** unpacking; the literal cannot be read")
        try:
            kk, vv = fold(k), fold(v)
        except NotConst:
            raise AnalysisError(f"cipher_suites row {src(k)}: {src(v)} is not a literal")
        rows.append((kk, vv, k))
    return m, node, rows


def rule_T1(tree: Tree) -> RuleResult:
    """Every row of the code-point table equals the IANA row of that code point."""
    r = RuleResult("T1", "cipher-suite code points equal the IANA registry rows")
    r.floor = 150
    m, node, rows = suite_table(tree)
    ref = load_ref()
    # the tables are what their literals say: bound once, never re-built, never changed by code (a module-level `cipher_suites = {… for …}` or
    # `cipher_suites[k] = …` makes every row below a statement about a table the program no longer uses)
    for tname in ("cipher_suites", "cipher_suite_parts"):
        r.instances += 1
        binds = [st for st in ast.walk(m.tree) if isinstance(st, (ast.Assign, ast.AugAssign, ast.AnnAssign)) and any(
            (isinstance(t, ast.Name) and t.id == tname) or (isinstance(t, ast.Subscript) and dotted(t.value) == tname)
            for t in (st.targets if isinstance(st, ast.Assign) else [st.target]))]
        muts = [c for c in ast.walk(m.tree) if isinstance(c, ast.Call) and isinstance(c.func, ast.Attribute) and dotted(c.func.value) == tname
                and c.func.attr in ("update", "pop", "clear", "setdefault", "popitem", "__setitem__")]
        r.ob(len(binds) == 1 and not muts, Finding("T1", f"{CSP}:{tname}:single-literal",
                                                   f"`{tname}` must be bound exactly once, to its literal, and never modified; found {len(binds)} bindings / item assignments "
                                                   f"and {len(muts)} mutating calls (e.g. `{src(binds[1], 70) if len(binds) > 1 else (src(muts[0], 70) if muts else '')}`)", m.relpath))
    seen: Dict[bytes, str] = {}
    for k, v, kn in rows:
        r.instances += 1
        key = f"{CSP}:cipher_suites:row-{k.hex().upper() if isinstance(k, (bytes, bytearray)) else k!r}"
        if not (isinstance(k, (bytes, bytearray)) and len(k) == 2 and isinstance(v, str)):
            r.ob(False, Finding("T1", key, f"row {k!r}: {v!r} is not a (2-byte code point, name) pair", m.line(kn)))
            continue
        if k in seen:
            r.ob(False, Finding("T1", key, f"duplicate key {k.hex()} ({seen[k]} / {v}): Python silently keeps the last", m.line(kn)))
            continue
        seen[k] = v
        cp = int.from_bytes(k, "big")
        want = ref.get(cp)
        ok = want == v
        r.ob(ok, Finding("T1", key, f"code point 0x{cp:04X} is registered as {want!r}, the table says {v!r}", m.line(kn)))
    r.sample({"rows": len(rows), "first": [f"{k.hex()}:{v}" for k, v, _ in rows[:3]], "reference_rows": len(ref)})
    return r


# ------------------------------------------------------------------------------------------ T2
def parts_tables(tree: Tree) -> Tuple[Module, Dict[str, List[Tuple[str, Any, ast.AST]]]]:
    m = tree.module(CSP)
    node = m.assigns.get("cipher_suite_parts")
    if not isinstance(node, ast.Dict):
        raise AnchorMissing("dict literal `cipher_suite_parts` not found")
    out: Dict[str, List[Tuple[str, Any, ast.AST]]] = {}
    for k, v in zip(node.keys, node.values):
        part = fold(k)
        if not isinstance(v, ast.Dict):
            raise AnalysisError(f"cipher_suite_parts[{part!r}] is not a dict literal")
        rows = []
        for kk, vv in zip(v.keys, v.values):
            rows.append((fold(kk), _sym_value(tree, m, vv), vv))
        out[part] = rows
    return m, out


def _sym_value(tree: Tree, m: Module, e: ast.AST):
    try:
        return value_of(tree, m, e, {})
    except Unknown:
        raise AnalysisError(f"table value {src(e)} cannot be resolved")


class ResolverModel:
    """What the structural reading of split_cipher_suite establishes."""
    def __init__(self):
        self.first_match = True
        self.defaults: Dict[str, Any] = {}
        self.default_else: Any = None
        self.fixups: List[Tuple[str, Any, List[Tuple[str, str, Any]]]] = []  # (part, equals value, [(substring, part, new value)])
        self.post_defaults: List[Tuple[str, Any, Any]] = []  # (part, equals, new value)
        self.lookup_exact = False
        self.keyerror_returns_none = False
        self.problems: List[str] = []


def read_resolver(tree: Tree) -> Tuple[Func, ResolverModel]:
    f = tree.func(CSP, "split_cipher_suite")
    m = f.module
    mod = ResolverModel()
    body = strip_stmts(f.node.body)
    id_param = f.params[0] if f.params else "suite_id"
    name_var = None
    result_var = None
    # 1. lookup
    for st in body:
        if isinstance(st, ast.Try):
            for s2 in st.body:
                if isinstance(s2, ast.Assign) and isinstance(s2.value, ast.Subscript) and dotted(s2.value.value) == "cipher_suites":
                    if dotted(s2.value.slice) == id_param and isinstance(s2.targets[0], ast.Name):
                        name_var = s2.targets[0].id
                        mod.lookup_exact = True
            for h in st.handlers:
                hn = dotted(h.type) if h.type is not None else None
                if hn in ("KeyError", "LookupError", "Exception", None):
                    hb = strip_stmts(h.body)
                    if len(hb) == 1 and isinstance(hb[0], ast.Return) and (hb[0].value is None or (isinstance(hb[0].value, ast.Constant) and hb[0].value.value is None)):
                        mod.keyerror_returns_none = True
        elif isinstance(st, ast.Assign) and isinstance(st.value, ast.Call) and isinstance(st.value.func, ast.Attribute) \
                and st.value.func.attr == "get" and dotted(st.value.func.value) == "cipher_suites":
            name_var = st.targets[0].id if isinstance(st.targets[0], ast.Name) else None
            if len(st.value.args) > 1 and not (isinstance(st.value.args[1], ast.Constant) and st.value.args[1].value is None):
                mod.problems.append(f"lookup `{src(st)}` supplies a default for unknown code points")
            else:
                mod.lookup_exact = True
        elif isinstance(st, ast.If) and name_var and isinstance(st.test, ast.Compare) and dotted(st.test.left) == name_var \
                and isinstance(st.test.ops[0], ast.Is) and isinstance(st.test.comparators[0], ast.Constant) and st.test.comparators[0].value is None:
            hb = strip_stmts(st.body)
            if len(hb) == 1 and isinstance(hb[0], ast.Return) and (hb[0].value is None or try_fold(hb[0].value, default=0) is None):
                mod.keyerror_returns_none = True
    if name_var is None:
        raise AnalysisError("split_cipher_suite: the code-point lookup `cipher_suites[<id>]` was not found")
    rebinds = [src(s2, 70) for s2 in body_walk(f.node) if isinstance(s2, (ast.Assign, ast.AugAssign)) and dotted(s2.targets[0] if isinstance(s2, ast.Assign) else s2.target) == id_param]
    if rebinds:
        mod.problems.append(f"the code point is rewritten before the lookup (`{rebinds[0]}`): code points outside the IANA-conformant table would be accepted under another code point's name")
    # 2. the nested loops
    outer = [st for st in body if isinstance(st, ast.For)]
    if len(outer) != 1:
        raise AnalysisError("split_cipher_suite: expected exactly one loop over cipher_suite_parts")
    outer = outer[0]
    it = outer.iter
    if isinstance(it, ast.Call) and isinstance(it.func, ast.Attribute) and it.func.attr in ("keys", "items"):
        it = it.func.value
    if dotted(it) != "cipher_suite_parts":
        raise AnalysisError("split_cipher_suite: outer loop does not iterate cipher_suite_parts")
    part_var = outer.target.id if isinstance(outer.target, ast.Name) else (outer.target.elts[0].id if isinstance(outer.target, ast.Tuple) else None)
    inner = [st for st in outer.body if isinstance(st, ast.For)]
    if len(inner) != 1:
        raise AnalysisError("split_cipher_suite: expected one inner loop over the sub-table")
    inner = inner[0]
    p_var = inner.target.id if isinstance(inner.target, ast.Name) else None
    iit = inner.iter
    reversed_iter = False
    if isinstance(iit, ast.Call) and isinstance(iit.func, ast.Name) and iit.func.id in ("reversed", "sorted"):
        reversed_iter = True
        mod.problems.append(f"inner loop iterates `{src(iit)}`: sub-table order is not source order")
    match_ifs = [st for st in inner.body if isinstance(st, ast.If)]
    if len(match_ifs) != 1:
        raise AnalysisError("split_cipher_suite: expected one `if <substring> in <name>` in the inner loop")
    mi = match_ifs[0]
    t = mi.test
    if not (isinstance(t, ast.Compare) and len(t.ops) == 1 and isinstance(t.ops[0], ast.In)
            and dotted(t.left) == p_var and dotted(t.comparators[0]) == name_var):
        mod.problems.append(f"matching test is `{src(t)}`, expected `{p_var} in {name_var}` (substring match of the table key in the suite name)")
    has_break = any(isinstance(n, ast.Break) for s in mi.body for n in ast.walk(s))
    mod.first_match = has_break
    # result variable: X.update({part: parts[part][p]}) or X[part] = ...
    for s in mi.body:
        if isinstance(s, ast.Expr) and isinstance(s.value, ast.Call) and isinstance(s.value.func, ast.Attribute) and s.value.func.attr == "update":
            result_var = dotted(s.value.func.value)
        elif isinstance(s, ast.Assign) and isinstance(s.targets[0], ast.Subscript):
            result_var = dotted(s.targets[0].value)
    if result_var is None:
        raise AnalysisError("split_cipher_suite: no result update in the matching branch")
    # 3. defaults when nothing matched: statements of outer body after the inner loop
    flag_reset_ok = False
    for st in outer.body:
        if isinstance(st, ast.If) and isinstance(st.test, ast.UnaryOp) and isinstance(st.test.op, ast.Not):
            for (cond, val) in _default_arms(st.body, part_var, result_var):
                if cond is None:
                    mod.default_else = val
                else:
                    mod.defaults[cond] = val
    # 4. fix-ups after the loops
    seen_loop = False
    for st in body:
        if st is outer:
            seen_loop = True
            continue
        if not seen_loop or not isinstance(st, ast.If):
            continue
        t = st.test
        if isinstance(t, ast.Compare) and len(t.ops) == 1 and isinstance(t.ops[0], ast.Eq) and isinstance(t.left, ast.Subscript) \
                and dotted(t.left.value) == result_var:
            part = try_fold(t.left.slice)
            eqv = _sym_value(tree, m, t.comparators[0])
            subs = []
            direct = None
            for s in st.body:
                if isinstance(s, ast.If):
                    n = s
                    while True:
                        tt = n.test
                        if isinstance(tt, ast.Compare) and isinstance(tt.ops[0], ast.In) and dotted(tt.comparators[0]) == name_var:
                            sub = try_fold(tt.left)
                            upd = _read_update(tree, m, n.body, result_var)
                            if upd:
                                subs.append((sub, upd[0], upd[1]))
                        if len(n.orelse) == 1 and isinstance(n.orelse[0], ast.If):
                            n = n.orelse[0]
                            continue
                        break
                else:
                    upd = _read_update(tree, m, [s], result_var)
                    if upd:
                        direct = upd
            if subs:
                mod.fixups.append((part, eqv, subs))
            if direct:
                mod.post_defaults.append((part, eqv, direct[1]) if direct[0] == part else (direct[0], ("when", part, eqv), direct[1]))
    return f, mod


def _read_update(tree, m, stmts, result_var):
    for s in stmts:
        if isinstance(s, ast.Expr) and isinstance(s.value, ast.Call) and isinstance(s.value.func, ast.Attribute) \
                and s.value.func.attr == "update" and dotted(s.value.func.value) == result_var and s.value.args \
                and isinstance(s.value.args[0], ast.Dict) and len(s.value.args[0].keys) == 1:
            d = s.value.args[0]
            return try_fold(d.keys[0]), _sym_value(tree, m, d.values[0])
        if isinstance(s, ast.Assign) and isinstance(s.targets[0], ast.Subscript) and dotted(s.targets[0].value) == result_var:
            return try_fold(s.targets[0].slice), _sym_value(tree, m, s.value)
    return None


def _default_arms(stmts, part_var, result_var):
    """`if part == "TagLength": R.update({part: 16}) else: R.update({part: (None, 0)})` -> [("TagLength",16),(None,(None,0))]"""
    out = []
    for s in stmts:
        if isinstance(s, ast.If):
            n = s
            while True:
                t = n.test
                cond = None
                if isinstance(t, ast.Compare) and isinstance(t.ops[0], ast.Eq) and dotted(t.left) == part_var:
                    cond = try_fold(t.comparators[0])
                v = _update_value(n.body, result_var)
                out.append((cond, v))
                if len(n.orelse) == 1 and isinstance(n.orelse[0], ast.If):
                    n = n.orelse[0]
                    continue
                if n.orelse:
                    out.append((None, _update_value(n.orelse, result_var)))
                break
        else:
            v = _update_value([s], result_var)
            if v is not _NOV:
                out.append((None, v))
    return out


_NOV = object()


def _update_value(stmts, result_var):
    for s in stmts:
        if isinstance(s, ast.Expr) and isinstance(s.value, ast.Call) and isinstance(s.value.func, ast.Attribute) \
                and s.value.func.attr == "update" and dotted(s.value.func.value) == result_var:
            d = s.value.args[0]
            if isinstance(d, ast.Dict) and len(d.values) == 1:
                return try_fold(d.values[0], default=_NOV)
        if isinstance(s, ast.Assign) and isinstance(s.targets[0], ast.Subscript) and dotted(s.targets[0].value) == result_var:
            return try_fold(s.value, default=_NOV)
    return _NOV


def resolve_under_model(name: str, parts: Dict[str, List[Tuple[str, Any, ast.AST]]], mod: ResolverModel) -> Dict[str, Any]:
    res: Dict[str, Any] = {}
    for part, rows in parts.items():
        hit = None
        for sub, val, _ in rows:
            if sub in name:
                hit = val
                if mod.first_match:
                    break
        if hit is None:
            hit = mod.defaults.get(part, mod.default_else)
        res[part] = hit
    for part, eqv, subs in mod.fixups:
        if res.get(part) == eqv:
            for sub, p2, newv in subs:
                if sub in name:
                    res[p2] = newv
                    break
    for part, eqv, newv in mod.post_defaults:
        if isinstance(eqv, tuple) and len(eqv) == 3 and eqv[0] == "when":
            if res.get(eqv[1]) == eqv[2]:
                res[part] = newv
        elif res.get(part) == eqv:
            res[part] = newv
    return res


# independent name parser (oracle): name -> expected parameters
_CIPHER_RE = [
    (r"AES_(128|256)_CBC", lambda g: (ALG + "AES", 0, int(g[0]) // 8, None)),
    (r"AES_(128|256)_GCM", lambda g: (AEAD + "AESGCM", 1, int(g[0]) // 8, None)),
    (r"AES_(128|256)_CCM_8", lambda g: (AEAD + "AESCCM", 1, int(g[0]) // 8, 8)),
    (r"AES_(128|256)_CCM", lambda g: (AEAD + "AESCCM", 1, int(g[0]) // 8, None)),
    (r"CAMELLIA_(128|256)_CBC", lambda g: (ALG + "Camellia", 0, int(g[0]) // 8, None)),
    (r"3DES_EDE_CBC", lambda g: (ALG + "TripleDES", 0, 24, None)),
    (r"IDEA_CBC", lambda g: (ALG + "IDEA", 0, 16, None)),
    (r"RC4_128", lambda g: (ALG + "ARC4", 0, 16, None)),
    (r"CHACHA20_POLY1305", lambda g: (AEAD + "ChaCha20Poly1305", 1, 32, None)),
]
_HASHES = {"SHA": HASH + "SHA1", "SHA256": HASH + "SHA256", "SHA384": HASH + "SHA384", "MD5": HASH + "MD5"}


def oracle_parse(name: str) -> Optional[Dict[str, Any]]:
    m = re.match(r"^TLS_(?:[A-Za-z0-9_]+?_WITH_)?(.+)$", name)
    if not m:
        return None
    rest = m.group(1)
    for pat, fn in _CIPHER_RE:
        mm = re.match("^" + pat + "(?:_(SHA256|SHA384|SHA|MD5))?$", rest)
        if mm:
            g = mm.groups()
            bulk, aead, klen, tag = fn(g[:-1])
            h = g[-1]
            return {"bulk": bulk, "aead": aead, "keylen": klen, "mac": _HASHES[h] if h else HASH + "SHA256",
                    "tag": tag if tag else 16}
    return None


def rule_T2(tree: Tree) -> RuleResult:
    r = RuleResult("T2", "every table name resolves (under the structurally confirmed loop semantics) to the parameters its name denotes")
    r.floor = 150
    f, mod = read_resolver(tree)
    m = f.module
    _, parts = parts_tables(tree)
    _, _, rows = suite_table(tree)
    key0 = f"{CSP}:split_cipher_suite"
    for p in mod.problems:
        r.ob(False, Finding("T2", key0 + ":loop-shape", p, m.line(f.node)))
    r.ob(mod.lookup_exact and mod.keyerror_returns_none,
         Finding("T2", key0 + ":exact-lookup",
                 "code points outside the table must be rejected: the lookup must be an exact-key subscript (or .get without default) "
                 "whose miss path only returns None", m.line(f.node)))
    # caller handles None
    g = tree.func("session", "Session.generate_keys")
    ok_caller = False
    var = None
    for st in strip_stmts(g.node.body):
        if isinstance(st, ast.Assign) and isinstance(st.value, ast.Call) and (dotted(st.value.func) or "").endswith("split_cipher_suite"):
            var = dotted(st.targets[0])
        elif var and isinstance(st, ast.If):
            t = st.test
            if isinstance(t, ast.Compare) and dotted(t.left) == var and isinstance(t.ops[0], ast.Is) and try_fold(t.comparators[0], default=0) is None:
                if any(isinstance(n, ast.Return) for n in st.body):
                    ok_caller = True
            break
        elif var:
            break
    r.ob(ok_caller, Finding("T2", "session:Session.generate_keys:unsupported-suite-return",
                            "generate_keys must test the resolver's result for None and return before using it", g.module.line(g.node)))
    r.notes.append(f"loop semantics read from source: {'first' if mod.first_match else 'last'}-match in sub-table order; "
                   f"defaults {mod.defaults} else {mod.default_else}; fix-ups {[(a, str(b)) for a, b, _ in mod.fixups]}; "
                   f"post-defaults {[(a, str(b), str(c)) for a, b, c in mod.post_defaults]}")
    for k, name, kn in rows:
        if not isinstance(name, str):
            continue
        r.instances += 1
        want = oracle_parse(name)
        key = f"{CSP}:resolve:{name}"
        if want is None:
            r.ob(False, Finding("T2", key, f"suite name {name!r} is outside the grammar of the independent name parser "
                                           f"(cipher not among AES/CAMELLIA/3DES/IDEA/RC4/CHACHA20): parameters cannot be confirmed", m.line(kn)))
            continue
        got = resolve_under_model(name, parts, mod)
        ca = got.get("CryptoAlgo")
        mode = got.get("Mode")
        probs = []
        if not (isinstance(ca, tuple) and len(ca) == 2):
            probs.append(f"CryptoAlgo={ca!r}")
        else:
            if str(ca[0]) != want["bulk"]:
                probs.append(f"bulk cipher {ca[0]} (expected {want['bulk']})")
            if ca[1] != want["aead"]:
                probs.append(f"CryptoAlgo AEAD flag {ca[1]} (expected {want['aead']})")
        if not (isinstance(mode, tuple) and len(mode) == 2):
            probs.append(f"Mode={mode!r}")
        elif mode[1] != want["aead"]:
            probs.append(f"Mode AEAD flag {mode[1]} (expected {want['aead']})")
        if got.get("KeyLength") != want["keylen"]:
            probs.append(f"key length {got.get('KeyLength')} (expected {want['keylen']})")
        if str(got.get("MAC")) != want["mac"]:
            probs.append(f"MAC/PRF hash {got.get('MAC')} (expected {want['mac']})")
        if got.get("TagLength") != want["tag"]:
            probs.append(f"tag length {got.get('TagLength')} (expected {want['tag']})")
        r.ob(not probs, Finding("T2", key, f"{name}: resolves to " + "; ".join(probs), m.line(kn)))
        if r.instances in (1, 60, 150):
            r.sample({"name": name, "resolved": {k2: str(v) for k2, v in got.items()}})
    return r


# ------------------------------------------------------------------------------------------ T3
def producible_bulk(tree: Tree) -> List[str]:
    _, parts = parts_tables(tree)
    f, mod = read_resolver(tree)
    out = set()
    for sub, val, _ in parts.get("CryptoAlgo", []):
        if isinstance(val, tuple):
            out.add(str(val[0]))
    for part, eqv, subs in mod.fixups:
        for sub, p2, newv in subs:
            if p2 == "CryptoAlgo" and isinstance(newv, tuple):
                out.add(str(newv[0]))
    return sorted(out)


def used_bulk(tree: Tree) -> List[str]:
    """Bulk classes that names of the table actually resolve to."""
    _, parts = parts_tables(tree)
    _, mod = read_resolver(tree)
    _, _, rows = suite_table(tree)
    out = set()
    for k, name, _ in rows:
        if isinstance(name, str):
            ca = resolve_under_model(name, parts, mod).get("CryptoAlgo")
            if isinstance(ca, tuple) and ca[0] is not None:
                out.add(str(ca[0]))
    return sorted(out)


def cipher_type_of(tree: Tree, bulk: str) -> Optional[str]:
    """Decision table of Decryptor.get_cipher_type for one bulk class (guards evaluated over the finite domain)."""
    f = tree.func("decryptor", "Decryptor.get_cipher_type")
    m = f.module
    env = {"self.bulk_alg": Sym(bulk)}
    return _first_assignment(tree, m, f.node.body, env, "self.cipher_type")


def _first_assignment(tree, m, stmts, env, target):
    """Walk a straight-line / if-chain function body under env; return the value assigned to `target` on the
    path taken until the first return (guards must be decidable)."""
    val = [None]

    def walk(stmts) -> bool:  # returns True when a return was executed
        for st in stmts:
            if isinstance(st, ast.If):
                try:
                    c = geval(tree, m, st.test, env)
                except Unknown:
                    raise AnalysisError(f"guard `{src(st.test)}` in {m.relpath} cannot be evaluated over the finite domain")
                if walk(st.body if c else st.orelse):
                    return True
            elif isinstance(st, ast.Assign) and len(st.targets) == 1 and dotted(st.targets[0]) == target:
                try:
                    val[0] = value_of(tree, m, st.value, env)
                except Unknown:
                    val[0] = None
            elif isinstance(st, ast.Return):
                return True
        return False
    walk(stmts)
    return val[0]


def iv_length_table(tree: Tree, fn: str, bulk: str, use_aead: int) -> Any:
    f = tree.func("key_derivator", fn)
    m = f.module
    params = f.params
    algo_param = next((p for p in params if "algo" in p), None)
    aead_param = next((p for p in params if "aead" in p), None)
    if algo_param is None:
        raise AnchorMissing(f"{fn}: cipher-algorithm parameter not found")
    env = {algo_param: Sym(bulk)}
    if aead_param:
        env[aead_param] = use_aead
    ivv = [None]

    def walk(stmts):
        for st in stmts:
            if isinstance(st, ast.If):
                # only guards over the algorithm / aead parameters are part of the IV-length table
                names = {dotted(n) for n in ast.walk(st.test) if isinstance(n, (ast.Name,))}
                assigns_iv = any(isinstance(n, ast.Assign) and dotted(n.targets[0]) == "iv_length" for s in st.body + st.orelse for n in ast.walk(s))
                if not assigns_iv:
                    continue
                try:
                    c = geval(tree, m, st.test, env)
                except Unknown:
                    raise AnalysisError(f"{fn}: guard `{src(st.test)}` cannot be evaluated")
                walk(st.body if c else st.orelse)
            elif isinstance(st, ast.Assign) and dotted(st.targets[0]) == "iv_length":
                ivv[0] = try_fold(st.value)
    walk(strip_stmts(f.node.body))
    return ivv[0]


BLOCK_BYTES = {ALG + "AES": 16, ALG + "Camellia": 16, ALG + "TripleDES": 8, ALG + "IDEA": 8}


def rule_T3_classes(tree: Tree) -> RuleResult:
    return rule_T3(tree, ("classes", "block"), "T3a")


def rule_T3_iv(tree: Tree) -> RuleResult:
    return rule_T3(tree, ("iv",), "T3b")


def rule_T3(tree: Tree, parts=("classes", "block", "iv"), rid="T3") -> RuleResult:
    r = RuleResult(rid, "algorithm lists agree: parser table ⊆ decryptor classes; block sizes; implicit-IV lengths per key-derivation function")
    bulks = used_bulk(tree)
    r.floor = 0
    dm = tree.module("decryptor")
    for b in (bulks if "classes" in parts else []):
        r.instances += 1
        ct = cipher_type_of(tree, b)
        short = b.split(".")[-1]
        ok = ct is not None and not str(ct).endswith("Unknown")
        r.ob(ok, Finding(rid, f"decryptor:Decryptor.get_cipher_type:{short}",
                         f"bulk algorithm {short} is producible by the suite parser but Decryptor.get_cipher_type classifies it as {ct} "
                         f"(decrypt() would return None and the output builder would invent a placeholder payload)",
                         dm.relpath))
        r.sample({"bulk": short, "cipher_type": str(ct)})
    # block size list in generate_keys
    g = tree.func("session", "Session.generate_keys")
    for b, nbytes in (BLOCK_BYTES.items() if "block" in parts else []):
        if b not in bulks:
            continue
        r.instances += 1
        env = {"algo": Sym(b)}
        val = None
        for st in strip_stmts(g.node.body):
            if isinstance(st, ast.If) and any(isinstance(n, ast.Assign) and dotted(n.targets[0]) == "block_size" for n in ast.walk(st)):
                # evaluate chain
                n = st
                while True:
                    try:
                        c = geval(tree, g.module, n.test, env)
                    except Unknown:
                        # guard variable may be named differently: substitute the only Name compared
                        raise AnalysisError("generate_keys: block-size guard cannot be evaluated")
                    if c:
                        for s2 in n.body:
                            if isinstance(s2, ast.Assign) and dotted(s2.targets[0]) == "block_size":
                                val = try_fold(s2.value)
                        break
                    if len(n.orelse) == 1 and isinstance(n.orelse[0], ast.If):
                        n = n.orelse[0]
                        continue
                    for s2 in n.orelse:
                        if isinstance(s2, ast.Assign) and dotted(s2.targets[0]) == "block_size":
                            val = try_fold(s2.value)
                    break
        r.ob(val == nbytes * 8, Finding(rid, f"session:Session.generate_keys:block-size:{b.split('.')[-1]}",
                                        f"block size for {b.split('.')[-1]} is {val} bits, expected {nbytes * 8}", g.module.line(g.node)))
    # implicit IV lengths
    if "iv" not in parts:
        return r
    for fn, versions in (("dev_ssl_30_keys", "SSL 3.0"), ("dev_tls_10_11_keys", "TLS 1.0")):
        for b, nbytes in BLOCK_BYTES.items():
            if b not in bulks:
                continue
            r.instances += 1
            iv = iv_length_table(tree, fn, b, 0)
            r.ob(iv == nbytes, Finding(rid, f"key_derivator:{fn}:iv-length:{b.split('.')[-1]}",
                                       f"{fn} gives {b.split('.')[-1]} an IV of {iv} bytes; {versions} CBC uses the key-block IV as the first "
                                       f"chaining value and needs the block size ({nbytes})", tree.module("key_derivator").relpath))
    for b, want in ((AEAD + "AESGCM", 4), (AEAD + "AESCCM", 4), (AEAD + "ChaCha20Poly1305", 12)):
        if b not in bulks:
            continue
        r.instances += 1
        iv = iv_length_table(tree, "dev_tls_12_keys", b, 1)
        r.ob(iv == want, Finding(rid, f"key_derivator:dev_tls_12_keys:iv-length:{b.split('.')[-1]}",
                                 f"dev_tls_12_keys gives {b.split('.')[-1]} an implicit IV of {iv} bytes, RFC 5288/6655/7905 need {want}",
                                 tree.module("key_derivator").relpath))
    return r


# ------------------------------------------------------------------------------------------ T4
V = "tlexport.tlsversion.TlsVersion."
VERSIONS = ["SSL30", "TLS10", "TLS11", "TLS12", "TLS13"]


def expected_method(version: str, bulk: str) -> Optional[str]:
    short = bulk.split(".")[-1]
    if version == "TLS13":
        if short in ("AESGCM", "AESCCM"):
            return "decrypt_tls13_aead"
        if short == "ChaCha20Poly1305":
            return "decrypt_tls13_stream_cipher"
        return None  # not a valid pair
    if short == "ChaCha20Poly1305":
        return "decrypt_tls12_chacha20" if version == "TLS12" else None
    if short == "ARC4":
        return "decrypt_generic_stream_cipher"
    if short in ("AESGCM", "AESCCM"):
        return "decrypt_tls12_aead" if version == "TLS12" else None
    if short in ("AES", "Camellia", "TripleDES", "IDEA"):
        return "decrypt_tls12_block_cipher" if version in ("TLS11", "TLS12") else "decrypt_last_block_iv_cbc"
    return None


def dispatch_of(tree: Tree, version: str, bulk: str) -> Optional[str]:
    f = tree.func("decryptor", "Decryptor.decrypt")
    m = f.module
    env = {"self.tls_version": Sym(V + version), "self.bulk_alg": Sym(bulk), "self.cipher_type": cipher_type_of(tree, bulk)}
    res = [None]

    def walk(stmts) -> bool:
        for st in stmts:
            if isinstance(st, ast.If):
                try:
                    c = geval(tree, m, st.test, env)
                except Unknown:
                    raise AnalysisError(f"Decryptor.decrypt: guard `{src(st.test)}` cannot be evaluated over (version, bulk, cipher type)")
                if walk(st.body if c else st.orelse):
                    return True
            elif isinstance(st, ast.Return):
                v = st.value
                if isinstance(v, ast.Call) and isinstance(v.func, ast.Attribute) and dotted(v.func.value) == "self":
                    res[0] = v.func.attr
                else:
                    res[0] = None
                return True
        return False
    walk(strip_stmts(f.node.body))
    return res[0]


def rule_T4(tree: Tree) -> RuleResult:
    r = RuleResult("T4", "Decryptor.decrypt dispatch equals the record-protection scheme of (version, bulk cipher) for every valid pair")
    r.floor = 20
    f = tree.func("decryptor", "Decryptor.decrypt")
    bulks = used_bulk(tree)
    for v in VERSIONS:
        for b in bulks:
            want = expected_method(v, b)
            if want is None:
                continue
            r.instances += 1
            got = dispatch_of(tree, v, b)
            r.ob(got == want, Finding("T4", f"decryptor:Decryptor.decrypt:{v}:{b.split('.')[-1]}",
                                      f"(version {v}, bulk {b.split('.')[-1]}) is dispatched to {got}, the record protection of that pair is {want}",
                                      f.module.line(f.node)))
            if r.instances % 9 == 1:
                r.sample({"version": v, "bulk": b.split(".")[-1], "method": got})
    # every dispatched method exists
    cls = tree.cls("decryptor", "Decryptor")
    for meth in {expected_method(v, b) for v in VERSIONS for b in bulks} - {None}:
        r.instances += 1
        r.ob(meth in cls.methods, Finding("T4", f"decryptor:Decryptor:{meth}:exists", f"record method {meth} not found", f.module.relpath))
    return r

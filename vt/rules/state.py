"""D6 — state ownership and nondeterminism inventory (C04, C18, C03 'other flows')."""
from __future__ import annotations

import ast
from typing import Dict, List, Optional, Set

from ..core import Tree, Func, Class, dotted, src, AnalysisError, AnchorMissing, body_walk, ancestors
from ..framework import Finding, RuleResult
from ..norm import try_fold
from ..cfg import cfg_of
from ..callgraph import CallGraph

MUTATORS = {"append", "extend", "insert", "pop", "remove", "clear", "sort", "reverse", "update", "add", "discard", "setdefault", "popitem"}
FLOW_CLASSES = [("session", "Session"), ("decryptor", "Decryptor"), ("output_builder", "OutputBuilder"),
                ("quic.quic_session", "QuicSession"), ("quic.quic_decryptor", "QuicDecryptor"), ("quic.quic_tls_parser", "QuicTlsSession"),
                ("quic.quic_output_builder", "QUICOutputbuilder"), ("tlsrecord", "TlsRecord"), ("packet", "Packet")]


def _is_mutable_literal(e: ast.AST) -> bool:
    if isinstance(e, (ast.List, ast.Dict, ast.Set, ast.ListComp, ast.DictComp, ast.SetComp)):
        return True
    if isinstance(e, ast.Call) and dotted(e.func) in ("list", "dict", "set", "bytearray", "collections.defaultdict", "defaultdict", "collections.deque", "deque",
                                                       "collections.Counter", "Counter", "collections.OrderedDict", "OrderedDict",
                                                       "itertools.count", "itertools.cycle", "count", "cycle", "iter"):
        return True  # containers and stateful iterators (an iterator advanced by next() keeps its position across run() calls)
    if isinstance(e, ast.GeneratorExp):
        return True
    return False


def module_mutables(tree: Tree, short: str) -> Dict[str, ast.AST]:
    m = tree.module(short)
    out = {k: v for k, v in m.assigns.items() if _is_mutable_literal(v)}
    # module-level aliases (`a = b` with b a mutable module object) denote the same object
    changed = True
    while changed:
        changed = False
        for k, v in m.assigns.items():
            if k not in out and isinstance(v, ast.Name) and v.id in out:
                out[k] = out[v.id]
                changed = True
    return out


def module_alias_classes(tree: Tree, short: str) -> Dict[str, Set[str]]:
    m = tree.module(short)
    muts = module_mutables(tree, short)
    root: Dict[str, str] = {}
    for k in muts:
        v = m.assigns.get(k)
        seen = set()
        cur = k
        while isinstance(v, ast.Name) and v.id in muts and v.id not in seen:
            seen.add(v.id)
            cur = v.id
            v = m.assigns.get(cur)
        root[k] = cur
    return {k: {j for j in muts if root[j] == root[k]} for k in muts}


def rule_D6_reinit(tree: Tree) -> RuleResult:
    r = RuleResult("D6r", "module-level mutable objects that run() (or its callees) mutate are re-initialised by run() before use")
    main = tree.module("main")
    run = tree.func("main", "run")
    cfg = cfg_of(run.node)
    muts = module_mutables(tree, "main")
    if len(muts) < 1:
        r.notes.append("no module-level mutable objects in main.py")
    cg = CallGraph.of(tree)
    classes = module_alias_classes(tree, "main")

    def _mutations(name: str):
        out = []
        for n in cfg.nodes:
            if n.kind != "stmt":
                continue
            for c in ast.walk(n.ast):
                if isinstance(c, ast.Call) and isinstance(c.func, ast.Attribute) and dotted(c.func.value) == name and c.func.attr in MUTATORS and c.func.attr != "clear":
                    out.append(n)
                if isinstance(c, ast.Call) and dotted(c.func) == "next" and c.args and dotted(c.args[0]) == name:
                    out.append(n)
                if isinstance(c, ast.Call):
                    for arg in list(c.args) + [k.value for k in c.keywords]:
                        if dotted(arg) == name:
                            cs = cg.site(c)
                            if cs and cs.callees and _callee_mutates_param(cs.callees[0], c, arg):
                                out.append(n)
        return out
    mutated = {name: _mutations(name) for name in muts}

    def _fresh(value: ast.AST) -> bool:
        # the re-initialisation value must not be (an alias of) a module object that run() mutates — in particular not the object being reset
        for x in ast.walk(value):
            if isinstance(x, ast.Name) and x.id in muts and not _is_local(run, x.id) and any(mutated[j] for j in classes[x.id]):
                return False
        return True
    for name, init in sorted(muts.items()):
        mutated_at = mutated[name]
        reset_at = []
        for n in cfg.nodes:
            if n.kind != "stmt":
                continue
            a = n.ast
            for c in ast.walk(a):
                if isinstance(c, ast.Call) and isinstance(c.func, ast.Attribute) and dotted(c.func.value) == name and c.func.attr == "clear":
                    reset_at.append(n)
            if isinstance(a, ast.Assign) and any(dotted(t) == name for t in a.targets) and _fresh(a.value):
                reset_at.append(n)  # rebinding (needs `global`) — counted as re-initialisation
            if isinstance(a, ast.Assign) and any(isinstance(t, ast.Subscript) and isinstance(t.slice, ast.Slice) and dotted(t.value) == name
                                                 and t.slice.lower is None and t.slice.upper is None for t in a.targets) and _fresh(a.value):
                reset_at.append(n)
            if isinstance(a, ast.Delete) and any(isinstance(t, ast.Subscript) and dotted(t.value) == name for t in a.targets):
                reset_at.append(n)
        if not mutated_at:
            continue
        r.instances += 1
        ok = all(any(cfg.dominates(rs.id, mu.id) for rs in reset_at) for mu in mutated_at)
        has_global = any(isinstance(n, ast.Global) and name in n.names for n in body_walk(run.node))
        rebinds = [n for n in reset_at if isinstance(n.ast, ast.Assign) and any(dotted(t) == name for t in n.ast.targets)]
        if rebinds and not has_global:
            ok = False  # a local rebinding shadows the module object: callees that read the global see the stale list
        r.sample({"object": name, "initial": src(init, 40), "mutated": len(mutated_at), "reinitialised": ok})
        r.ob(ok, Finding("D6r", f"main:{name}:reinit",
                         f"module-level `{name} = {src(init, 30)}` is mutated by run() ({src(mutated_at[0].ast, 60)}) and never re-initialised: "
                         f"a second run() in the same process continues with the first run's content (sessions, keys, ports)", main.line(mutated_at[0].ast)))
    return r


def _callee_mutates_param(callee: Func, call: ast.Call, arg: ast.AST) -> bool:
    # position of arg
    params = callee.params
    idx = None
    for i, a in enumerate(call.args):
        if a is arg:
            idx = i
    name = None
    if idx is not None:
        off = 1 if (callee.cls is not None and params and params[0] == "self") else 0
        if idx + off < len(params):
            name = params[idx + off]
    else:
        for k in call.keywords:
            if k.value is arg:
                name = k.arg
    if not name:
        return False
    for n in body_walk(callee.node):
        if isinstance(n, ast.Call) and isinstance(n.func, ast.Attribute) and dotted(n.func.value) == name and n.func.attr in MUTATORS:
            return True
    return False


def rule_D6_ownership(tree: Tree) -> RuleResult:
    r = RuleResult("D6a", "per-flow classes own their state: no class-level mutable attributes, no mutable default arguments, no global writes, shared key list never mutated by flow code")
    for mod, cn in FLOW_CLASSES:
        c = tree.cls(mod, cn)
        r.instances += 1
        bad = []
        for st in c.node.body:
            nm = None
            if isinstance(st, ast.Assign) and _is_mutable_literal(st.value) and isinstance(st.targets[0], ast.Name):
                nm = st.targets[0].id
            if isinstance(st, ast.AnnAssign) and st.value is not None and _is_mutable_literal(st.value) and isinstance(st.target, ast.Name):
                nm = st.target.id
            if nm is None:
                continue
            # a class-level container is shared state when the code changes it in place (through self / the class) without every instance
            # getting its own in __init__; a table that is only read is a constant
            init = c.methods.get("__init__")
            own = init is not None and any(isinstance(a, (ast.Assign, ast.AnnAssign)) and dotted(a.targets[0] if isinstance(a, ast.Assign) else a.target) == f"self.{nm}"
                                           for a in body_walk(init.node))
            changed = False
            for g in tree.all_funcs():
                for x in body_walk(g.node):
                    tgt = None
                    if isinstance(x, ast.Call) and isinstance(x.func, ast.Attribute) and x.func.attr in MUTATORS:
                        tgt = x.func.value
                    elif isinstance(x, (ast.Assign, ast.AugAssign, ast.Delete)):
                        for t in (x.targets if isinstance(x, (ast.Assign, ast.Delete)) else [x.target]):
                            if isinstance(t, ast.Subscript):
                                tgt = t.value
                            elif isinstance(x, ast.AugAssign):
                                tgt = t
                    while isinstance(tgt, ast.Subscript):
                        tgt = tgt.value
                    if isinstance(tgt, ast.Attribute) and tgt.attr == nm and not isinstance(tgt.value, ast.Constant):
                        changed = True
            if changed and not own:
                bad.append(f"class attribute {src(st, 60)}")
        for f in c.methods.values():
            a = f.node.args
            for d in list(a.defaults) + [x for x in a.kw_defaults if x is not None]:
                if _is_mutable_literal(d):
                    bad.append(f"{f.qualname}: mutable default {src(d, 40)}")
            for n in body_walk(f.node):
                if isinstance(n, (ast.Global, ast.Nonlocal)):
                    bad.append(f"{f.qualname}: {src(n)}")
                # one mutable object bound to two attributes (`self.a = self.b = []`): the two "separate" containers are the same list
                if isinstance(n, ast.Assign) and len(n.targets) > 1 and _is_mutable_literal(n.value):
                    attrs = [dotted(t) for t in n.targets if isinstance(t, ast.Attribute)]
                    if len(attrs) > 1:
                        bad.append(f"{f.qualname}: `{src(n, 70)}` binds one container to {attrs}: state meant to be separate (per direction) is shared")
                # one mutable object as the value of every key / element: dict.fromkeys(keys, []), [[]] * n, {k: shared for k in …} with a hoisted object
                if isinstance(n, ast.Call) and dotted(n.func) == "dict.fromkeys" and len(n.args) == 2 and _is_mutable_literal(n.args[1]):
                    bad.append(f"{f.qualname}: `{src(n, 70)}` gives every key the same {type(n.args[1]).__name__.lower()} object: state meant to be separate per key is shared")
                if isinstance(n, ast.BinOp) and isinstance(n.op, ast.Mult) and any(isinstance(x, ast.List) and any(_is_mutable_literal(e) for e in x.elts) for x in (n.left, n.right)):
                    bad.append(f"{f.qualname}: `{src(n, 70)}` repeats one mutable element: every position is the same object")
                # instance attribute bound to a module-level mutable object (alias shared by all instances)
                if isinstance(n, (ast.Assign, ast.AnnAssign)) and getattr(n, "value", None) is not None:
                    tg0 = n.targets[0] if isinstance(n, ast.Assign) else n.target
                    if isinstance(tg0, ast.Attribute) and dotted(tg0.value) == "self" and isinstance(n.value, ast.Name):
                        nm = n.value.id
                        if nm in c.module.assigns and _is_mutable_literal(c.module.assigns[nm]) and nm not in f.params and not _is_local(f, nm):
                            bad.append(f"{f.qualname}: `{src(n, 60)}` aliases the module-level object `{nm}` — every instance shares (and mutates) it")
                # writes through the shared key list
                if isinstance(n, ast.Call) and isinstance(n.func, ast.Attribute) and n.func.attr in MUTATORS:
                    d = dotted(n.func.value) or ""
                    if d.endswith("keylog"):
                        bad.append(f"{f.qualname}: mutates the shared key list ({src(n, 60)})")
                    # the server-port list and the port map are handed to every session by reference: a session that changes them changes the roles /
                    # ports of all later connections
                    if d.split(".")[-1] in ("server_ports", "portmap", "port_map") and (d in f.params or d.startswith("self.")):
                        bad.append(f"{f.qualname}: mutates the shared {d.split('.')[-1]} object ({src(n, 60)})")
                    # mutation of a module-level object of any repo module
                    head = d.split(".")[0]
                    if head and head in c.module.assigns and _is_mutable_literal(c.module.assigns[head]) and head not in f.params:
                        bad.append(f"{f.qualname}: mutates module-level `{head}` ({src(n, 60)})")
                    ent = tree.resolve_expr(c.module, n.func.value)
                    if isinstance(ent, tuple) and ent[0] == "const" and _is_mutable_literal(ent[1].assigns.get(ent[2])):
                        bad.append(f"{f.qualname}: mutates {ent[1].short}.{ent[2]} ({src(n, 60)})")
                if isinstance(n, (ast.Assign, ast.AugAssign)):
                    tg = n.targets if isinstance(n, ast.Assign) else [n.target]
                    for t in tg:
                        base = t
                        while isinstance(base, (ast.Subscript, ast.Attribute)):
                            base = base.value
                        if isinstance(base, ast.Name) and isinstance(t, (ast.Subscript, ast.Attribute)):
                            head = base.id
                            if head in ("self",):
                                continue
                            if head in c.module.assigns and head not in f.params and _is_mutable_literal(c.module.assigns[head]) \
                                    and not _is_local(f, head):
                                bad.append(f"{f.qualname}: writes module-level `{head}` ({src(n, 60)})")
                            if (dotted(t) or "").split(".")[0] in c.module.imports and isinstance(t, ast.Attribute):
                                q = tree.resolve_expr(c.module, t.value)
                                if q is not None and not isinstance(q, str):
                                    bad.append(f"{f.qualname}: writes attribute of {dotted(t.value)} ({src(n, 60)})")
        r.sample({"class": cn, "problems": bad})
        r.ob(not bad, Finding("D6a", f"{mod}:{cn}:ownership", f"{cn} must keep all per-connection state on the instance; found: {'; '.join(bad[:4])}", c.module.relpath))
    # module-level mutable objects outside main.py that functions mutate (caches)
    r.instances += 1
    bad = []
    for m in tree.modules.values():
        if m.short == "main":
            continue
        muts = {k for k, v in m.assigns.items() if _is_mutable_literal(v)}
        for f in m.functions.values():
            for n in body_walk(f.node):
                if isinstance(n, ast.Call) and isinstance(n.func, ast.Attribute) and n.func.attr in MUTATORS:
                    head = (dotted(n.func.value) or "").split(".")[0]
                    if head in muts and head not in f.params and not _is_local(f, head):
                        bad.append(f"{m.short}:{f.qualname} mutates module-level `{head}`")
                if isinstance(n, (ast.Assign, ast.AugAssign)):
                    for t in (n.targets if isinstance(n, ast.Assign) else [n.target]):
                        if isinstance(t, ast.Subscript):
                            head = (dotted(t.value) or "").split(".")[0]
                            if head in muts and head not in f.params and not _is_local(f, head):
                                bad.append(f"{m.short}:{f.qualname} writes module-level `{head}[…]`")
    r.ob(not bad, Finding("D6a", "tlexport:module-level-caches", f"flow code writes module-level containers shared by all connections: {bad[:4]}", "tlexport/"))
    # module-level templates with mutable elements handed out by shallow copy: dict(T) / T.copy() / list(T) / {**T} share the inner lists / dicts
    r.instances += 1
    bad = []
    for m in tree.modules.values():
        nested = {k for k, v in m.assigns.items() if _is_mutable_literal(v) and any(x is not v and _is_mutable_literal(x) for x in ast.walk(v))}
        if not nested:
            continue
        for f in m.functions.values():
            for n in body_walk(f.node):
                if isinstance(n, ast.Name) and n.id in nested and isinstance(n.ctx, ast.Load) and n.id not in f.params and not _is_local(f, n.id):
                    p = getattr(n, "_parent", None)
                    shallow = (isinstance(p, ast.Call) and (dotted(p.func) in ("dict", "list", "set", "copy.copy") and n in p.args)) or \
                              (isinstance(p, ast.Attribute) and p.attr == "copy") or isinstance(p, (ast.Starred, ast.Dict))
                    stored = shallow or isinstance(p, (ast.Assign, ast.AnnAssign))
                    if stored:
                        bad.append(f"{m.short}:{f.qualname} takes `{src(p, 50)}` from the module-level template `{n.id}`, whose inner lists / dicts are then shared by every "
                                   f"object initialised from it")
    r.ob(not bad, Finding("D6a", "tlexport:shared-template-elements", f"per-connection state must not alias mutable elements of a module-level object: {bad[:3]}", "tlexport/"))
    return r


def _is_local(f: Func, name: str) -> bool:
    for n in body_walk(f.node):
        if isinstance(n, ast.Assign) and any(isinstance(t, ast.Name) and t.id == name for t in n.targets):
            return True
        if isinstance(n, ast.For) and any(isinstance(x, ast.Name) and x.id == name for x in ast.walk(n.target)):
            return True
    return False


NONDET_CALLS = {"hash", "id", "random.random", "random.randint", "random.choice", "random.shuffle", "random.sample", "time.time", "time.time_ns",
                "time.monotonic", "time.perf_counter", "datetime.datetime.now", "datetime.now", "datetime.datetime.utcnow", "uuid.uuid4", "uuid.uuid1",
                "os.getcwd", "os.listdir", "os.getpid", "os.urandom", "os.getenv", "os.environ.get", "glob.glob", "secrets.token_bytes",
                "set.pop", "os.scandir", "os.walk", "as_completed", "concurrent.futures.as_completed", "concurrent.futures.ThreadPoolExecutor", "ThreadPoolExecutor",
                "ProcessPoolExecutor", "concurrent.futures.ProcessPoolExecutor", "threading.Thread", "multiprocessing.Pool", "concurrent.futures.wait",
                # working directory / host / user / clock dependent values
                "os.path.abspath", "os.path.realpath", "os.path.expanduser", "os.path.relpath", "os.path.getmtime", "os.path.getctime", "os.stat", "os.uname", "os.getlogin",
                "pathlib.Path.cwd", "Path.cwd", "pathlib.Path.home", "Path.home", "socket.gethostname", "socket.getfqdn", "getpass.getuser", "platform.node",
                "platform.platform", "platform.uname", "time.strftime", "time.localtime", "time.gmtime", "time.ctime", "time.asctime", "datetime.datetime.today",
                "datetime.date.today", "date.today", "tempfile.mkstemp", "tempfile.mkdtemp", "tempfile.NamedTemporaryFile"}
NONDET_METHODS = {"resolve", "absolute", "expanduser"}  # pathlib: cwd / home dependent


def _only_logged(f: Func, call: ast.Call) -> bool:
    """The value of `call` can only reach log output: it is an argument of a logging call, or is bound to a local that is read only inside logging calls."""
    def in_logging(n: ast.AST) -> bool:
        for a in ancestors(n):
            if isinstance(a, ast.Call) and (dotted(a.func) or "").startswith(("logging.", "logger.")):
                return True
            if isinstance(a, ast.stmt):
                break
        return False
    if in_logging(call):
        return True
    st = call
    for a in ancestors(call):
        if isinstance(a, ast.stmt):
            st = a
            break
    if isinstance(st, ast.Assign) and len(st.targets) == 1 and isinstance(st.targets[0], ast.Name):
        v = st.targets[0].id
        uses = [n for n in body_walk(f.node) if isinstance(n, ast.Name) and n.id == v and isinstance(n.ctx, ast.Load)]
        stores = [n for n in body_walk(f.node) if isinstance(n, ast.Name) and n.id == v and isinstance(n.ctx, ast.Store)]
        return len(stores) == 1 and all(in_logging(u) for u in uses)
    return False


def rule_D6_nondet(tree: Tree) -> RuleResult:
    r = RuleResult("D6b", "no nondeterminism source in flow code: hash/id/random/time/env/cwd calls, order-sensitive iteration over sets")
    cg = CallGraph.of(tree)
    run = tree.func("main", "run")
    reach = cg.reachable([run])
    # option handling runs inside parse_args() (argparse actions, helpers called from them): part of every run although not a resolved callee of run()
    reach = set(reach) | set(tree.module("main").functions.values())
    r.floor = 0
    for f in sorted(reach, key=lambda x: x.key):
        if f.module.short in ("log",):
            continue
        r.instances += 1
        bad = []
        for n in body_walk(f.node):
            if isinstance(n, ast.Call):
                d = dotted(n.func) or ""
                q = tree.qualname_of(f.module, n.func) or d
                if d in NONDET_CALLS or q in NONDET_CALLS or (isinstance(n.func, ast.Attribute) and n.func.attr in NONDET_METHODS and not n.args):
                    if not _only_logged(f, n):
                        bad.append((n, f"call of {d or n.func.attr}"))
            if isinstance(n, ast.Attribute) and dotted(n) in ("os.environ",):
                bad.append((n, "reads os.environ"))
            # `assert` is compiled away under python -O / PYTHONOPTIMIZE: a check (or an effect on control flow through the surrounding try/except) that exists
            # only without that setting makes the export depend on the environment
            if isinstance(n, ast.Assert):
                bad.append((n, "assert statement (removed under PYTHONOPTIMIZE / -O)"))
            # text-mode open() without an explicit encoding decodes with the locale's encoding: the same file is read differently (or not at all) under LANG=C
            if isinstance(n, ast.Call) and dotted(n.func) in ("open", "io.open"):
                mode = try_fold(n.args[1]) if len(n.args) > 1 else next((try_fold(k.value) for k in n.keywords if k.arg == "mode"), "r")
                if isinstance(mode, str) and "b" not in mode and not any(k.arg == "encoding" for k in n.keywords) and len(n.args) < 4:
                    bad.append((n, "text-mode open() without encoding= (decoding depends on the locale)"))
            # set.pop() returns an arbitrary element: for str / bytes elements the one that comes out depends on the per-process hash seed
            if isinstance(n, ast.Call) and isinstance(n.func, ast.Attribute) and n.func.attr == "pop" and not n.args and not n.keywords:
                recv = n.func.value
                set_attrs_ = _set_typed_attrs(tree)
                local_sets_ = {dotted(a.targets[0]) for a in body_walk(f.node) if isinstance(a, ast.Assign) and len(a.targets) == 1 and dotted(a.targets[0])
                               and _is_set_expr(a.value, set_attrs_ | {dotted(b.targets[0]) for b in body_walk(f.node) if isinstance(b, ast.Assign) and len(b.targets) == 1
                                                                    and dotted(b.targets[0]) and _is_set_expr(b.value, set_attrs_)})}
                if _is_set_expr(recv, set_attrs_) or dotted(recv) in local_sets_:
                    bad.append((n, "set.pop() (arbitrary element, hash-seed dependent)"))
            # text written to stdout / stderr outside the logging framework is encoded with the locale of the terminal: a non-ASCII character raises
            # UnicodeEncodeError under LANG=C and the exception changes what is exported
            if isinstance(n, ast.Call) and dotted(n.func) in ("print", "sys.stdout.write", "sys.stderr.write"):
                lit = [x.value for x in ast.walk(n) if isinstance(x, ast.Constant) and isinstance(x.value, str)]
                if any(ord(ch) > 127 for t in lit for ch in t):
                    bad.append((n, "print of a non-ASCII literal (depends on the terminal encoding)"))
        # memoising decorators keep results across run() calls (hidden module-level state keyed by the arguments only)
        for dec_ in f.node.decorator_list:
            dn = dotted(dec_.func if isinstance(dec_, ast.Call) else dec_) or ""
            if dn.split(".")[-1] in ("lru_cache", "cache", "cached_property", "memoize"):
                bad.append((dec_, f"decorator @{dn} (results survive run() and ignore what changed on disk or in the key log)"))
        for n, what in bad:
            r.ob(False, Finding("D6b", f"{f.key}:nondeterminism:{what.replace(' ', '-')}", f"{f.qualname}: {what} makes the export depend on something other than capture, secrets and options", f.module.line(n)))
        if not bad:
            r.ob(True)
    # the sources compile without warnings: an invalid escape sequence in a string literal ("\_") is a SyntaxWarning today — with warnings turned into errors
    # (PYTHONWARNINGS=error, python -W error) the module no longer imports and the run produces nothing — and a SyntaxError in a later Python
    import warnings
    for m in sorted(tree.modules.values(), key=lambda x: x.relpath):
        r.instances += 1
        msg = None
        with warnings.catch_warnings():
            warnings.simplefilter("error")
            try:
                compile(m.src, m.relpath, "exec", dont_inherit=True)
            except (SyntaxError, SyntaxWarning, DeprecationWarning) as e:
                msg = f"{type(e).__name__}: {e}"
        r.ob(msg is None, Finding("D6b", f"{m.short}:compiles-without-warnings", f"{m.relpath} does not compile when warnings are errors ({msg}): whether the program runs at all "
                                                                                f"then depends on PYTHONWARNINGS / -W of the environment", m.relpath))
    # mutable default arguments anywhere in flow code (state that survives a run())
    for f in sorted(reach, key=lambda x: x.key):
        a = f.node.args
        for d in list(a.defaults) + [x for x in a.kw_defaults if x is not None]:
            if _is_mutable_literal(d):
                r.instances += 1
                r.ob(False, Finding("D6b", f"{f.key}:mutable-default", f"{f.qualname}: mutable default argument `{src(d, 40)}` is created once per process and keeps what an earlier call put into it", f.module.line(f.node)))
    # iteration over set-typed values
    set_attrs = _set_typed_attrs(tree)
    for f in sorted(reach, key=lambda x: x.key):
        for n in body_walk(f.node):
            it = None
            if isinstance(n, ast.For):
                it = n.iter
            elif isinstance(n, ast.comprehension):
                it = n.iter
            if it is None:
                continue
            local_sets = {dotted(a.targets[0]) for a in body_walk(f.node) if isinstance(a, ast.Assign) and len(a.targets) == 1 and dotted(a.targets[0])
                          and _is_set_expr(a.value, set_attrs)}
            if not _is_set_expr(it, set_attrs) and not (dotted(it) in local_sets):
                continue
            if isinstance(it, ast.Call) and dotted(it.func) == "sorted":
                continue
            r.instances += 1
            order_sensitive = False
            why = ""
            if isinstance(n, ast.For):
                for x in n.body:
                    for y in ast.walk(x):
                        if isinstance(y, (ast.Return, ast.Break)):
                            order_sensitive = True
                            why = "early return/break picks the first match in hash order"
                        if isinstance(y, ast.Call) and isinstance(y.func, ast.Attribute) and y.func.attr in ("append", "extend", "write"):
                            order_sensitive = True
                            why = "ordered accumulation in hash order"
                        # item assignment keyed by something computed from the element: when two elements yield the same key the last one in hash order wins
                        if isinstance(y, ast.Assign) and any(isinstance(t, ast.Subscript) and not isinstance(t.slice, ast.Slice) for t in y.targets):
                            order_sensitive = True
                            why = "keyed overwrite (the last element in hash order wins for equal keys)"
            r.sample({"function": f.qualname, "iterates": src(it, 60), "order_sensitive": order_sensitive})
            r.ob(not order_sensitive, Finding("D6b", f"{f.key}:set-iteration-order",
                                              f"{f.qualname} iterates the set `{src(it, 60)}` with {why}: for bytes elements the order follows the per-process "
                                              f"string-hash seed, so with two matching elements the choice differs between runs", f.module.line(n)))
    return r


def _set_typed_attrs(tree: Tree) -> Set[str]:
    out = set()
    for c in tree.all_classes():
        for f in c.methods.values():
            for n in body_walk(f.node):
                if isinstance(n, ast.Assign) and isinstance(n.targets[0], ast.Attribute) and dotted(n.targets[0].value) == "self":
                    v = n.value
                    if isinstance(v, (ast.Set, ast.SetComp)) or (isinstance(v, ast.Call) and dotted(v.func) in ("set", "frozenset")):
                        out.add(n.targets[0].attr)
    return out


def _is_set_expr(e: ast.AST, set_attrs: Set[str]) -> bool:
    if isinstance(e, ast.Attribute) and e.attr in set_attrs:
        return True
    if isinstance(e, (ast.Set, ast.SetComp)):
        return True
    if isinstance(e, ast.Call) and dotted(e.func) in ("set", "frozenset"):
        return True
    if isinstance(e, ast.BinOp) and isinstance(e.op, (ast.BitOr, ast.BitAnd, ast.Sub, ast.BitXor)):
        return _is_set_expr(e.left, set_attrs) or _is_set_expr(e.right, set_attrs)
    if isinstance(e, ast.Call) and isinstance(e.func, ast.Attribute) and e.func.attr in ("union", "intersection", "difference"):
        return _is_set_expr(e.func.value, set_attrs)
    return False


def rule_D6_paths(tree: Tree) -> RuleResult:
    r = RuleResult("D6c", "no cwd-relative path literal as the default of an option that is read as an implicit input")
    from .keylog import argparse_model
    opts = argparse_model(tree)
    main = tree.module("main")
    # options whose value is opened for reading when omitted and is not the capture itself
    for name in ("sslkeylog",):
        o = opts.get(name)
        if o is None:
            raise AnchorMissing(f"--{name} not found")
        r.instances += 1
        d = o.get("default")
        rel = isinstance(d, str) and not d.startswith("/")
        r.ob(not rel, Finding("D6c", f"main:arg_parser_init:{name}-relative-default",
                              f"--{name} defaults to the cwd-relative path {d!r}: what is read when the option is omitted depends on the working directory", main.line(o["_node"])))
    r.notes.append("--infile / --outfile name the capture and the result themselves and are excluded (the capture is an explicit input of the property)")
    return r


def _kind(e: ast.AST):
    if isinstance(e, (ast.List, ast.ListComp)) or (isinstance(e, ast.Call) and dotted(e.func) == "list"):
        return "list"
    if isinstance(e, (ast.Set, ast.SetComp)) or (isinstance(e, ast.Call) and dotted(e.func) in ("set", "frozenset")):
        return "set"
    if isinstance(e, (ast.Dict, ast.DictComp)) or (isinstance(e, ast.Call) and dotted(e.func) == "dict"):
        return "dict"
    if isinstance(e, ast.Constant) and isinstance(e.value, (bytes, str, int, bool)) and e.value is not None:
        return type(e.value).__name__
    return None


def rule_attr_kinds(tree: Tree) -> RuleResult:
    r = RuleResult("KIND", "every instance attribute of a flow class keeps one container kind on all assignments reachable from run() (a set re-created as a list breaks `|`, `.add`)")
    cg = CallGraph.of(tree)
    reach = cg.reachable([tree.func("main", "run")])
    for mod, cn in FLOW_CLASSES:
        c = tree.cls(mod, cn)
        kinds: Dict[str, Dict[str, List[str]]] = {}
        for f in c.methods.values():
            if f not in reach and f.name != "__init__":
                continue
            for n in body_walk(f.node):
                if isinstance(n, (ast.Assign, ast.AnnAssign)) and getattr(n, "value", None) is not None:
                    for t in (n.targets if isinstance(n, ast.Assign) else [n.target]):
                        if isinstance(t, ast.Attribute) and dotted(t.value) == "self":
                            k = _kind(n.value)
                            if k in ("list", "set", "dict"):
                                kinds.setdefault(t.attr, {}).setdefault(k, []).append(f.qualname)
        r.instances += 1
        bad = {a: k for a, k in kinds.items() if len(k) > 1}
        r.ob(not bad, Finding("KIND", f"{mod}:{cn}:attribute-kinds",
                              f"{cn}: {[(a, {k: v for k, v in ks.items()}) for a, ks in bad.items()][:2]} — the same attribute is (re)created with different container kinds on paths reachable from run(); "
                              f"code written for one kind (set union, membership add) raises on the other and the flow's later packets are dropped", c.module.relpath))
    return r


def rule_D6_outfile(tree: Tree) -> RuleResult:
    """D6o — the output file's content does not depend on what an earlier run left at the same path: the object handed to the pcapng writer
    is opened truncating (mode 'w…', or os.open flags with O_TRUNC)."""
    r = RuleResult("D6o", "the output path is opened truncating (mode 'w', or O_TRUNC): nothing an earlier run left in the file survives")
    run = tree.func("main", "run")
    wr = [n for n in body_walk(run.node) if isinstance(n, ast.Call) and dotted(n.func) == "dpkt.pcapng.Writer"]
    if not wr:
        raise AnchorMissing("main.run: no dpkt.pcapng.Writer(...) call")
    for w in wr:
        r.instances += 1
        arg = w.args[0] if w.args else next((k.value for k in w.keywords if k.arg in ("fileobj", "f")), None)
        opens: List[ast.Call] = []
        if isinstance(arg, ast.Call):
            opens = [arg]
        elif isinstance(arg, ast.Name):
            from ..dataflow import reaching_definitions
            cfg = cfg_of(run.node)
            rd = reaching_definitions(cfg)
            for d in sorted(rd[cfg.node_of(w)].get(arg.id, ())):
                a = cfg.nodes[d].ast
                if isinstance(a, ast.Assign) and isinstance(a.value, ast.Call):
                    opens.append(a.value)
                elif isinstance(a, (ast.With, ast.withitem)):
                    for it in (a.items if isinstance(a, ast.With) else [a]):
                        if isinstance(it.optional_vars, ast.Name) and it.optional_vars.id == arg.id and isinstance(it.context_expr, ast.Call):
                            opens.append(it.context_expr)
                else:
                    opens.append(ast.Call(func=ast.Name("?", ast.Load()), args=[], keywords=[]))
        ok = bool(opens)
        why = "no opening call found for the writer's file object"
        for o in opens:
            t, why1 = _truncating(o)
            if not t:
                ok, why = False, why1
        r.sample({"writer": src(w, 60), "opened_by": [src(o, 70) for o in opens]})
        r.ob(ok, Finding("D6o", "main:run:outfile-truncated",
                         f"the output file must be opened truncating so that nothing a previous run left at the path survives: {why}", run.module.line(w)))
    return r


def _truncating(c: ast.Call):
    fn = dotted(c.func) or ""
    last = fn.split(".")[-1]
    if fn == "os.fdopen" or fn == "fdopen":
        inner = c.args[0] if c.args else None
        if isinstance(inner, ast.Call) and (dotted(inner.func) or "") in ("os.open", "open") and len(inner.args) >= 2:
            flags = {dotted(x) for x in ast.walk(inner.args[1]) if isinstance(x, (ast.Attribute, ast.Name))}
            if any((f or "").endswith("O_TRUNC") for f in flags):
                return True, ""
            return False, f"`{src(inner, 70)}` has no O_TRUNC"
        return False, f"`{src(c, 70)}`: descriptor of unknown origin"
    if last in ("open", "FileIO"):
        mode = None
        cand = list(c.args[1:2]) + [k.value for k in c.keywords if k.arg == "mode"]
        if fn != "open" and last == "open" and c.args and isinstance(try_fold(c.args[0]), str):
            cand = [c.args[0]] + cand  # Path(...).open("wb")
        for a in cand:
            v = try_fold(a)
            if isinstance(v, str):
                mode = v
                break
        if mode is None:
            return False, f"`{src(c, 70)}` has no constant write mode"
        if "w" in mode and "a" not in mode and "r" not in mode:
            return True, ""
        return False, f"`{src(c, 70)}` opens with mode {mode!r}, which does not truncate"
    return False, f"`{src(c, 70)}` is not a recognised truncating open"

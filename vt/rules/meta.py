"""C13 — effect of the metadata switch (D5)."""
from __future__ import annotations

import ast
from typing import List, Set

from ..core import Tree, Func, dotted, src, AnalysisError, AnchorMissing, body_walk, ancestors, parent
from ..framework import Finding, RuleResult
from ..norm import try_fold, strip_stmts
from ..cfg import cfg_of

STREAM_TYPES = {0x08, 0x09, 0x0a, 0x0b, 0x0c, 0x0d, 0x0e, 0x0f}


def _mentions(e: ast.AST, names: Set[str]) -> bool:
    for n in ast.walk(e):
        d = dotted(n) if isinstance(n, (ast.Name, ast.Attribute)) else None
        if d and d.split(".")[-1] in names:
            return True
    return False


def _switch_conditions(cfg, nid: int, names: Set[str]):
    out = []
    for b, lab in cfg.conditions_at(nid):
        node = cfg.nodes[b]
        if node.kind in ("if", "while") and _mentions(node.ast.test, names):
            out.append((b, lab))
    return out


def rule_D5(tree: Tree) -> RuleResult:
    r = RuleResult("D5", "statements control-dependent on the metadata switch only append to the output channel / select handshake bytes; "
                         "the application-data path and all cipher state are independent of it")
    # ---------------- TLS: Session
    ses = tree.cls("session", "Session")
    names = {"exp_meta"}
    total_dep = 0
    for f in ses.methods.values():
        cfg = cfg_of(f.node)
        for n in cfg.stmt_nodes():
            if n.kind not in ("stmt",):
                continue
            conds = _switch_conditions(cfg, n.id, names)
            if not conds:
                continue
            total_dep += 1
            r.instances += 1
            a = n.ast
            ok = False
            if isinstance(a, ast.Expr) and isinstance(a.value, ast.Call) and isinstance(a.value.func, ast.Attribute) \
                    and a.value.func.attr == "append" and dotted(a.value.func.value) == "self.application_traffic":
                ok = True
            elif isinstance(a, ast.Expr) and (isinstance(a.value, ast.Constant) or (isinstance(a.value, ast.Call) and (dotted(a.value.func) or "").startswith("logging."))):
                ok = True
            elif isinstance(a, ast.Pass):
                ok = True
            if ok and f.name == "handle_tls_record":
                # metadata is handshake / alert / change-cipher-spec material: nothing is added in the application-data arm
                for b, lab in cfg.conditions_at(n.id):
                    nd = cfg.nodes[b]
                    if nd.kind == "case" and lab == "T" and isinstance(nd.ast.pattern, ast.MatchValue) and try_fold(nd.ast.pattern.value) == 0x17:
                        ok = False
            if ok:
                # what runs only with -a must not be able to raise: an exception there skips the statements that follow (key switch, state update) only with the switch on
                risky = [x for x in ast.walk(a) if isinstance(x, ast.Subscript) and not isinstance(x.slice, ast.Slice) and isinstance(x.ctx, ast.Load)]
                if risky:
                    ok = False
            r.ob(ok, Finding("D5", f"session:{f.qualname}:meta-dependent:{_norm_stmt(a)}",
                             f"{f.qualname}: `{src(a, 100)}` executes only with (or only without) -a; the switch may only add records to the output "
                             f"channel, with expressions that cannot raise (no index / key lookup) — it must not influence decryption state, gates or application-data handling", f.module.line(a)))
        # every read of the switch is a branch test (not stored into other state, not passed on)
        for n in body_walk(f.node):
            if isinstance(n, ast.Attribute) and n.attr == "exp_meta" and isinstance(n.ctx, ast.Load):
                r.instances += 1
                p = n
                in_test = False
                for a in ancestors(n):
                    if isinstance(a, (ast.If, ast.IfExp, ast.While)) and _contains(a.test, n):
                        in_test = True
                        break
                    if isinstance(a, ast.stmt):
                        break
                r.ob(in_test, Finding("D5", f"session:{f.qualname}:meta-read", f"{f.qualname}: the metadata switch is used outside a branch test (`{src(_stmt_of(n), 80)}`)", f.module.line(n)))
    if total_dep < 3:
        raise AnalysisError(f"Session: only {total_dep} statements depend on exp_meta (floor 3) — anchor drift")
    # application-data branch not under the switch: calls of the two application-record handlers
    hr = tree.func("session", "Session.handle_tls_record")
    cfg = cfg_of(hr.node)
    for n in body_walk(hr.node):
        if isinstance(n, ast.Call) and (dotted(n.func) or "") in ("self.handle_tls_application_record", "self.handle_tls_13_application_record", "self.handle_tls_handshake_record", "self.handle_alert"):
            r.instances += 1
            conds = _switch_conditions(cfg, cfg.node_of(n), names)
            r.ob(not conds, Finding("D5", f"session:Session.handle_tls_record:{dotted(n.func).split('.')[-1]}:independent",
                                    f"the call `{src(n, 60)}` is control-dependent on the metadata switch", hr.module.line(n)))
    # records added verbatim: the appended payload under the switch in handle_tls_record is record.raw
    r.instances += 1
    raw_ok = True
    cnt = 0
    for n in body_walk(hr.node):
        if isinstance(n, ast.Call) and isinstance(n.func, ast.Attribute) and n.func.attr == "append" and dotted(n.func.value) == "self.application_traffic":
            cnt += 1
            a = n.args[0]
            if not (isinstance(a, ast.Tuple) and len(a.elts) == 3 and dotted(a.elts[0]) == "record.raw" and dotted(a.elts[1]) == "record" and dotted(a.elts[2]) == "isserver"):
                raw_ok = False
    r.ob(raw_ok and cnt >= 3, Finding("D5", "session:Session.handle_tls_record:verbatim", "metadata records must be appended verbatim as (record.raw, record, isserver)", hr.module.line(hr.node)))
    # ---------------- QUIC: builder
    qb = tree.func("quic.quic_output_builder", "QUICOutputbuilder.build")
    cfg = cfg_of(qb.node)
    mparam = qb.params[1] if len(qb.params) > 1 else "metadata"
    for n in cfg.stmt_nodes():
        if n.kind != "stmt":
            continue
        conds = _switch_conditions(cfg, n.id, {mparam})
        if not conds:
            continue
        r.instances += 1
        a = n.ast
        ok = isinstance(a, ast.Assign) and dotted(a.targets[0]) == "data" and (dotted(a.value) or "").startswith("frame.")
        r.ob(ok, Finding("D5", f"quic.quic_output_builder:QUICOutputbuilder.build:meta-dependent:{_norm_stmt(a)}",
                         f"QUICOutputbuilder.build: `{src(a, 100)}` depends on the metadata switch; only the selection of CRYPTO / version-negotiation "
                         f"bytes as datagram content may", qb.module.line(a)))
    # STREAM selection independent of the switch and covers the 8 STREAM types
    r.instances += 1
    stream_ok = False
    for n in body_walk(qb.node):
        if isinstance(n, ast.Assign) and dotted(n.targets[0]) == "data" and dotted(n.value) == "frame.stream_data":
            nid = cfg.node_of(n)
            if _switch_conditions(cfg, nid, {mparam}):
                continue
            for b, lab in cfg.conditions_at(nid):
                t = cfg.nodes[b].ast.test if cfg.nodes[b].kind == "if" else None
                if t is not None and lab == "T" and isinstance(t, ast.Compare) and dotted(t.left) == "frame.frame_type" and isinstance(t.ops[0], ast.In):
                    v = try_fold(t.comparators[0])
                    if v is not None and set(v) == STREAM_TYPES:
                        stream_ok = True
    r.ob(stream_ok, Finding("D5", "quic.quic_output_builder:QUICOutputbuilder.build:stream-independent",
                            "stream data must be selected for all STREAM types 0x08–0x0f independently of the metadata switch", qb.module.line(qb.node)))
    # frames without data are skipped only when no data was selected
    r.instances += 1
    skip_ok = False
    for n in body_walk(qb.node):
        if isinstance(n, ast.Continue):
            nid = cfg.node_of(n)
            for b, lab in cfg.conditions_at(nid):
                t = cfg.nodes[b].ast.test if cfg.nodes[b].kind == "if" else None
                if t is not None and lab == "T" and src(t) == "data is None":
                    skip_ok = True
    r.ob(skip_ok, Finding("D5", "quic.quic_output_builder:QUICOutputbuilder.build:skip-rule", "a frame may be skipped only under `data is None`", qb.module.line(qb.node)))
    # QuicSession.build_output: hands the whole output buffer to the builder whatever the switch says; the switch is only passed on to build()
    bo = tree.func("quic.quic_session", "QuicSession.build_output")
    bcfg = cfg_of(bo.node)
    r.instances += 1
    mp = bo.params[1] if len(bo.params) > 1 else "metadata"
    dep = [src(n.ast, 60) for n in bcfg.stmt_nodes() if n.ast is not None and _switch_conditions(bcfg, n.id, {mp})]
    ctor = [c for c in body_walk(bo.node) if isinstance(c, ast.Call) and dotted(c.func) == "QUICOutputbuilder"]
    uses = [n for n in body_walk(bo.node) if isinstance(n, ast.Name) and n.id == mp and isinstance(n.ctx, ast.Load)]
    okb = not dep and len(ctor) == 1 and ctor[0].args and dotted(ctor[0].args[0]) == "self.output_buffer" and len(uses) == 1
    r.ob(okb, Finding("D5", "quic.quic_session:QuicSession.build_output:meta-independent",
                      f"build_output must give the builder the whole output buffer (`self.output_buffer`) with and without -a and only pass the switch on to build(); found "
                      f"{'statements under the switch ' + str(dep[:2]) if dep else ''} builder input `{src(ctor[0].args[0], 40) if ctor and ctor[0].args else None}`, {len(uses)} reads of the switch",
                      bo.module.line(bo.node)))
    # run(): the switch is only passed on; nothing in run() is control-dependent on it and nothing re-orders the result under it
    run = tree.func("main", "run")
    rcfg = cfg_of(run.node)
    r.instances += 1
    dep = []
    for n in rcfg.stmt_nodes():
        if _switch_conditions(rcfg, n.id, {"metadata"}):
            dep.append(src(n.ast, 70) if n.ast is not None else "?")
    r.ob(not dep, Finding("D5", "main:run:meta-dependent", f"run() executes {dep[:3]} only with (or only without) -a: the switch may only be handed to the sessions", run.module.line(run.node)))
    # the switch reaches both consumers from args.metadata
    from ..prov import Prov
    pv = Prov(tree)
    for f, e, label in ((tree.func("session", "Session.__init__"), ast.Name("exp_meta", ast.Load()), "Session.exp_meta"),
                        (qb, ast.Name(mparam, ast.Load()), "QUICOutputbuilder.build(metadata)")):
        r.instances += 1
        leaves, flags = pv.of(f, e)
        r.ob(leaves == {("attr", "args.metadata")} and not (flags & {"arith", "bool", "cmp"}),
             Finding("D5", f"{f.key}:switch-provenance", f"{label} must be exactly the -a option at every call site; derives from {sorted(leaves)} {sorted(flags & {'arith', 'bool', 'cmp'})}", f.module.line(f.node)))
    return r


def _contains(root: ast.AST, node: ast.AST) -> bool:
    return any(x is node for x in ast.walk(root))


def _stmt_of(n: ast.AST) -> ast.AST:
    while not isinstance(n, ast.stmt):
        n = parent(n)
    return n


def _norm_stmt(a: ast.AST) -> str:
    return " ".join(src(a, 70).split())

"""C06 / C07 / C08 — output construction: append-only channels (A8), frame provenance (D3), TCP conversation typestate (A7),
telescoping record split (T7s), timestamp / address provenance (D2)."""
from __future__ import annotations

import ast
from typing import Any, Dict, List, Optional, Set, Tuple

from ..core import Tree, Func, Class, dotted, src, AnalysisError, AnchorMissing, body_walk, ancestors, parent
from ..framework import Finding, RuleResult
from ..norm import try_fold, strip_stmts, canon
from ..cfg import cfg_of, fact_holds
from .pkn import nf

BAD_LIST_OPS = {"insert", "pop", "remove", "clear", "reverse", "sort", "__delitem__", "__setitem__"}
CHANNELS = [("session", "Session", "application_traffic"), ("quic.quic_session", "QuicSession", "output_buffer"),
            ("output_builder", "OutputBuilder", "out"), ("quic.quic_output_builder", "QUICOutputbuilder", "out")]


def rule_A8(tree: Tree) -> RuleResult:
    r = RuleResult("A8", "output channels are append-only and consumed in order: only append/extend after initialisation; builders iterate the channel itself")
    for mod, cn, attr in CHANNELS:
        c = tree.cls(mod, cn)
        r.instances += 1
        bad = []
        appends = 0
        for f in c.methods.values():
            for n in body_walk(f.node):
                if isinstance(n, ast.Call) and isinstance(n.func, ast.Attribute) and dotted(n.func.value) == f"self.{attr}":
                    if n.func.attr in ("append", "extend"):
                        appends += 1
                    elif n.func.attr in BAD_LIST_OPS:
                        bad.append(f"{f.qualname}: {src(n, 60)}")
                if isinstance(n, ast.Assign):
                    for t in n.targets:
                        if dotted(t) == f"self.{attr}" and not (f.name == "__init__" and isinstance(n.value, ast.List) and not n.value.elts):
                            bad.append(f"{f.qualname}: rebinding {src(n, 60)}")
                        if isinstance(t, ast.Subscript) and dotted(t.value) == f"self.{attr}":
                            bad.append(f"{f.qualname}: {src(n, 60)}")
                if isinstance(n, ast.Delete) and any(dotted(getattr(t, "value", t)) == f"self.{attr}" for t in n.targets):
                    bad.append(f"{f.qualname}: {src(n, 60)}")
                if isinstance(n, ast.AugAssign) and dotted(n.target) == f"self.{attr}":
                    appends += 1
        r.sample({"channel": f"{cn}.{attr}", "appends": appends, "problems": bad})
        r.ob(not bad and appends >= 1, Finding("A8", f"{mod}:{cn}.{attr}:append-only",
                                               f"{cn}.{attr} carries the export in processing order; it may only be appended to, found {bad[:3] or 'no append at all'}", c.module.relpath))
    # consumers iterate the channel itself
    for mod, qn, it_txt in (("output_builder", "OutputBuilder.build", "self.decrypted_records"), ("quic.quic_output_builder", "QUICOutputbuilder.build", "self.decrypted_traffic")):
        f = tree.func(mod, qn)
        r.instances += 1
        loops = [n for n in body_walk(f.node) if isinstance(n, ast.For)]
        emit_loops = [l for l in loops if any(isinstance(c, ast.Call) and ((dotted(c.func) or "").startswith("self.build_") or (dotted(c.func) or "") == "self.out.append") for s in l.body for c in ast.walk(s))]
        ok = bool(emit_loops) and all(src(l.iter) == it_txt for l in emit_loops)
        r.ob(ok, Finding("A8", f"{mod}:{qn}:in-order", f"{qn} must emit packets while iterating `{it_txt}` itself (no sorted/reversed/sliced view); found {[src(l.iter, 50) for l in emit_loops]}", f.module.line(f.node)))
        # the channel attribute is the constructor argument, unchanged
        init = f.cls.methods["__init__"]
        r.instances += 1
        stored = [src(s.value) for s in body_walk(init.node) if isinstance(s, (ast.Assign, ast.AnnAssign)) and dotted(s.targets[0] if isinstance(s, ast.Assign) else s.target) == it_txt]
        r.ob(stored == [init.params[1]], Finding("A8", f"{mod}:{qn}:channel-binding", f"{it_txt} must be the list handed to the constructor, found {stored}", f.module.line(init.node)))
    # run(): all_decrypted_sessions extended in session order and written in list order
    run = tree.func("main", "run")
    r.instances += 1
    bad = []
    ext = 0
    for n in body_walk(run.node):
        if isinstance(n, ast.Call) and isinstance(n.func, ast.Attribute) and dotted(n.func.value) == "all_decrypted_sessions":
            if n.func.attr == "extend":
                ext += 1
            elif n.func.attr != "append":
                bad.append(src(n, 60))
    wl = [n for n in body_walk(run.node) if isinstance(n, ast.For) and any(isinstance(c, ast.Call) and (dotted(c.func) or "").endswith("writepkt") for s in n.body for c in ast.walk(s))]
    ok = not bad and ext == 2 and len(wl) == 1 and src(wl[0].iter) == "all_decrypted_sessions"
    r.ob(ok, Finding("A8", "main:run:write-order", f"run() must extend the result list session by session and write it in list order; found {bad or [src(w.iter) for w in wl]}", run.module.line(run.node)))
    # sessions are finalised in creation order: iterate the session lists themselves
    r.instances += 1
    fl = [src(n.iter) for n in body_walk(run.node) if isinstance(n, ast.For) and any(isinstance(c, ast.Call) and (dotted(c.func) or "") == "all_decrypted_sessions.extend" for s in n.body for c in ast.walk(s))]
    r.ob(fl == ["sessions", "quic_sessions"], Finding("A8", "main:run:finalisation-order", f"finalisation loops must iterate `sessions` then `quic_sessions` directly; found {fl}", run.module.line(run.node)))
    return r


# ------------------------------------------------------------------------------------------ D3
def _layers(e: ast.AST) -> List[ast.Call]:
    """a / b / c -> [a, b, c] (calls)"""
    if isinstance(e, ast.BinOp) and isinstance(e.op, ast.Div):
        return _layers(e.left) + _layers(e.right)
    return [e]


FORBIDDEN_KW = {"chksum", "len", "plen", "dataofs", "ihl", "nh", "proto", "type", "options"}


def frame_constructions(fn: ast.FunctionDef) -> List[Tuple[str, List[ast.Call], ast.AST]]:
    out = []
    for n in body_walk(fn):
        if isinstance(n, ast.Assign) and isinstance(n.value, ast.BinOp) and isinstance(n.value.op, ast.Div):
            ls = _layers(n.value)
            if ls and isinstance(ls[0], ast.Call) and dotted(ls[0].func) == "Ether":
                out.append((dotted(n.targets[0]), ls, n))
    return out


def rule_D3(tree: Tree) -> RuleResult:
    r = RuleResult("D3", "everything that reaches the writer is Ether/IP|IPv6/TCP|UDP[/Raw]; no length/checksum overrides; IP class follows the session's address family; "
                         "empty sessions contribute nothing")
    specs = [("output_builder", "OutputBuilder", ["build_ack_handshake", "build_server_packet", "build_client_packet"], "TCP"),
             ("quic.quic_output_builder", "QUICOutputbuilder", ["build"], "UDP")]
    for mod, cn, meths, l4 in specs:
        c = tree.cls(mod, cn)
        for mn in meths:
            f = c.methods.get(mn)
            if f is None:
                raise AnchorMissing(f"{cn}.{mn} not found")
            cfg = cfg_of(f.node)
            cons = frame_constructions(f.node)
            if not cons:
                raise AnalysisError(f"{cn}.{mn}: no frame construction found")
            names = set()
            for var, ls, node in cons:
                r.instances += 1
                names.add(var)
                kinds = [dotted(x.func) if isinstance(x, ast.Call) else "?" for x in ls]
                ok = len(kinds) in (3, 4) and kinds[0] == "Ether" and kinds[1] in ("IP", "IPv6") and kinds[2] == l4 and (len(kinds) == 3 or kinds[3] == "Raw")
                kws = {k.arg for x in ls if isinstance(x, ast.Call) for k in x.keywords}
                ok = ok and not (kws & FORBIDDEN_KW)
                facts = cfg.facts_at(cfg.node_of(node))
                v6 = fact_holds(facts, "self.ipv6", True)
                v4 = fact_holds(facts, "self.ipv6", False)
                fam_ok = (kinds[1] == "IPv6" and v6) or (kinds[1] == "IP" and v4)
                r.ob(ok and fam_ok, Finding("D3", f"{mod}:{cn}.{mn}:frame-shape:{var}",
                                            f"{cn}.{mn}: `{var}` is built as {'/'.join(str(k) for k in kinds)} with keywords {sorted(kws & FORBIDDEN_KW)} under ipv6={'T' if v6 else 'F' if v4 else '?'}; "
                                            f"every exported frame must be Ether/IP(v4|v6 as the session)/{l4}[/Raw] and leave lengths and checksums to the packet builder", f.module.line(node)))
            # what is appended to out: tuples (frame var, ts)
            r.instances += 1
            bad = []
            cnt = 0
            for n in body_walk(f.node):
                if isinstance(n, ast.Call) and isinstance(n.func, ast.Attribute) and dotted(n.func.value) == "self.out" and n.func.attr in ("append", "extend"):
                    cnt += 1
                    elems = []
                    a = n.args[0]
                    if n.func.attr == "append":
                        elems = [a]
                    elif isinstance(a, ast.List):
                        elems = a.elts
                    else:
                        bad.append(src(n, 60))
                    for e in elems:
                        if not (isinstance(e, ast.Tuple) and len(e.elts) == 2 and dotted(e.elts[0]) in names):
                            bad.append(src(e, 60))
            r.ob(not bad and cnt >= 1, Finding("D3", f"{mod}:{cn}.{mn}:out-elements", f"{cn}.{mn}: only (frame, timestamp) pairs of frames built here may be emitted; found {bad[:3]}", f.module.line(f.node)))
    # returns of build functions: self.out or []
    for mod, qn in (("output_builder", "OutputBuilder.build"), ("quic.quic_output_builder", "QUICOutputbuilder.build")):
        f = tree.func(mod, qn)
        r.instances += 1
        rets = [src(n.value) if n.value is not None else "None" for n in body_walk(f.node) if isinstance(n, ast.Return)]
        r.ob(set(rets) <= {"self.out", "[]"} and "self.out" in rets, Finding("D3", f"{mod}:{qn}:returns", f"{qn} must return its packet list (or an empty list), found {rets}", f.module.line(f.node)))
    # QuicSession.build_output: builder result or empty list — never a placeholder
    f = tree.func("quic.quic_session", "QuicSession.build_output")
    r.instances += 1
    rets = [n.value for n in body_walk(f.node) if isinstance(n, ast.Return)]
    bad = []
    for v in rets:
        if v is None:
            bad.append("None")
        elif isinstance(v, ast.List) and not v.elts:
            continue
        elif isinstance(v, ast.Call) and (dotted(v.func) or "").endswith(".build"):
            continue
        else:
            bad.append(src(v, 50))
    r.ob(not bad and bool(rets), Finding("D3", "quic.quic_session:QuicSession.build_output:placeholder",
                                         f"a QUIC session without exportable frames must contribute nothing; build_output returns {bad}, which the writer turns into a bogus packet", f.module.line(f.node)))
    # Session.decrypt returns builder.build()
    f = tree.func("session", "Session.decrypt")
    r.instances += 1
    rets = [src(n.value) for n in body_walk(f.node) if isinstance(n, ast.Return) and n.value is not None]
    r.ob(rets == ["self.builder.build()"], Finding("D3", "session:Session.decrypt:returns", f"Session.decrypt must return the builder's packets, found {rets}", f.module.line(f.node)))
    # writer: dpkt.pcapng.Writer(file, ...) and writepkt(bytes(buf), ts)
    run = tree.func("main", "run")
    r.instances += 1
    wr = [n for n in body_walk(run.node) if isinstance(n, ast.Call) and dotted(n.func) == "dpkt.pcapng.Writer"]
    wp = [n for n in body_walk(run.node) if isinstance(n, ast.Call) and (dotted(n.func) or "").endswith(".writepkt")]
    ok = len(wr) == 1 and len(wp) == 1 and [src(a) for a in wp[0].args] == ["bytes(buf)", "ts"]
    loop = next((a for a in ancestors(wp[0]) if isinstance(a, ast.For)), None) if wp else None
    ok = ok and loop is not None and src(loop.target) == "(buf, ts)"
    opened = [n for n in body_walk(run.node) if isinstance(n, ast.Call) and dotted(n.func) == "open" and len(n.args) > 1 and try_fold(n.args[1]) == "wb"]
    ok = ok and len(opened) == 1
    if ok:
        # the output file is closed on the way out: opened as the item of a `with`, or bound to a name whose .close() post-dominates the open
        par = parent(opened[0])
        if isinstance(par, ast.withitem):
            closed = True
        elif isinstance(par, ast.Assign) and len(par.targets) == 1 and isinstance(par.targets[0], ast.Name):
            fname = par.targets[0].id
            rc0 = cfg_of(run.node)
            closed = any(isinstance(n, ast.Call) and dotted(n.func) == f"{fname}.close" and rc0.postdominates(rc0.node_of(n), rc0.node_of(opened[0]))
                         for n in body_walk(run.node))
        else:
            closed = False
        ok = closed
    if ok:
        # the output file is opened (= truncated) only after the capture has been read: the reading loop dominates the open and does not contain it
        # (-o may name the file given with -i; a run that fails while reading must not leave a truncated result behind)
        rc1 = cfg_of(run.node)
        rd_loops = [n for n in body_walk(run.node) if isinstance(n, ast.For) and src(n.target) == "(ts, buf)" and not any(x is wp[0] for x in ast.walk(n))]
        ok = len(rd_loops) == 1 and not any(x is opened[0] for x in ast.walk(rd_loops[0])) and rc1.dominates(rc1.node_of(rd_loops[0]), rc1.node_of(opened[0]))
    if ok:
        sl = next((try_fold(k.value) for k in wr[0].keywords if k.arg == "snaplen"), None)
        # a frame carries up to 2^14 bytes of record plaintext plus Ethernet/IPv6/TCP headers: the announced snaplen must not be smaller
        ok = sl is None or sl == 0 or (isinstance(sl, int) and sl >= 16384 + 14 + 40 + 60)
    if ok:
        # the frames written are Ethernet frames: the interface block must say so (dpkt's default); a link type taken from elsewhere
        # (e.g. the input's first interface) mislabels them
        for k in wr[0].keywords:
            if k.arg == "linktype":
                v = try_fold(k.value)
                ok = ok and (v == 1 or (dotted(k.value) or "").endswith("DLT_EN10MB"))
            elif k.arg in ("idb", None):
                ok = False
        ok = ok and len(wr[0].args) == 1
    if ok:
        rcfg = cfg_of(run.node)
        o_n, w_n = rcfg.node_of(opened[0]), rcfg.node_of(wr[0])
        # an output file that was opened is always given its pcapng header (Writer) — no return in between
        ok = rcfg.postdominates(w_n, o_n) and not any(n.kind == "stmt" and isinstance(n.ast, ast.Return) and rcfg.dominates(o_n, n.id) and not rcfg.dominates(w_n, n.id) for n in rcfg.nodes)
    r.ob(ok, Finding("D3", "main:run:writer", "the result must be written with one dpkt.pcapng.Writer on a file opened 'wb' after the capture has been read — constructed on every path once the file is open, also when nothing was decrypted (otherwise a 0-byte, invalid file is left) — as writepkt(bytes(frame), ts) per (frame, ts) pair, with dpkt's default (Ethernet) interface block, and the file closed", run.module.line(run.node)))
    return r


# ------------------------------------------------------------------------------------------ A7
def rule_A7(tree: Tree) -> RuleResult:
    r = RuleResult("A7", "synthetic TCP conversation: handshake before the first data packet; SYN(0,0)/SYN-ACK(0,1)/ACK(1,1); per part: data(seq=own, ack=peer), own += len, ACK(seq=peer, ack=own)")
    ob = tree.cls("output_builder", "OutputBuilder")
    m = ob.module
    b = ob.methods["build"]
    cfg = cfg_of(b.node)
    # typestate: every call of a data builder is preceded, on all paths within the iteration, by `conn_reset False` which is set only after the handshake call
    hs_calls = [n for n in cfg.nodes if n.kind == "stmt" and any(isinstance(c, ast.Call) and dotted(c.func) == "self.build_ack_handshake" for c in ast.walk(n.ast))]
    data_calls = [n for n in cfg.nodes if n.kind == "stmt" and any(isinstance(c, ast.Call) and dotted(c.func) in ("self.build_server_packet", "self.build_client_packet") for c in ast.walk(n.ast))]
    if len(hs_calls) != 1 or len(data_calls) != 2:
        raise AnalysisError("OutputBuilder.build: handshake / data builder calls not found")
    r.instances += 1
    H = hs_calls[0]
    ok = fact_holds(cfg.facts_at(H.id), "self.conn_reset", True)
    # conn_reset = True initially (before the loop) and after a None record; = False only right after the handshake
    sets_false = [n for n in cfg.nodes if n.kind == "stmt" and isinstance(n.ast, ast.Assign) and dotted(n.ast.targets[0]) == "self.conn_reset" and try_fold(n.ast.value) is False]
    sets_true = [n for n in cfg.nodes if n.kind == "stmt" and isinstance(n.ast, ast.Assign) and dotted(n.ast.targets[0]) == "self.conn_reset" and try_fold(n.ast.value) is True]
    ok = ok and len(sets_false) == 1 and cfg.dominates(H.id, sets_false[0].id)
    loop = next((n for n in cfg.nodes if n.kind == "for" and any(d.id in cfg.loop_body_nodes(n.id) for d in data_calls)), None)
    init_true = any(loop is not None and cfg.dominates(s.id, loop.id) for s in sets_true)
    ok = ok and init_true
    # the `if self.conn_reset:` block precedes the data calls in the loop body: the if-node dominates each data call
    ifs = [n for n in cfg.nodes if n.kind == "if" and src(n.ast.test) == "self.conn_reset"]
    ok = ok and len(ifs) == 1 and all(cfg.dominates(ifs[0].id, d.id) for d in data_calls)
    r.ob(ok, Finding("A7", "output_builder:OutputBuilder.build:handshake-first",
                     "the three-way handshake must be emitted exactly when conn_reset is set (initially and after a reset marker) and before any data packet of the conversation", m.line(b.node)))
    # direction dispatch: record[2] true → server builder
    r.instances += 1
    disp_ok = False
    for n in body_walk(b.node):
        if isinstance(n, ast.If) and src(n.test) == "record[2]":
            t = [dotted(c.func) for s in n.body for c in ast.walk(s) if isinstance(c, ast.Call)]
            e = [dotted(c.func) for s in n.orelse for c in ast.walk(s) if isinstance(c, ast.Call)]
            disp_ok = t == ["self.build_server_packet"] and e == ["self.build_client_packet"]
    r.ob(disp_ok, Finding("A7", "output_builder:OutputBuilder.build:direction-dispatch", "records flagged isserver go to build_server_packet, others to build_client_packet", m.line(b.node)))
    # handshake content
    hs = ob.methods["build_ack_handshake"]
    want = {"syn": ("client", "S", 0, 0), "syn_ack": ("server", "SA", 0, 1), "ack": ("client", "A", 1, 1)}
    for var, ls, node in frame_constructions(hs.node):
        r.instances += 1
        w = want.get(var)
        got = _tcp_fields(ls)
        ok = w is not None and got is not None and (got["from"], got["flags"], got["seq"], got["ack"]) == w
        r.ob(ok, Finding("A7", f"output_builder:OutputBuilder.build_ack_handshake:{var}", f"handshake packet `{var}` is {got}, expected sender/flags/seq/ack = {w}", m.line(node)))
    r.instances += 1
    ext = [n for n in body_walk(hs.node) if isinstance(n, ast.Call) and dotted(n.func) == "self.out.extend"]
    ok = len(ext) == 1 and isinstance(ext[0].args[0], ast.List) and [dotted(e.elts[0]) for e in ext[0].args[0].elts] == ["syn", "syn_ack", "ack"] \
        and all(dotted(e.elts[1]) == "self.ts_zero" for e in ext[0].args[0].elts)
    r.ob(ok, Finding("A7", "output_builder:OutputBuilder.build_ack_handshake:order", "the handshake is emitted as SYN, SYN-ACK, ACK, all at the time of the first record", m.line(hs.node)))
    # counters
    init = ob.methods["__init__"]
    r.instances += 1
    ini = {dotted(s.targets[0]): try_fold(s.value, default="?") for s in body_walk(init.node) if isinstance(s, ast.Assign)}
    r.ob(ini.get("self.server_seq") == 1 and ini.get("self.client_seq") == 1, Finding("A7", "output_builder:OutputBuilder.__init__:counters", "both sequence counters start at 1 (after the SYNs)", m.line(init.node)))
    # data builders
    for mn, own, peer in (("build_server_packet", "server", "client"), ("build_client_packet", "client", "server")):
        f = ob.methods[mn]
        cfgf = cfg_of(f.node)
        for var, ls, node in frame_constructions(f.node):
            r.instances += 1
            got = _tcp_fields(ls)
            if var == "packet":
                w = (own, "PA", f"self.{own}_seq", f"self.{peer}_seq")
            else:
                w = (peer, "A", f"self.{peer}_seq", f"self.{own}_seq")
            ok = got is not None and (got["from"], got["flags"], got["seq"], got["ack"]) == w
            r.ob(ok, Finding("A7", f"output_builder:OutputBuilder.{mn}:{var}", f"{mn}: `{var}` is {got}, expected sender/flags/seq/ack = {w}", m.line(node)))
        # ordering inside each IP-family arm: data frame, own += len(part), ack frame
        for n in body_walk(f.node):
            if isinstance(n, ast.If) and "self.ipv6" in src(n.test):
                for arm in (n.body, n.orelse):
                    r.instances += 1
                    seqs = []
                    for s in arm:
                        if isinstance(s, ast.Assign) and dotted(s.targets[0]) in ("packet", "packet_ack"):
                            seqs.append(dotted(s.targets[0]))
                        elif isinstance(s, ast.AugAssign) and dotted(s.target) == f"self.{own}_seq":
                            seqs.append("inc:" + src(s.value))
                        elif isinstance(s, (ast.AugAssign, ast.Assign)) and "_seq" in src(s.targets[0] if isinstance(s, ast.Assign) else s.target):
                            seqs.append("other:" + src(s, 40))
                    ok = seqs == ["packet", "inc:len(parts[i])", "packet_ack"]
                    r.ob(ok, Finding("A7", f"output_builder:OutputBuilder.{mn}:bookkeeping-order",
                                     f"{mn}: per part the order must be data packet, `{own}_seq += len(part)`, acknowledgement; found {seqs}", m.line(n)))
        r.instances += 1
        apps = [src(c.args[0]) for c in body_walk(f.node) if isinstance(c, ast.Call) and dotted(c.func) == "self.out.append"]
        r.ob(apps == ["(packet, ts[i])", "(packet_ack, ts[i])"], Finding("A7", f"output_builder:OutputBuilder.{mn}:emit-order", f"{mn}: data packet then its acknowledgement, both at ts[i]; found {apps}", m.line(f.node)))
        # no other writes to the counters
    r.instances += 1
    bad = []
    for f in ob.methods.values():
        for n in body_walk(f.node):
            if isinstance(n, (ast.Assign, ast.AugAssign)):
                tg = dotted(n.targets[0] if isinstance(n, ast.Assign) else n.target) or ""
                if tg in ("self.server_seq", "self.client_seq"):
                    if f.name == "__init__" or (f.name == "build" and try_fold(n.value, default=None) == 1 and fact_holds(cfg_of(f.node).facts_at(cfg_of(f.node).node_of(n)), "record is None", True)):
                        continue
                    if f.name in ("build_server_packet", "build_client_packet") and isinstance(n, ast.AugAssign) and src(n.value) == "len(parts[i])":
                        continue
                    bad.append(f"{f.qualname}: {src(n, 50)}")
    r.ob(not bad, Finding("A7", "output_builder:OutputBuilder:counter-writes", f"sequence counters may only be initialised to 1, reset with the connection, and advanced by the emitted part length; found {bad}", m.relpath))
    return r


def _tcp_fields(ls: List[ast.Call]) -> Optional[Dict[str, Any]]:
    try:
        eth, ip, tcp = ls[0], ls[1], ls[2]
    except Exception:
        return None
    kw = {k.arg: k.value for k in tcp.keywords}
    ek = {k.arg: dotted(k.value) for k in eth.keywords}
    ik = {k.arg: dotted(k.value) for k in ip.keywords}
    sender = None
    if ek.get("src") == "self.client_mac_addr" and ek.get("dst") == "self.server_mac_addr" and ik.get("src") == "self.client_ip" and ik.get("dst") == "self.server_ip" \
            and dotted(kw.get("sport")) == "self.client_port" and dotted(kw.get("dport")) == "self.server_port":
        sender = "client"
    if ek.get("src") == "self.server_mac_addr" and ek.get("dst") == "self.client_mac_addr" and ik.get("src") == "self.server_ip" and ik.get("dst") == "self.client_ip" \
            and dotted(kw.get("sport")) == "self.server_port" and dotted(kw.get("dport")) == "self.client_port":
        sender = "server"

    def val(e):
        c = try_fold(e, default=None)
        return c if c is not None else dotted(e)
    return {"from": sender, "flags": try_fold(kw.get("flags")) if kw.get("flags") is not None else None, "seq": val(kw.get("seq")) if kw.get("seq") is not None else None,
            "ack": val(kw.get("ack")) if kw.get("ack") is not None else None}


# ------------------------------------------------------------------------------------------ T7 split
def rule_T7_split(tree: Tree) -> RuleResult:
    r = RuleResult("T7s", "a record carried by k packets is re-split into at most k parts whose slices telescope from 0 to the end of the record; ts[i] indexed by part")
    ob = tree.cls("output_builder", "OutputBuilder")
    m = ob.module
    for mn in ("build_server_packet", "build_client_packet"):
        f = ob.methods[mn]
        data, ts = f.params[1], f.params[2]
        env = {"part_len": ("s", "P"), "i": ("s", "i")}
        r.instances += 1
        defs = {dotted(s.targets[0]): s.value for s in body_walk(f.node) if isinstance(s, ast.Assign) and isinstance(s.targets[0], ast.Name)}
        ok = src(defs.get("record_len")) == f"len({data})" and src(defs.get("packet_count")) == f"len({ts})" \
            and src(defs.get("part_len")) in ("floor(record_len / packet_count)", "record_len // packet_count")
        r.ob(ok, Finding("T7s", f"output_builder:OutputBuilder.{mn}:part-length", f"{mn}: part length must be floor(len(record) / len(ts)); found {src(defs.get('part_len'))}", m.line(f.node)))
        # the slicing loop
        r.instances += 1
        loops = [n for n in body_walk(f.node) if isinstance(n, ast.For) and any(isinstance(c, ast.Call) and dotted(c.func) == "parts.append" for s in n.body for c in ast.walk(s))]
        ok = len(loops) == 1
        why = "slicing loop not found"
        if ok:
            lp = loops[0]
            it = lp.iter
            ok = isinstance(it, ast.Call) and dotted(it.func) == "range" and src(it.args[-1]) == "packet_count - 1" and (len(it.args) == 1 or try_fold(it.args[0]) == 0)
            app = next(c for s in lp.body for c in ast.walk(s) if isinstance(c, ast.Call) and dotted(c.func) == "parts.append")
            sl = app.args[0]
            good = isinstance(sl, ast.Subscript) and dotted(sl.value) == data and isinstance(sl.slice, ast.Slice)
            if good:
                lo, hi = nf(sl.slice.lower, env), nf(sl.slice.upper, env)
                lo_next = nf(ast.parse("(i + 1) * part_len", mode="eval").body, env)
                lo0 = nf(ast.parse("i * part_len", mode="eval").body, env)
                tele = (hi == lo_next) and (lo == lo0)
                ll = [s for s in lp.body if isinstance(s, ast.Assign) and dotted(s.targets[0]) == "last_len"]
                last_ok = len(ll) == 1 and nf(ll[0].value, env) == hi
                ok = ok and tele and last_ok
                why = f"slice [{src(sl.slice.lower)} : {src(sl.slice.upper)}], last_len = {src(ll[0].value) if ll else None}"
            else:
                ok = False
        r.ob(ok, Finding("T7s", f"output_builder:OutputBuilder.{mn}:telescoping",
                         f"{mn}: part i must be record[i·P : (i+1)·P] for i < k-1 with last_len tracking the upper bound, so that consecutive parts neither overlap nor leave a gap ({why})", m.line(f.node)))
        # tail part
        r.instances += 1
        tail_ok = False
        for n in body_walk(f.node):
            if isinstance(n, ast.If) and src(n.test) in ("last_len < record_len", "record_len > last_len"):
                a = [src(c.args[0]) for s in n.body for c in ast.walk(s) if isinstance(c, ast.Call) and dotted(c.func) == "parts.append"]
                tail_ok = a == [f"{data}[last_len:]"] and not n.orelse
        ll0 = [s for s in f.node.body if isinstance(s, ast.Assign) and dotted(s.targets[0]) == "last_len"]
        tail_ok = tail_ok and len(ll0) == 1 and try_fold(ll0[0].value) == 0
        r.ob(tail_ok, Finding("T7s", f"output_builder:OutputBuilder.{mn}:tail", f"{mn}: the remainder record[last_len:] is the last part whenever last_len < len(record); last_len starts at 0", m.line(f.node)))
        # emission loop indexes parts and ts by the same i over range(len(parts))
        r.instances += 1
        el = [n for n in body_walk(f.node) if isinstance(n, ast.For) and any(isinstance(c, ast.Call) and dotted(c.func) == "self.out.append" for s in n.body for c in ast.walk(s))]
        ok = len(el) == 1 and src(el[0].iter) in ("range(0, len(parts))", "range(len(parts))") and dotted(el[0].target) == "i"
        r.ob(ok, Finding("T7s", f"output_builder:OutputBuilder.{mn}:emission-index", f"{mn}: parts are emitted for i in range(len(parts)) with ts[i]", m.line(f.node)))
    return r


# ------------------------------------------------------------------------------------------ D2
def rule_D2(tree: Tree) -> RuleResult:
    r = RuleResult("D2", "timestamps derive without arithmetic from the capture timestamp of an input packet that carried the record / datagram")
    ob = tree.cls("output_builder", "OutputBuilder")
    m = ob.module
    b = ob.methods["build"]
    r.instances += 1
    ok = False
    for n in body_walk(b.node):
        if isinstance(n, ast.For) and src(n.iter) == "record[1].metadata":
            a = [src(c.args[0]) for s in n.body for c in ast.walk(s) if isinstance(c, ast.Call) and dotted(c.func) == "ts.append"]
            ok = a == [f"{dotted(n.target)}.timestamp"]
    init_ts = [s for s in body_walk(b.node) if isinstance(s, ast.Assign) and dotted(s.targets[0]) == "ts"]
    ok = ok and len(init_ts) == 1 and isinstance(init_ts[0].value, ast.List) and not init_ts[0].value.elts
    calls = [c for c in body_walk(b.node) if isinstance(c, ast.Call) and dotted(c.func) in ("self.build_server_packet", "self.build_client_packet")]
    ok = ok and all(len(c.args) == 2 and dotted(c.args[1]) == "ts" for c in calls)
    r.ob(ok, Finding("D2", "output_builder:OutputBuilder.build:record-times", "the time list of a record is exactly [p.timestamp for p in record.metadata], rebuilt per record and handed to the data builder", m.line(b.node)))
    r.instances += 1
    tz = [src(s.value) for s in body_walk(b.node) if isinstance(s, ast.Assign) and dotted(s.targets[0]) == "self.ts_zero"]
    r.ob(tz == ["record[1].metadata[0].timestamp"], Finding("D2", "output_builder:OutputBuilder.build:handshake-time", f"the synthetic handshake carries the time of the first exported record's first packet; found {tz}", m.line(b.node)))
    # Packet.timestamp = constructor argument; TlsRecord.metadata = constructor argument
    for mod, qn, attr, param in (("packet", "Packet.__init__", "self.timestamp", "timestamp"), ("tlsrecord", "TlsRecord.__init__", "self.metadata", "metadata"),
                                 ("quic.quic_packet", "QuicPacket.__init__", "self.ts", "ts")):
        f = tree.func(mod, qn)
        r.instances += 1
        v = [src(s.value) for s in body_walk(f.node) if isinstance(s, ast.Assign) and dotted(s.targets[0]) == attr]
        r.ob(v == [param], Finding("D2", f"{mod}:{qn}:{attr.split('.')[-1]}", f"{qn}: {attr} must be the constructor argument unchanged, found {v}", f.module.line(f.node)))
    # run(): Packet(buf, ts) with the reader's ts
    run = tree.func("main", "run")
    r.instances += 1
    pc = [c for c in body_walk(run.node) if isinstance(c, ast.Call) and dotted(c.func) == "Packet"]
    loop = next((a for a in ancestors(pc[0]) if isinstance(a, ast.For)), None) if pc else None
    ok = len(pc) == 1 and [src(a) for a in pc[0].args] == ["buf", "float(ts)"] and loop is not None and src(loop.target) == "(ts, buf)" and src(loop.iter) == "pcap_reader"
    r.ob(ok, Finding("D2", "main:run:packet-time", "each Packet is built from the (ts, buf) pair the reader yields, the time as float(ts) and nothing else: dpkt's legacy reader yields "
                                                   "Decimal for nanosecond-resolution files, which the pcapng writer cannot scale (TypeError after the whole capture was processed)", run.module.line(run.node)))
    # QUIC: every packet object built by the dissector carries in_packet.timestamp; super().__init__ passes ts through
    dis = tree.func("quic.quic_dissector", "extract_quic_packet")
    r.instances += 1
    ctor = [c for c in body_walk(dis.node) if isinstance(c, ast.Call) and dotted(c.func) in ("LongQuicPacket", "ShortQuicPacket")]
    bad = [src(c, 40) for c in ctor if [src(k.value) for k in c.keywords if k.arg == "ts"] != [f"{dis.params[0]}.timestamp"]]
    r.ob(len(ctor) >= 5 and not bad, Finding("D2", "quic.quic_dissector:extract_quic_packet:packet-time", f"every QUIC packet object must be stamped ts=in_packet.timestamp; offending {bad}", dis.module.line(dis.node)))
    for cn in ("LongQuicPacket", "ShortQuicPacket"):
        f = tree.func("quic.quic_packet", f"{cn}.__init__")
        r.instances += 1
        sup = [c for c in body_walk(f.node) if isinstance(c, ast.Call) and isinstance(c.func, ast.Attribute) and c.func.attr == "__init__" and "super()" in src(c.func)]
        ok = len(sup) == 1 and [src(a) for a in sup[0].args][-3:] == ["isserver", "first_byte", "ts"]
        r.ob(ok, Finding("D2", f"quic.quic_packet:{cn}.__init__:super-args", f"{cn} must hand (…, isserver, first_byte, ts) to QuicPacket.__init__ in that order", f.module.line(f.node)))
    # frames keep their source packet
    fr = tree.func("quic.quic_frame", "Frame.__init__")
    r.instances += 1
    v = [src(s.value) for s in body_walk(fr.node) if isinstance(s, (ast.Assign, ast.AnnAssign)) and dotted(s.targets[0] if isinstance(s, ast.Assign) else s.target) == "self.src_packet"]
    pf = tree.func("quic.quic_frame", "parse_frames")
    cons = [c for c in body_walk(pf.node) if isinstance(c, ast.Call) and len(c.args) == 2 and dotted(c.args[1]) == pf.params[1]]
    r.ob(v == ["src_packet"] and len(cons) >= 2, Finding("D2", "quic.quic_frame:Frame.__init__:src-packet", "every frame records the packet it was parsed from (parse_frames passes src_packet to every constructor)", fr.module.line(fr.node)))
    return r


def rule_packet_fields(tree: Tree) -> RuleResult:
    r = RuleResult("PKT", "Packet binds each attribute to the dpkt field of the same meaning (addresses, ports, sequence number, payload per transport; variant flags)")
    f = tree.func("packet", "Packet.__init__")
    m = f.module
    cfg = cfg_of(f.node)
    want_common = {"self.timestamp": "timestamp", "self.binary": "binary", "self.ethernet": "dpkt.ethernet.Ethernet(self.binary)", "self.ip": "self.ethernet.data",
                   "self.ethernet_src": "self.ethernet.src", "self.ethernet_dst": "self.ethernet.dst", "self.ip_src": "self.ip.src", "self.ip_dst": "self.ip.dst"}
    want_tcp = {"self.tcp": "self.ip.data", "self.seq": "self.tcp.seq", "self.ack": "self.tcp.ack", "self.sport": "self.tcp.sport", "self.dport": "self.tcp.dport", "self.tls_data": "self.tcp.data"}
    want_udp = {"self.udp": "self.ip.data", "self.sport": "self.udp.sport", "self.dport": "self.udp.dport", "self.tls_data": "self.udp.data"}
    got_common, got_tcp, got_udp = {}, {}, {}
    for n in cfg.nodes:
        if n.kind != "stmt" or not isinstance(n.ast, ast.Assign):
            continue
        tgt = dotted(n.ast.targets[0])
        if not tgt or not tgt.startswith("self."):
            continue
        facts = [(src(e, 120), t) for e, t in cfg.facts_at(n.id)]
        in_tcp = ("isinstance(self.ip.data, dpkt.tcp.TCP)", True) in facts
        in_udp = ("isinstance(self.ip.data, dpkt.udp.UDP)", True) in facts
        val = src(n.ast.value, 200)
        if in_tcp:
            got_tcp[tgt] = val
        elif in_udp:
            got_udp[tgt] = val
        elif tgt in want_common:
            got_common[tgt] = val
    for name, want, got in (("common", want_common, got_common), ("tcp", want_tcp, got_tcp), ("udp", want_udp, {k: v for k, v in got_udp.items() if k != "self.udp_packet"})):
        r.instances += 1
        bad = {k: got.get(k) for k, v in want.items() if got.get(k) != v}
        r.ob(not bad, Finding("PKT", f"packet:Packet.__init__:{name}-fields", f"Packet ({name}): {bad} — expected {dict((k, want[k]) for k in bad)}; a swapped or mis-sourced field silently "
                                                                           f"attributes traffic to the wrong endpoint / sequence position", m.line(f.node)))
    # variant flags: tcp_packet True only for TCP; udp_packet True only for UDP; ipv6 flag from the IP class
    r.instances += 1
    from ..rules.checksum import packet_variants
    vs = packet_variants(tree)
    kinds = set()
    for v in vs:
        if "tcp" in v:
            kinds.add(("tcp", v.get("tcp_packet"), v.get("udp_packet")))
        elif "udp" in v:
            kinds.add(("udp", v.get("tcp_packet"), v.get("udp_packet")))
        else:
            kinds.add(("other", v.get("tcp_packet"), v.get("udp_packet")))
    ok = ("tcp", True, False) in kinds and ("udp", False, True) in kinds and all(k[1:] == (False, False) for k in kinds if k[0] == "other")
    v6 = {}
    for n in cfg.nodes:
        if n.kind == "stmt" and isinstance(n.ast, ast.Assign) and dotted(n.ast.targets[0]) == "self.ipv6_packet":
            v6[try_fold(n.ast.value)] = [(src(e, 80), t) for e, t in cfg.facts_at(n.id) if "IP6" in src(e, 80)]
    ok = ok and v6.get(True) == [("isinstance(self.ethernet.data, dpkt.ip6.IP6)", True)] and v6.get(False) == [("isinstance(self.ethernet.data, dpkt.ip6.IP6)", False)]
    r.ob(ok, Finding("PKT", "packet:Packet.__init__:variant-flags", f"Packet variants must be flagged (tcp_packet, udp_packet) = (True, False) for TCP, (False, True) for UDP, (False, False) otherwise, "
                                                                   f"and ipv6_packet iff the frame carries IPv6; found {sorted(kinds, key=str)} / {v6}", m.line(f.node)))
    return r

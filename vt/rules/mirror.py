"""B1–B3 — mirror and sibling rules (client/server duality)."""
from __future__ import annotations

import ast
import copy
from typing import List, Optional, Tuple

from ..core import clone, Tree, Func, Module, dotted, src, body_walk
from ..framework import Finding, RuleResult
from ..norm import RoleSwap, canon, strip_stmts, first_difference, pretty, try_fold

SC = [("server", "client")]
SC_PREFIX = [("s", "c")]


def _is_isserver_test(t: ast.AST) -> Optional[bool]:
    """True for `isserver`-like test, False for `not isserver`, None otherwise."""
    if isinstance(t, ast.UnaryOp) and isinstance(t.op, ast.Not):
        r = _is_isserver_test(t.operand)
        return None if r is None else (not r)
    d = dotted(t)
    if d and d.split(".")[-1] in ("isserver", "is_server"):
        return True
    return None


def _is_server_endpoint_test(t: ast.AST) -> bool:
    """`packet.ip_src == self.server_ip and packet.sport == self.server_port` — direction by address."""
    if not isinstance(t, ast.BoolOp) or not isinstance(t.op, ast.And):
        return False
    names = set()
    for v in t.values:
        if not (isinstance(v, ast.Compare) and len(v.ops) == 1 and isinstance(v.ops[0], ast.Eq)):
            return False
        for side in (v.left, v.comparators[0]):
            d = dotted(side)
            if d:
                names.add(d.split(".")[-1])
    return {"server_ip", "server_port"} <= names or {"client_ip", "client_port"} <= names


def mirror_sites(tree: Tree) -> List[Tuple[Module, Func, ast.If, str]]:
    out = []
    for m in tree.modules.values():
        for f in m.functions.values():
            for n in body_walk(f.node):
                if isinstance(n, ast.If) and n.orelse:
                    # an `elif` chain is not a two-armed duality site
                    if len(n.orelse) == 1 and isinstance(n.orelse[0], ast.If) and _is_isserver_test(n.orelse[0].test) is None \
                            and n.orelse[0].col_offset == n.col_offset:
                        pass
                    if _is_isserver_test(n.test) is not None:
                        out.append((m, f, n, "isserver"))
                    elif _is_server_endpoint_test(n.test):
                        # only two-armed (if/else) — if/elif orientation predicates are B3's
                        if not (len(n.orelse) == 1 and isinstance(n.orelse[0], ast.If)):
                            out.append((m, f, n, "endpoint"))
    return out


# named exceptions: (module short, qualname, reason, normaliser applied to the arm before comparison)
def _strip_encode(stmts: List[ast.stmt]) -> List[ast.stmt]:
    """`x.encode()` on an address string -> `x` (scapy's IP6Field accepts both and builds the same bytes)."""
    class T(ast.NodeTransformer):
        def visit_Call(self, node):
            self.generic_visit(node)
            if isinstance(node.func, ast.Attribute) and node.func.attr == "encode" and not node.args and not node.keywords:
                d = dotted(node.func.value)
                if d and d.split(".")[-1] in ("client_ip", "server_ip"):
                    return node.func.value
            return node
    return [T().visit(clone(s)) for s in stmts]


def _ordinal(f: Func, node: ast.If, sites) -> int:
    k = 0
    for m2, f2, n2, _ in sites:
        if f2 is f:
            k += 1
            if n2 is node:
                return k
    return 0


def rule_B1(tree: Tree, modules: Optional[List[str]] = None, rule_id: str = "B1") -> RuleResult:
    """Intra-function duality: σ(then-arm) ≡ else-arm for every two-armed direction test."""
    r = RuleResult(rule_id, "intra-function client/server duality: sigma(then-arm) == else-arm")
    sites = mirror_sites(tree)
    for m, f, node, kind in sites:
        if modules is not None and m.short not in modules:
            continue
        r.instances += 1
        then = strip_stmts(node.body)
        other = strip_stmts(node.orelse)
        swap = RoleSwap(SC, SC_PREFIX, swap_bools=True)
        then_sw = [swap.visit(clone(s)) for s in then]
        a, b = _strip_encode(then_sw), _strip_encode(other)
        ok = canon(a) == canon(b)
        ordn = _ordinal(f, node, sites)
        key = f"{f.key}:direction-site#{ordn}"
        r.sample({"site": f"{m.line(node)} {f.qualname}", "test": src(node.test, 80), "kind": kind, "mirror": ok})
        if not ok:
            diff = first_difference(a, b)
            r.ob(False, Finding(rule_id, key,
                                f"the two direction arms of `if {src(node.test, 60)}` in {f.qualname} are not mirror images "
                                f"under server<->client: {diff}", m.line(node),
                                [f"then-arm (after server<->client): {pretty(a)[:300]}", f"else-arm: {pretty(b)[:300]}"]))
        else:
            r.ob(True)
    return r


# ------------------------------------------------------------------------------------------- B2
SIBLINGS = [
    ("session", "Session.extract_server_buf", "Session.extract_client_buf", SC, {}),
    ("output_builder", "OutputBuilder.build_server_packet", "OutputBuilder.build_client_packet", SC, {}),
    ("checksums", "calculate_checksum_tcp", "calculate_checksum_udp", [("tcp", "udp")], {"offsets": True}),
]


def _normalise_checksum_pair(stmts: List[ast.stmt]) -> List[ast.stmt]:
    """The checksum field lives at [16:18] in TCP and [6:8] in UDP: replace that slice by a placeholder."""
    class T(ast.NodeTransformer):
        def visit_Subscript(self, node):
            self.generic_visit(node)
            s = node.slice
            if isinstance(s, ast.Slice) and isinstance(s.lower, ast.Constant) and isinstance(s.upper, ast.Constant):
                if (s.lower.value, s.upper.value) in ((16, 18), (6, 8)):
                    base = dotted(node.value) or ""
                    if base.endswith("_data"):
                        node.slice = ast.Slice(lower=ast.Name("CKSUM_LO", ast.Load()), upper=ast.Name("CKSUM_HI", ast.Load()))
            return node
    out = []
    for s in stmts:
        # named exception (one symbol): RFC 768 zero→0xffff mapping exists only for UDP; rule UDPZ checks it
        if isinstance(s, ast.If) and isinstance(s.test, ast.Compare) and try_fold(s.test.comparators[0]) in (b"\x00\x00", 0) and not s.orelse \
                and all(isinstance(b, ast.Assign) for b in s.body):
            continue
        # second named exception: "IPv4 UDP checksum field 0 = no checksum" (RFC 768), UDP only; rule UDPZ checks its exact shape
        if isinstance(s, ast.If) and not s.orelse and len(s.body) == 1 and isinstance(s.body[0], ast.Return) and try_fold(s.body[0].value) is True \
                and "ipv6_packet" in src(s.test, 200) and any(try_fold(c) in (b"\x00\x00", 0) for c in ast.walk(s.test) if isinstance(c, (ast.Constant, ast.Call))):
            continue
        out.append(T().visit(clone(s)))
    return out


def rule_B2(tree: Tree, pairs: Optional[List[str]] = None) -> RuleResult:
    r = RuleResult("B2", "sibling functions are mirror images under the role substitution")
    r.floor = 0
    for mod, fa, fb, pairs_sub, opts in SIBLINGS:
        if pairs is not None and mod not in pairs:
            continue
        A = tree.func(mod, fa)
        B = tree.func(mod, fb)
        r.instances += 1
        a = strip_stmts(A.node.body)
        b = strip_stmts(B.node.body)
        sw = RoleSwap(pairs_sub)
        a = [sw.visit(clone(s)) for s in a]
        if opts.get("offsets"):
            a, b = _normalise_checksum_pair(a), _normalise_checksum_pair(b)
        ok = canon(a) == canon(b)
        r.sample({"pair": f"{fa} / {fb}", "mirror": ok, "statements": len(a)})
        if ok:
            r.ob(True)
        else:
            r.ob(False, Finding("B2", f"{mod}:{fa}|{fb}:sibling-mirror",
                                f"{fa} and {fb} are not mirror images: {first_difference(a, b)}",
                                A.module.line(A.node)))
    return r


# ------------------------------------------------------------------------------------------- B3
def _conj_terms(e: ast.AST) -> List[ast.Compare]:
    if isinstance(e, ast.BoolOp) and isinstance(e.op, ast.And):
        out = []
        for v in e.values:
            out.extend(_conj_terms(v))
        return out
    return [e]


SIDE = {"ip_src": ("src", "ip"), "ip_dst": ("dst", "ip"), "sport": ("src", "port"), "dport": ("dst", "port")}
ROLEATTR = {"server_ip": ("server", "ip"), "client_ip": ("client", "ip"),
            "server_port": ("server", "port"), "client_port": ("client", "port")}


def _orientation(e: ast.AST):
    """Conjunction of `<pkt side field> == self.<role field>` -> {(side, kind): role} or None."""
    got = {}
    for t in _conj_terms(e):
        if not (isinstance(t, ast.Compare) and len(t.ops) == 1 and isinstance(t.ops[0], ast.Eq)):
            return None
        l, rr = dotted(t.left), dotted(t.comparators[0])
        if not l or not rr:
            return None
        l, rr = l.split(".")[-1], rr.split(".")[-1]
        if l in ROLEATTR and rr in SIDE:
            l, rr = rr, l
        if l not in SIDE or rr not in ROLEATTR:
            return None
        side, kind = SIDE[l]
        role, kind2 = ROLEATTR[rr]
        if kind != kind2:
            return None
        if (side, kind) in got:
            return None
        got[(side, kind)] = role
    return got


def _returns_true(stmts: List[ast.stmt]) -> bool:
    s = strip_stmts(stmts)
    return len(s) == 1 and isinstance(s[0], ast.Return) and isinstance(s[0].value, ast.Constant) and s[0].value.value is True


def rule_B3_match(tree: Tree) -> RuleResult:
    """matches_session / matches_session_dgram: both orientations test the full 4-tuple."""
    r = RuleResult("B3", "orientation predicates test the full 4-tuple in both orientations")
    for mod, qn in (("session", "Session.matches_session"), ("quic.quic_session", "QuicSession.matches_session_dgram")):
        f = tree.func(mod, qn)
        r.instances += 1
        key = f"{mod}:{qn}:orientation"
        body = strip_stmts(f.node.body)
        # collect (condition, returns True) arms of the leading if/elif chain
        arms = []
        tail_false = False
        if body and isinstance(body[0], ast.If):
            n = body[0]
            while True:
                arms.append((n.test, _returns_true(n.body)))
                if len(n.orelse) == 1 and isinstance(n.orelse[0], ast.If):
                    n = n.orelse[0]
                    continue
                rest = n.orelse
                break
            tail = rest + body[1:]
            tail = [t for t in tail]
            tail_false = (len(tail) == 1 and isinstance(tail[0], ast.Return) and isinstance(tail[0].value, ast.Constant)
                          and tail[0].value.value is False)
        elif body and isinstance(body[0], ast.Return) and isinstance(body[0].value, ast.BoolOp) and isinstance(body[0].value.op, ast.Or):
            arms = [(v, True) for v in body[0].value.values]
            tail_false = len(body) == 1
        want_a = {("src", "ip"): "server", ("src", "port"): "server", ("dst", "ip"): "client", ("dst", "port"): "client"}
        want_b = {k: ("client" if v == "server" else "server") for k, v in want_a.items()}
        got = [(_orientation(c), t) for c, t in arms]
        ok = (len(got) == 2 and all(t for _, t in got) and tail_false
              and sorted([repr(sorted(g.items())) if g else "" for g, _ in got]) == sorted([repr(sorted(want_a.items())), repr(sorted(want_b.items()))]))
        r.sample({"function": qn, "arms": [src(c, 140) for c, _ in arms], "ok": ok})
        r.ob(ok, Finding("B3", key,
                         f"{qn} must return True exactly for (src=server,dst=client) or (src=client,dst=server) with address AND port "
                         f"of both ends compared, and False otherwise; found arms {[src(c, 140) for c, _ in arms]}",
                         f.module.line(f.node)))
    return r


def rule_B3_bind(tree: Tree) -> RuleResult:
    """set_client_and_server_ports / set_server_client_address: `sport in server_ports` binds server := src triple."""
    r = RuleResult("B3b", "role binding from the first packet: the side whose port is a server port becomes the server")
    want_src = {"ip": "ip_src", "port": "sport", "mac_addr": "ethernet_src"}
    want_dst = {"ip": "ip_dst", "port": "dport", "mac_addr": "ethernet_dst"}
    for mod, qn in (("session", "Session.set_client_and_server_ports"), ("quic.quic_session", "QuicSession.set_server_client_address")):
        f = tree.func(mod, qn)
        r.instances += 1
        key = f"{mod}:{qn}:role-binding"
        top = strip_stmts(f.node.body)
        ifs = [s for s in top if isinstance(s, ast.If)]
        ok = False
        why = "no `if <src port> in server_ports` statement found"
        for n in ifs:
            if not n.orelse and n.body and isinstance(n.body[-1], (ast.Return, ast.Raise)):
                n.orelse = top[top.index(n) + 1:]  # flattened form: the rest of the function is the else arm
            t = n.test
            if (isinstance(t, ast.Compare) and len(t.ops) == 1 and isinstance(t.ops[0], ast.In)):
                lhs = (dotted(t.left) or "").split(".")[-1]
                if lhs not in ("sport", "dport"):
                    continue
                src_is_server = lhs == "sport"

                def binds(stmts):
                    out = {}
                    for s in stmts:
                        if isinstance(s, ast.Assign) and len(s.targets) == 1:
                            tn = dotted(s.targets[0])
                            vn = dotted(s.value)
                            if tn and vn and tn.startswith("self."):
                                out[tn[5:]] = vn.split(".")[-1]
                    return out
                th, el = binds(n.body), binds(n.orelse)

                def expect(server_from, client_from):
                    e = {}
                    for k, v in server_from.items():
                        e["server_" + k] = v
                    for k, v in client_from.items():
                        e["client_" + k] = v
                    return e
                exp_then = expect(want_src, want_dst) if src_is_server else expect(want_dst, want_src)
                exp_else = expect(want_dst, want_src) if src_is_server else expect(want_src, want_dst)
                th6 = {k: v for k, v in th.items() if k in exp_then}
                el6 = {k: v for k, v in el.items() if k in exp_else}
                ok = th6 == exp_then and el6 == exp_else
                why = f"then binds {th6}, else binds {el6}"
                break
        r.sample({"function": qn, "ok": ok, "detail": why})
        r.ob(ok, Finding("B3b", key, f"{qn}: endpoint roles are not bound as (server := side whose port is in server_ports, "
                                     f"client := other side) for ip/port/mac: {why}", f.module.line(f.node)))
    return r

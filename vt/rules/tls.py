"""C01 / C03 — TLS session rules: fail-closed gate (A4), per-direction cipher state pairing (A5), TLS 1.3 padding strip (PAD),
hello layouts and version decision (T10), payload provenance (D1), record / handshake type constants."""
from __future__ import annotations

import ast
from typing import Any, Dict, List, Optional, Set, Tuple

from ..core import Tree, Func, Class, dotted, src, AnalysisError, AnchorMissing, body_walk, ancestors, parent
from ..framework import Finding, RuleResult
from ..norm import try_fold, strip_stmts, canon
from ..cfg import cfg_of, fact_holds, CFG
from ..dataflow import reaching_definitions
from ..symeval import Sym, geval, value_of, Unknown
from .pkn import nf, _sum, _as_sum
from . import tables

V = "tlexport.tlsversion.TlsVersion."


# ------------------------------------------------------------------------------------------ A4
def rule_A4(tree: Tree) -> RuleResult:
    r = RuleResult("A4", "fail-closed gate: application records reach the decryptor only under can_decrypt ∧ decryptor is not None; "
                         "every early return of generate_keys closes the gate; a new ClientHello closes it")
    ses = tree.cls("session", "Session")
    m = ses.module
    hr = tree.func("session", "Session.handle_tls_record")
    cfg = cfg_of(hr.node)
    app_calls = [n for n in body_walk(hr.node) if isinstance(n, ast.Call) and (dotted(n.func) or "") in
                 ("self.handle_tls_application_record", "self.handle_tls_13_application_record")]
    if len(app_calls) < 2:
        raise AnchorMissing("handle_tls_record: calls of the two application-record handlers not found")
    for c in app_calls:
        r.instances += 1
        facts = cfg.facts_at(cfg.node_of(c))
        ok = fact_holds(facts, "self.can_decrypt", True) and (fact_holds(facts, "self.decryptor is not None", True) or fact_holds(facts, "self.decryptor is None", False))
        r.ob(ok, Finding("A4", f"session:Session.handle_tls_record:{dotted(c.func).split('.')[-1]}:gate",
                         f"`{src(c, 70)}` must be reachable only under `self.can_decrypt and self.decryptor is not None` (keyless / unsupported / "
                         f"reset sessions stay silent)", m.line(c)))
    # the version dispatch selects the handler of the right family
    r.instances += 1
    ok = True
    for c in app_calls:
        nid = cfg.node_of(c)
        case_nodes = [b for b, lab in cfg.conditions_at(nid) if cfg.nodes[b].kind == "case" and lab == "T"]
        pats = set()
        for b in case_nodes:
            for x in ast.walk(cfg.nodes[b].ast.pattern):
                d = dotted(x) if isinstance(x, ast.Attribute) else None
                if d and d.startswith("TlsVersion."):
                    pats.add(d.split(".")[-1])
        if dotted(c.func).endswith("13_application_record"):
            ok = ok and pats == {"TLS13"}
        else:
            ok = ok and pats == {"TLS12", "TLS11", "TLS10", "SSL30"}
    r.ob(ok, Finding("A4", "session:Session.handle_tls_record:version-family", "TLS 1.3 application records go to the 1.3 handler, SSL 3.0–TLS 1.2 to the legacy handler", m.line(hr.node)))
    # handshake_finished: decrypt under can_decrypt and decryptor not None
    hf = tree.func("session", "Session.handle_handshake_finished")
    cfg2 = cfg_of(hf.node)
    for c in [n for n in body_walk(hf.node) if isinstance(n, ast.Call) and dotted(n.func) == "self.decryptor.decrypt"]:
        r.instances += 1
        facts = cfg2.facts_at(cfg2.node_of(c))
        ok = fact_holds(facts, "self.can_decrypt", True) and (fact_holds(facts, "self.decryptor is None", False) or fact_holds(facts, "self.decryptor is not None", True))
        # only records that follow the ChangeCipherSpec *of their own direction* are encrypted
        own_dir = (fact_holds(facts, "self.server_cipher_change", True) and fact_holds(facts, "isserver", True)) or \
            (fact_holds(facts, "self.client_cipher_change", True) and fact_holds(facts, "isserver", False))
        r.ob(ok and own_dir, Finding("A4", "session:Session.handle_handshake_finished:gate",
                                     f"`{src(c, 60)}` must be guarded by can_decrypt, a decryptor and the cipher-change flag of the record's *own* direction "
                                     f"(server_cipher_change ∧ isserver, or client_cipher_change ∧ ¬isserver): a plaintext handshake record of the other direction pushed through "
                                     f"the decryptor desynchronises stream-cipher / sequence state", m.line(c)))
    # generate_keys: every return before the Decryptor construction is dominated by can_decrypt = False
    gk = tree.func("session", "Session.generate_keys")
    cfg3 = cfg_of(gk.node)
    ctor = [n for n in cfg3.nodes if n.kind == "stmt" and any(isinstance(c, ast.Call) and dotted(c.func) == "Decryptor" for c in ast.walk(n.ast))]
    if not ctor:
        raise AnchorMissing("generate_keys: Decryptor(...) construction not found")
    closes = [n for n in cfg3.nodes if n.kind == "stmt" and isinstance(n.ast, ast.Assign) and dotted(n.ast.targets[0]) == "self.can_decrypt" and try_fold(n.ast.value) is False]
    for rt in [n for n in cfg3.nodes if n.kind == "stmt" and isinstance(n.ast, ast.Return)]:
        if cfg3.dominates(ctor[0].id, rt.id):
            continue
        r.instances += 1
        ok = any(cfg3.dominates(c.id, rt.id) for c in closes)
        r.ob(ok, Finding("A4", "session:Session.generate_keys:early-return-closes-gate",
                         f"the early return at line {rt.lineno} (unsupported suite / no secrets) must be preceded by `self.can_decrypt = False`, otherwise a "
                         f"later record of the session is handed to a stale or missing decryptor", m.line(rt.ast)))
    # a new ClientHello closes the gate and clears the cipher-change flags
    ch = tree.func("session", "Session.handle_tls_client_hello")
    r.instances += 1
    assigns = {dotted(s.targets[0]): try_fold(s.value, default="?") for s in ch.node.body if isinstance(s, ast.Assign)}
    ok = assigns.get("self.can_decrypt") is False and assigns.get("self.server_cipher_change") is False and assigns.get("self.client_cipher_change") is False \
        and assigns.get("self.client_hello_seen") is True
    r.ob(ok, Finding("A4", "session:Session.handle_tls_client_hello:reset", "a ClientHello must close the gate (can_decrypt False), clear both cipher-change flags and set client_hello_seen", m.line(ch.node)))
    # ServerHello opens the gate only after a ClientHello
    sh = tree.func("session", "Session.handle_tls_server_hello")
    cfg4 = cfg_of(sh.node)
    for n in cfg4.nodes:
        if n.kind == "stmt" and isinstance(n.ast, ast.Assign) and dotted(n.ast.targets[0]) == "self.can_decrypt" and try_fold(n.ast.value) is True:
            r.instances += 1
            r.ob(fact_holds(cfg4.facts_at(n.id), "self.client_hello_seen", True),
                 Finding("A4", "session:Session.handle_tls_server_hello:open-gate", "can_decrypt may become True only under client_hello_seen", m.line(n.ast)))
    # change-cipher-spec flags per direction
    r.instances += 1
    ok = False
    for n in body_walk(hr.node):
        if isinstance(n, ast.If) and dotted(n.test) == "isserver":
            th = {dotted(s.targets[0]): try_fold(s.value) for s in n.body if isinstance(s, ast.Assign)}
            el = {dotted(s.targets[0]): try_fold(s.value) for s in n.orelse if isinstance(s, ast.Assign)}
            if th == {"self.server_cipher_change": True} and el == {"self.client_cipher_change": True}:
                ok = True
    r.ob(ok, Finding("A4", "session:Session.handle_tls_record:ccs-flags", "a ChangeCipherSpec record sets the cipher-change flag of its own direction", m.line(hr.node)))
    return r


# ------------------------------------------------------------------------------------------ record / handshake type constants
def rule_types(tree: Tree) -> RuleResult:
    r = RuleResult("T4t", "record-type and handshake-type constants: 0x14 CCS, 0x15 alert, 0x16 handshake, 0x17 application data; ClientHello 1, ServerHello 2, Finished 20")
    hr = tree.func("session", "Session.handle_tls_record")
    m = hr.module
    mt = [n for n in body_walk(hr.node) if isinstance(n, ast.Match) and dotted(n.subject) == "record.record_type"]
    if not mt:
        raise AnchorMissing("handle_tls_record: match on record.record_type not found")
    want = {0x16: "self.handle_tls_handshake_record", 0x17: None, 0x15: "self.handle_alert", 0x14: None}
    got = {}
    for c in mt[0].cases:
        v = try_fold(c.pattern.value) if isinstance(c.pattern, ast.MatchValue) else None
        calls = [dotted(x.func) for s in c.body for x in ast.walk(s) if isinstance(x, ast.Call) and (dotted(x.func) or "").startswith("self.handle_")]
        got[v] = calls
    r.instances += 1
    ok = set(got) == set(want) and "self.handle_tls_handshake_record" in got.get(0x16, []) and "self.handle_alert" in got.get(0x15, []) \
        and any("application_record" in (c or "") for c in got.get(0x17, [])) and not got.get(0x14)
    r.ob(ok, Finding("T4t", "session:Session.handle_tls_record:record-types", f"record type dispatch must be 0x14/0x15/0x16/0x17 → CCS/alert/handshake/application data; found { {hex(k) if isinstance(k, int) else k: v for k, v in got.items()} }", m.line(mt[0])))
    hh = tree.func("session", "Session.handle_tls_handshake_record")
    mt2 = [n for n in body_walk(hh.node) if isinstance(n, ast.Match)]
    r.instances += 1
    got2 = {}
    if mt2:
        for c in mt2[0].cases:
            v = try_fold(c.pattern.value) if isinstance(c.pattern, ast.MatchValue) else "_"
            got2[v] = [dotted(x.func) for s in c.body for x in ast.walk(s) if isinstance(x, ast.Call) and (dotted(x.func) or "").startswith("self.handle_")]
    ok = got2.get(1) == ["self.handle_tls_client_hello"] and got2.get(2) == ["self.handle_tls_server_hello"] and mt2 and src(mt2[0].subject) == "record.binary[0]"
    r.ob(ok, Finding("T4t", "session:Session.handle_tls_handshake_record:handshake-types", f"handshake type 1 → ClientHello, 2 → ServerHello, read from record.binary[0]; found {got2}", hh.module.line(hh.node)))
    # only a record that *starts* a handshake message is dispatched by its first byte: a message longer than one record (Certificate) continues in the next
    # record, whose first byte is data (0x01 there would be taken for a ClientHello and close the decryption gate of the connection)
    r.instances += 1
    cfgh = cfg_of(hh.node)
    disp = [n for n in cfgh.nodes if n.kind == "stmt" and any(isinstance(c, ast.Call) and dotted(c.func) in ("self.handle_tls_client_hello", "self.handle_tls_server_hello") for c in ast.walk(n.ast))]
    pend_ok = bool(disp)
    pend_vars = set()
    for n in disp:
        facts = [(e, t) for e, t in cfgh.facts_at(n.id)]
        z = [dotted(e.left) for e, t in facts if t and isinstance(e, ast.Compare) and len(e.ops) == 1 and isinstance(e.ops[0], ast.Eq) and try_fold(e.comparators[0]) == 0 and dotted(e.left)]
        if not z:
            pend_ok = False
        pend_vars |= set(z)
    # the counter is per direction and is recomputed from the message headers of every record
    per_dir = {}
    for n in cfgh.nodes:
        if n.kind == "stmt" and isinstance(n.ast, ast.Assign) and (dotted(n.ast.targets[0]) or "").startswith("self.handshake_pending_"):
            d = "server" if fact_holds(cfgh.facts_at(n.id), "isserver", True) else "client" if fact_holds(cfgh.facts_at(n.id), "isserver", False) else "?"
            per_dir[d] = dotted(n.ast.targets[0])
    walk = any(isinstance(n, ast.While) and "len(record.binary)" in src(n.test) and any(isinstance(x, ast.AugAssign) and "int.from_bytes(record.binary[" in src(x.value, 200) for x in ast.walk(n))
               for n in body_walk(hh.node))
    r.ob(pend_ok and per_dir == {"server": "self.handshake_pending_server", "client": "self.handshake_pending_client"} and walk,
         Finding("T4t", "session:Session.handle_tls_handshake_record:message-start-only",
                 f"plaintext handshake records are dispatched by their first byte only when no earlier message is still incomplete (per-direction counter == 0, recomputed by walking the "
                 f"message headers of each record); found gate on {sorted(pend_vars) or 'nothing'}, counters {per_dir}, header walk {walk}", hh.module.line(hh.node)))
    # Finished = 20 triggers the key switch
    hd = tree.func("session", "Session.handle_decrypted_tls_13_handshake_record")
    cfg = cfg_of(hd.node)
    r.instances += 1
    upd = [n for n in body_walk(hd.node) if isinstance(n, ast.Call) and dotted(n.func) == "self.decryptor.update_keys"]
    ok = len(upd) == 1
    if ok:
        facts = cfg.facts_at(cfg.node_of(upd[0]))
        ok = fact_holds(facts, "handshake_type == 20", True) and len(upd[0].args) == 1 and dotted(upd[0].args[0]) == "isserver"
        # handshake_type is the first byte at the cursor; length is the next 3 bytes; step = length + 4
        defs = {dotted(s.targets[0]): src(s.value) for s in body_walk(hd.node) if isinstance(s, ast.Assign) and dotted(s.targets[0])}
        ok = ok and defs.get("handshake_type") == "plaintext[index]" and defs.get("length") == "int.from_bytes(plaintext[index + 1:index + 4], 'big')"
        steps = [src(s) for s in body_walk(hd.node) if isinstance(s, ast.AugAssign)]
        ok = ok and steps in (["index += length + 4"], ["index += 4 + length"])
    r.ob(ok, Finding("T4t", "session:Session.handle_decrypted_tls_13_handshake_record:finished-switch",
                     "the handshake→application key switch must happen exactly at a Finished message (type 20) of the direction being decrypted, walking messages as type(1) length(3) body", hd.module.line(hd.node)))
    # messages are reassembled across records (a Certificate is often longer than one record): per direction the walker starts from what the previous record left
    # incomplete, handles a message only when all of it is there, and keeps the incomplete tail
    r.instances += 1
    pre, post = {}, {}
    for n in cfg.nodes:
        if n.kind == "stmt" and isinstance(n.ast, ast.Assign):
            tgt, val = dotted(n.ast.targets[0]), n.ast.value
            facts = cfg.facts_at(n.id)
            d = "server" if fact_holds(facts, "isserver", True) else "client" if fact_holds(facts, "isserver", False) else None
            if tgt == "plaintext" and isinstance(val, ast.BinOp) and isinstance(val.op, ast.Add) and dotted(val.right) == "plaintext" and (dotted(val.left) or "").startswith("self.") and d:
                pre[d] = dotted(val.left)
            if tgt and tgt.startswith("self.") and src(val) == "plaintext[index:]" and d:
                post[d] = tgt
    whole = any(isinstance(n, ast.If) and any(isinstance(b, ast.Break) for b in n.body) and " ".join(src(n.test).split()) in
                ("index + 4 + length > len(plaintext)", "index + length + 4 > len(plaintext)", "len(plaintext) < index + 4 + length", "len(plaintext) < index + length + 4")
                for n in body_walk(hd.node))
    ok = set(pre) == {"server", "client"} and pre == post and pre["server"] != pre["client"] and whole
    r.ob(ok, Finding("T4t", "session:Session.handle_decrypted_tls_13_handshake_record:reassembly",
                     f"TLS 1.3 handshake messages split over several records must be reassembled per direction (prefix {pre}, kept tail {post}, complete-message test {whole}): "
                     f"when the record that holds the Finished begins with the rest of a longer message the walker otherwise starts in the middle of it, never sees the Finished and "
                     f"the application keys of that direction are never installed", hd.module.line(hd.node)))
    # update_keys has exactly this one caller
    r.instances += 1
    from ..callgraph import CallGraph
    cg = CallGraph.of(tree)
    uk = tree.func("decryptor", "Decryptor.update_keys")
    callers = {cs.caller.key for cs in cg.callers_of(uk)}
    r.ob(callers == {"session:Session.handle_decrypted_tls_13_handshake_record"}, Finding("T4t", "decryptor:Decryptor.update_keys:callers", f"update_keys must be called only at the Finished message; callers {sorted(callers)}", uk.module.line(uk.node)))
    # alert handling
    r.instances += 1
    al = tree.func("session", "Session.handle_alert")
    body = strip_stmts(al.node.body)
    sets = {dotted(s.targets[0]): try_fold(s.value, default="?") for s in body if isinstance(s, ast.Assign)}
    r.ob(sets.get("self.can_decrypt") is False, Finding("T4t", "session:Session.handle_alert:closes", "a fatal alert closes the gate", al.module.line(al.node)))
    return r


# ------------------------------------------------------------------------------------------ A5
AEAD_METHODS = ["decrypt_tls13_aead", "decrypt_tls13_stream_cipher", "decrypt_tls12_aead", "decrypt_tls12_chacha20"]


AEAD_LAYOUT = {
    "decrypt_tls13_aead": {"nonce": "byte_xor(IV, SEQ.to_bytes(8, 'big'))", "ciphertext": "record.binary",
                           "aad": "int.to_bytes(record.record_type, 1, 'big') + record.record_version + record.record_length"},
    "decrypt_tls13_stream_cipher": {"nonce": "byte_xor(IV, SEQ.to_bytes(8, 'big'))", "ciphertext": "record.binary",
                                    "aad": "int.to_bytes(record.record_type, 1, 'big') + record.record_version + record.record_length"},
    "decrypt_tls12_aead": {"nonce": "IV + record.binary[:8]", "ciphertext": "record.binary[8:]",
                           "aad": "SEQ.to_bytes(8, 'big') + record.raw[:3] + (len(record.binary) - 8 - self.tag_length).to_bytes(2, 'big')"},
    "decrypt_tls12_chacha20": {"nonce": "byte_xor(IV, SEQ.to_bytes(8, 'big'))", "ciphertext": "record.binary",
                               "aad": "SEQ.to_bytes(8, 'big') + record.record_type.to_bytes(1, 'big') + record.record_version + (len(record.binary) - 16).to_bytes(2, 'big')"},
}


def _norm_expr(text_or_node) -> str:
    e = ast.parse(text_or_node, mode="eval").body if isinstance(text_or_node, str) else text_or_node

    class Strip(ast.NodeTransformer):
        def visit_Call(self, node):
            self.generic_visit(node)
            # bytes(x) / int(x) / bytearray(x) conversions of values that already have that type do not change the AEAD input
            if isinstance(node.func, ast.Name) and node.func.id in ("bytes", "int", "bytearray") and len(node.args) == 1 and not node.keywords:
                return node.args[0]
            return node
    e = Strip().visit(e)
    return ast.unparse(e)


def _aead_call_forms(f, cfg, call: ast.Call) -> dict:
    """nonce / ciphertext / additional data of the AEAD decrypt call with every single-definition local substituted; the direction's
    iv / sequence-number locals (assigned from self.<d>_iv / self.<d>_seq in both arms) become IV / SEQ."""
    import copy
    defs = {}
    multi = {}
    for n in cfg.nodes:
        if n.kind == "stmt" and isinstance(n.ast, ast.Assign) and len(n.ast.targets) == 1 and isinstance(n.ast.targets[0], ast.Name):
            multi.setdefault(n.ast.targets[0].id, []).append(n.ast.value)
    role = {}
    for v, vals in multi.items():
        ds = [dotted(x) or "" for x in vals]
        if len(vals) == 2 and {ds[0].replace("server", "X").replace("client", "X")} == {ds[1].replace("server", "X").replace("client", "X")} and ds[0] != ds[1]:
            if ds[0].endswith("_iv"):
                role[v] = "IV"
            elif ds[0].endswith("_seq"):
                role[v] = "SEQ"
            elif ds[0].endswith("_key"):
                role[v] = "KEY"
        elif len(vals) == 1:
            defs[v] = vals[0]
    from ..dataflow import reaching_definitions
    rd = reaching_definitions(cfg)

    def subst(e, at: int, depth=0):
        e = copy.deepcopy(e)
        here = rd.get(at, {})

        class S(ast.NodeTransformer):
            def visit_Name(self, node):
                if node.id in role:
                    return ast.Name(role[node.id], ast.Load())
                ids = here.get(node.id, set())
                if len(ids) == 1 and depth < 6:
                    d = next(iter(ids))
                    a = cfg.nodes[d].ast
                    if isinstance(a, ast.Assign) and len(a.targets) == 1 and isinstance(a.targets[0], ast.Name):
                        return subst(a.value, d, depth + 1)
                return node
        return S().visit(e)
    out = {}
    at = cfg.node_of(call)
    args = list(call.args) + [None] * 3
    for k, a in zip(("nonce", "ciphertext", "aad"), args[:3]):
        if a is None:
            continue
        out[k] = _norm_expr(subst(a, at))
    return out


def rule_A5(tree: Tree) -> RuleResult:
    r = RuleResult("A5", "per-direction cipher state: the sequence number read into nonce/AAD is the one incremented exactly once after the AEAD call; "
                         "CBC residue chained from ciphertext; RC4 contexts created once; key switch assigns key, IV and seq=0 of one direction")
    dec = tree.cls("decryptor", "Decryptor")
    m = dec.module
    for name in AEAD_METHODS:
        f = dec.methods.get(name)
        if f is None:
            raise AnchorMissing(f"Decryptor.{name} not found")
        cfg = cfg_of(f.node)
        aead_nodes = [n for n in cfg.nodes if n.kind == "stmt" and any(isinstance(c, ast.Call) and isinstance(c.func, ast.Attribute) and c.func.attr == "decrypt"
                                                                       and dotted(c.func.value) not in ("self", "self.decryptor") for c in ast.walk(n.ast))]
        if len(aead_nodes) > 1:
            # a second authenticated-decryption attempt (retry with another sequence number / key) re-synchronises after a loss: what follows a gap is then
            # exported although the record stream is no longer the one the peer sent in order
            r.instances += 1
            r.ob(False, Finding("A5", f"decryptor:Decryptor.{name}:single-aead-attempt",
                                f"Decryptor.{name} calls the AEAD {len(aead_nodes)} times: each record is opened exactly once, with the direction's current sequence number; "
                                f"a retry with a guessed sequence number changes the per-direction state on a failure", m.line(aead_nodes[1].ast)))
            continue
        if len(aead_nodes) != 1:
            raise AnalysisError(f"Decryptor.{name}: expected one AEAD decrypt call, found {len(aead_nodes)}")
        D = aead_nodes[0]
        for d, truth in (("server", True), ("client", False)):
            r.instances += 1
            key = f"decryptor:Decryptor.{name}:{d}-seq"
            incs = [n for n in cfg.nodes if n.kind == "stmt" and isinstance(n.ast, ast.AugAssign) and dotted(n.ast.target) == f"self.{d}_seq"]
            others = [n for n in cfg.nodes if n.kind == "stmt" and isinstance(n.ast, ast.Assign) and any(dotted(t) == f"self.{d}_seq" for t in n.ast.targets)]
            ok = len(incs) == 1 and not others
            why = f"{len(incs)} increments, {len(others)} other writes"
            if ok:
                inc = incs[0]
                ok = isinstance(inc.ast.op, ast.Add) and try_fold(inc.ast.value) == 1
                ok = ok and fact_holds(cfg.facts_at(inc.id), "isserver", truth)
                ok = ok and cfg.dominates(D.id, inc.id) and not inc.loops
                why = f"increment `{src(inc.ast)}` under isserver={truth}: {fact_holds(cfg.facts_at(inc.id), 'isserver', truth)}, after AEAD call: {cfg.dominates(D.id, inc.id)}"
            # the value read: local `seq` assigned from self.<d>_seq under the same fact, used in nonce / AAD
            reads = [n for n in cfg.nodes if n.kind == "stmt" and isinstance(n.ast, ast.Assign) and dotted(n.ast.value) == f"self.{d}_seq"]
            rd_ok = len(reads) == 1 and fact_holds(cfg.facts_at(reads[0].id), "isserver", truth) and cfg.dominates(reads[0].id, D.id) is False or \
                (len(reads) == 1 and fact_holds(cfg.facts_at(reads[0].id), "isserver", truth))
            r.ob(ok and rd_ok, Finding("A5", key, f"Decryptor.{name}: the {d} sequence number must be read in the {d} arm and incremented by exactly 1, once, "
                                                   f"after a successful AEAD decrypt on every path ({why})", m.line(f.node)))
        # every path from the AEAD call to the return passes an increment
        r.instances += 1
        ok = cfg.always_passes_through(D.id, lambda n: n.kind == "stmt" and isinstance(n.ast, ast.AugAssign) and (dotted(n.ast.target) or "").endswith("_seq"))
        r.ob(ok, Finding("A5", f"decryptor:Decryptor.{name}:seq-on-all-paths", f"Decryptor.{name}: some path from the AEAD call to the return skips the sequence-number increment", m.line(f.node)))
        # nonce / AAD use the local that carries the sequence number
        r.instances += 1
        seq_locals = {dotted(n.ast.targets[0]) for n in cfg.nodes if n.kind == "stmt" and isinstance(n.ast, ast.Assign) and (dotted(n.ast.value) or "").endswith("_seq")}
        uses_seq = False
        call = next(c for c in ast.walk(D.ast) if isinstance(c, ast.Call) and isinstance(c.func, ast.Attribute) and c.func.attr == "decrypt")
        names_in_call = {x.id for a in call.args for x in ast.walk(a) if isinstance(x, ast.Name)}
        deps = set()
        for n in cfg.nodes:
            if n.kind == "stmt" and isinstance(n.ast, ast.Assign) and dotted(n.ast.targets[0]) in names_in_call:
                deps |= {x.id for x in ast.walk(n.ast.value) if isinstance(x, ast.Name)}
        uses_seq = bool(deps & seq_locals)
        iv_locals = {dotted(n.ast.targets[0]) for n in cfg.nodes if n.kind == "stmt" and isinstance(n.ast, ast.Assign) and (dotted(n.ast.value) or "").endswith("_iv")}
        key_locals = {dotted(n.ast.targets[0]) for n in cfg.nodes if n.kind == "stmt" and isinstance(n.ast, ast.Assign) and (dotted(n.ast.value) or "").endswith("_key")}
        ok = uses_seq and bool(deps & iv_locals)
        r.ob(ok, Finding("A5", f"decryptor:Decryptor.{name}:nonce-inputs", f"Decryptor.{name}: the nonce/AAD handed to the AEAD call must derive from the direction's IV and sequence number (derives from {sorted(deps)})", m.line(f.node)))
        # record layout of the AEAD call (RFC 5246 §6.2.3.3 / RFC 5288 / RFC 7905 / RFC 8446 §5.2–5.3): after forward substitution of the locals, the nonce,
        # the ciphertext and the additional data are the expressions of the table — the explicit nonce comes from the record, not from the counter
        r.instances += 1
        got = _aead_call_forms(f, cfg, call)
        want = AEAD_LAYOUT[name]
        bad = [f"{k}: `{got.get(k)}` (expected `{want[k]}`)" for k in ("nonce", "ciphertext", "aad") if got.get(k) != _norm_expr(want[k])]
        r.ob(not bad, Finding("A5", f"decryptor:Decryptor.{name}:aead-layout", f"Decryptor.{name}: AEAD inputs differ from the record layout — {'; '.join(bad)[:400]}", m.line(call)))
    # role purity of direction arms in decryptor.py
    for f in dec.methods.values():
        for n in body_walk(f.node):
            if isinstance(n, ast.If) and dotted(n.test) == "isserver" and n.orelse:
                r.instances += 1
                bad = []
                for arm, role, other in ((n.body, "server", "client"), (n.orelse, "client", "server")):
                    for s in arm:
                        for x in ast.walk(s):
                            if isinstance(x, ast.Attribute) and dotted(x.value) == "self":
                                toks = x.attr.split("_")
                                if other in toks or (toks[0] == other[0] and len(toks[0]) == 1):
                                    bad.append(f"{role} arm uses self.{x.attr}")
                r.ob(not bad, Finding("A5", f"decryptor:{f.qualname}:role-purity:{bad[0] if bad else ''}",
                                      f"{f.qualname}: {bad[:2]} — the arm taken for server records must only touch server state and vice versa", m.line(n)))
    # CBC residue
    f = dec.methods.get("decrypt_last_block_iv_cbc")
    if f is None:
        raise AnchorMissing("Decryptor.decrypt_last_block_iv_cbc not found")
    cfg = cfg_of(f.node)
    upd = [n for n in cfg.nodes if n.kind == "stmt" and any(isinstance(c, ast.Call) and isinstance(c.func, ast.Attribute) and c.func.attr == "update" for c in ast.walk(n.ast))]
    if len(upd) != 1:
        raise AnalysisError("decrypt_last_block_iv_cbc: CBC update call not found")
    U = upd[0]
    ucall = next(c for c in ast.walk(U.ast) if isinstance(c, ast.Call) and isinstance(c.func, ast.Attribute) and c.func.attr == "update")
    ct_var = dotted(ucall.args[0]) if ucall.args else None
    for d, truth in (("server", True), ("client", False)):
        r.instances += 1
        ws = [n for n in cfg.nodes if n.kind == "stmt" and isinstance(n.ast, ast.Assign) and dotted(n.ast.targets[0]) == f"self.last_block_{d}"]
        ok = len(ws) == 1
        why = f"{len(ws)} writes"
        if ok:
            w = ws[0]
            v = w.ast.value
            from_ct = isinstance(v, ast.Subscript) and dotted(v.value) == ct_var and isinstance(v.slice, ast.Slice) and v.slice.upper is None \
                and isinstance(v.slice.lower, ast.UnaryOp) and isinstance(v.slice.lower.op, ast.USub)
            # ct_var at the write is the same definition as at the update call (no re-assignment in between)
            rd = reaching_definitions(cfg)
            same_def = rd.get(w.id, {}).get(ct_var) == rd.get(U.id, {}).get(ct_var)
            ok = from_ct and same_def and fact_holds(cfg.facts_at(w.id), "isserver", truth) and cfg.dominates(U.id, w.id)
            why = f"value `{src(v)}`, taken from the decrypted ciphertext variable `{ct_var}`: {from_ct and same_def}"
        rdiv = [n for n in cfg.nodes if n.kind == "stmt" and isinstance(n.ast, ast.Assign) and dotted(n.ast.value) == f"self.last_block_{d}"]
        ok = ok and len(rdiv) == 1 and fact_holds(cfg.facts_at(rdiv[0].id), "isserver", truth)
        r.ob(ok, Finding("A5", f"decryptor:Decryptor.decrypt_last_block_iv_cbc:{d}-residue",
                         f"SSL 3.0 / TLS 1.0 CBC: the next IV of the {d} direction must be the last block of the *ciphertext* just decrypted (after MAC stripping), "
                         f"written in the {d} arm on every exit ({why})", m.line(f.node)))
    r.instances += 1
    ok = cfg.always_passes_through(U.id, lambda n: n.kind == "stmt" and isinstance(n.ast, ast.Assign) and (dotted(n.ast.targets[0]) or "").startswith("self.last_block_"))
    r.ob(ok, Finding("A5", "decryptor:Decryptor.decrypt_last_block_iv_cbc:residue-on-all-paths", "some path through the CBC method does not update the residue", m.line(f.node)))
    # residue length = block length in bytes
    r.instances += 1
    idx = [n.ast.value for n in cfg.nodes if n.kind == "stmt" and isinstance(n.ast, ast.Assign) and dotted(n.ast.targets[0]) == "index"]
    ok = bool(idx) and all(src(v) in ("int(self.block_length / 8)", "self.block_length // 8", "self.block_length >> 3") for v in idx)
    r.ob(ok, Finding("A5", "decryptor:Decryptor.decrypt_last_block_iv_cbc:residue-length", f"the residue length must be block_length/8 bytes; found {[src(v) for v in idx]}", m.line(f.node)))
    # encrypt-then-MAC (RFC 7366) in both CBC methods: the MAC is cut off the ciphertext *before* decryption iff the extension was negotiated,
    # otherwise it is cut off the plaintext *after* unpadding
    for mn in ("decrypt_tls12_block_cipher", "decrypt_last_block_iv_cbc"):
        fm = dec.methods.get(mn)
        if fm is None:
            raise AnchorMissing(f"Decryptor.{mn} not found")
        c2 = cfg_of(fm.node)
        r.instances += 1
        upds = [n for n in c2.nodes if n.kind == "stmt" and any(isinstance(c, ast.Call) and isinstance(c.func, ast.Attribute) and c.func.attr == "update" for c in ast.walk(n.ast))]
        pre = [n for n in c2.nodes if n.kind == "stmt" and isinstance(n.ast, ast.Assign) and src(n.ast) == "ciphertext = ciphertext[:-self.mac_length]"]
        post = [n for n in c2.nodes if n.kind == "stmt" and isinstance(n.ast, ast.Assign) and src(n.ast) in ("decrypted = decrypted[:-self.mac_length]", "plaintext = plaintext[:-self.mac_length]")]
        ok = len(upds) == 1 and len(pre) == 1 and len(post) == 1
        if ok:
            U2 = upds[0]
            ok = fact_holds(c2.facts_at(pre[0].id), "self.encrypt_then_mac", True) and c2.paths_exist(pre[0].id, U2.id) and not c2.paths_exist(U2.id, pre[0].id)
            ok = ok and fact_holds(c2.facts_at(post[0].id), "self.encrypt_then_mac", False) and c2.dominates(U2.id, post[0].id)
            # unpadding precedes the MAC strip of the plaintext
            unpad = [n for n in c2.nodes if n.kind == "stmt" and isinstance(n.ast, ast.Assign) and "padding_len" in src(n.ast.value) and "[:-(" in src(n.ast.value)]
            ok = ok and len(unpad) == 1 and c2.dominates(unpad[0].id, post[0].id)
            padlen = [src(n.ast.value) for n in c2.nodes if n.kind == "stmt" and isinstance(n.ast, ast.Assign) and dotted(n.ast.targets[0]) in ("padding_length", "padding_len")]
            ok = ok and padlen == ["decrypted[-1]"]
        r.ob(ok, Finding("A5", f"decryptor:Decryptor.{mn}:mac-position",
                         f"Decryptor.{mn}: with encrypt_then_mac the MAC is removed from the ciphertext before CBC decryption, otherwise from the plaintext after removing "
                         f"padding_length + 1 bytes of padding (padding length = last plaintext byte)", m.line(fm.node)))
    # RC4: contexts constructed only in __init__, used per direction
    r.instances += 1
    g = dec.methods.get("decrypt_generic_stream_cipher")
    if g is None:
        raise AnchorMissing("Decryptor.decrypt_generic_stream_cipher not found")
    ctor_in_method = [src(c, 40) for c in body_walk(g.node) if isinstance(c, ast.Call) and (dotted(c.func) or "").split(".")[-1] in ("Cipher", "decryptor", "ARC4")]
    init = dec.methods["__init__"]
    init_ctx = {dotted(s.targets[0]): src(s.value) for s in body_walk(init.node) if isinstance(s, ast.Assign) and (dotted(s.targets[0]) or "").endswith("_cipher")}
    ok = not ctor_in_method and init_ctx.get("self.server_cipher") == "Cipher(self.bulk_alg(self.server_key), mode=None).decryptor()" \
        and init_ctx.get("self.client_cipher") == "Cipher(self.bulk_alg(self.client_key), mode=None).decryptor()"
    r.ob(ok, Finding("A5", "decryptor:Decryptor.decrypt_generic_stream_cipher:keystream-continuity",
                     f"RC4 keystream position is state of the whole direction: the two decryptor contexts are created once in __init__ from the direction's own key and "
                     f"only `update`d per record (contexts in method: {ctor_in_method}; __init__: {init_ctx})", m.line(g.node)))
    # update_keys
    uk = dec.methods.get("update_keys")
    if uk is None:
        raise AnchorMissing("Decryptor.update_keys not found")
    cfgu = cfg_of(uk.node)
    for d, truth in (("server", True), ("client", False)):
        r.instances += 1
        want = {f"self.{d}_key": f"self.{d}_application_key", f"self.{d}_iv": f"self.{d}_application_iv", f"self.{d}_seq": "0"}
        got = {}
        for n in cfgu.nodes:
            if n.kind == "stmt" and isinstance(n.ast, ast.Assign) and fact_holds(cfgu.facts_at(n.id), "isserver", truth):
                got[dotted(n.ast.targets[0])] = src(n.ast.value)
        r.ob(got == want, Finding("A5", f"decryptor:Decryptor.update_keys:{d}-switch",
                                  f"the handshake→application switch of the {d} direction must assign key, IV and seq = 0 together from the {d} application values; found {got}", m.line(uk.node)))
    # initial state
    r.instances += 1
    cfgi = cfg_of(init.node)
    ini = {dotted(s.targets[0]): src(s.value) for s in body_walk(init.node) if isinstance(s, ast.Assign) and dotted(s.targets[0])}
    ok = ini.get("self.client_seq") == "0" and ini.get("self.server_seq") == "0" and ini.get("self.last_block_server") == "self.server_iv" and ini.get("self.last_block_client") == "self.client_iv"
    r.ob(ok, Finding("A5", "decryptor:Decryptor.__init__:initial-state", "sequence numbers start at 0; the first CBC IV of each direction is that direction's key-block IV", m.line(init.node)))
    # parse_keys: TLS 1.3 starts with the handshake keys of each direction
    r.instances += 1
    pk = dec.methods.get("parse_keys")
    asg = {}
    cfgp = cfg_of(pk.node)
    for n in cfgp.nodes:
        if n.kind == "stmt" and isinstance(n.ast, ast.Assign) and dotted(n.ast.targets[0]) in ("self.server_key", "self.client_key", "self.server_iv", "self.client_iv") \
                and fact_holds(cfgp.facts_at(n.id), "self.tls_version == TlsVersion.TLS13", True):
            asg[dotted(n.ast.targets[0])] = src(n.ast.value)
    ok = asg == {"self.server_key": "self.server_handshake_key", "self.client_key": "self.client_handshake_key", "self.server_iv": "self.server_handshake_iv", "self.client_iv": "self.client_handshake_iv"}
    r.ob(ok, Finding("A5", "decryptor:Decryptor.parse_keys:tls13-initial-keys", f"TLS 1.3 decryption starts with each direction's handshake key and IV; found {asg}", m.line(pk.node)))
    return r


# ------------------------------------------------------------------------------------------ PAD
def rule_PAD(tree: Tree) -> RuleResult:
    r = RuleResult("PAD", "TLS 1.3: the inner content type is read after removing the zero padding (RFC 8446 §5.4)")
    f = tree.func("session", "Session.handle_tls_13_application_record")
    cfg = cfg_of(f.node)
    rd = reaching_definitions(cfg)
    r.instances += 1
    # the statement that reads the last byte
    readers = [n for n in cfg.nodes if n.kind == "stmt" and isinstance(n.ast, ast.Assign) and isinstance(n.ast.value, ast.Subscript)
               and src(n.ast.value.slice) in ("-1:", "-1")]
    if not readers:
        raise AnchorMissing("handle_tls_13_application_record: read of the trailing content-type byte not found")
    rdr = readers[0]
    var = dotted(rdr.ast.value.value)
    defs = rd.get(rdr.id, {}).get(var, set())
    ok = bool(defs)
    for d in defs:
        a = cfg.nodes[d].ast
        stripped = False
        if isinstance(a, ast.Assign):
            v = a.value
            for c in ast.walk(v):
                if isinstance(c, ast.Call) and isinstance(c.func, ast.Attribute) and c.func.attr == "rstrip" and c.args and try_fold(c.args[0]) == b"\x00":
                    stripped = True
        # a strip loop: while x[-1] == 0: x = x[:-1]
        for anc in ancestors(a):
            if isinstance(anc, ast.While) and "[-1]" in src(anc.test) and "0" in src(anc.test):
                stripped = True
        ok = ok and stripped
    r.ob(ok, Finding("PAD", "session:Session.handle_tls_13_application_record:padding-strip",
                     f"`{src(rdr.ast)}` reads the content type from the last byte of the decrypted record, but TLSInnerPlaintext is content‖type‖zeros: every padded record "
                     f"is mistaken for type 0 and its data dropped; strip the trailing zeros first", f.module.line(rdr.ast)))
    # the exported data excludes the type byte; handshake sub-records go to the handshake walker; type constants
    r.instances += 1
    body_txt = src(f.node, 4000)
    ok = "self.application_traffic.append((plaintext[:-1], record, isserver))" in body_txt and "self.handle_decrypted_tls_13_handshake_record(plaintext[:-1], isserver)" in body_txt
    consts = [try_fold(n.comparators[0]) for n in body_walk(f.node) if isinstance(n, ast.Compare) and dotted(n.left) == dotted(rdr.ast.targets[0])]
    ok = ok and b"\x16" in consts and b"\x17" in consts
    r.ob(ok, Finding("PAD", "session:Session.handle_tls_13_application_record:inner-dispatch",
                     "inner type 0x17 → export content without the type byte; 0x16 → handshake walker (Finished triggers the key switch)", f.module.line(f.node)))
    return r


# ------------------------------------------------------------------------------------------ T10
GUARDS: Dict[str, Any] = {}


def _slice_forms(fn: ast.FunctionDef, base: str, env: Dict[str, Any]) -> List[Tuple[str, Any, Any, ast.AST]]:
    """Straight-line symbolic walk over top-level statements: integer locals are kept as linear forms; every slice / index of `base`
    is reported as (target name, lo, hi | None, node)."""
    out = []

    def visit_block(stmts):
        for st in stmts:
            if isinstance(st, ast.Assign) and len(st.targets) == 1:
                tgt = dotted(st.targets[0])
                for x in ast.walk(st):
                    if isinstance(x, ast.Subscript) and dotted(x.value) == base:
                        if isinstance(x.slice, ast.Slice):
                            lo = nf(x.slice.lower, env) if x.slice.lower is not None else ("c", 0)
                            hi = nf(x.slice.upper, env) if x.slice.upper is not None else None
                            out.append((tgt, lo, hi, x))
                        else:
                            out.append((tgt, nf(x.slice, env), "idx", x))
                if tgt and isinstance(st.targets[0], ast.Name):
                    v = st.value
                    if isinstance(v, ast.IfExp) and try_fold(v.orelse) == 0:
                        # `field if <inside the message> else 0`: the field's position is that of the guarded read; the guard is an obligation of its own
                        GUARDS[tgt] = (v.test, dict(env))
                        v = v.body
                    if isinstance(v, ast.Subscript) and dotted(v.value) == base and not isinstance(v.slice, ast.Slice):
                        env[tgt] = ("s", f"byte@{_fmt_lin(nf(v.slice, env))}")
                    elif isinstance(v, ast.Call) and dotted(v.func) == "int.from_bytes" and v.args and isinstance(v.args[0], ast.Subscript) and dotted(v.args[0].value) == base:
                        sl = v.args[0].slice
                        env[tgt] = ("s", f"int@{_fmt_lin(nf(sl.lower, env))}")
                    else:
                        val = nf(v, env)
                        if val[0] in ("c", "sum", "s"):
                            env[tgt] = val
            elif isinstance(st, ast.AugAssign) and isinstance(st.target, ast.Name) and isinstance(st.op, ast.Add):
                cur = env.get(st.target.id)
                inc = nf(st.value, env)
                if cur is not None:
                    c1, t1 = _as_sum(cur)
                    c2, t2 = _as_sum(inc)
                    for k, v in t2.items():
                        t1[k] = t1.get(k, 0) + v
                    env[st.target.id] = _sum(c1 + c2, t1)
    visit_block(fn.body)
    return out


def _fmt_lin(n) -> str:
    from .pkn import _fmt
    return _fmt(n)


def rule_T10(tree: Tree) -> RuleResult:
    r = RuleResult("T10", "hello layouts by symbolic cursor (RFC 5246 §7.4.1 / RFC 8446 §4.1) and version decision agreeing with the TlsVersion enum")
    m = tree.module("session")
    # ClientHello
    ch = tree.func("session", "Session.handle_tls_client_hello")
    r.instances += 1
    sl = _slice_forms(ch.node, "record.binary", {})
    got = {t: (_fmt_lin(lo), _fmt_lin(hi) if isinstance(hi, tuple) else hi) for t, lo, hi, _ in sl}
    r.ob(got.get("self.client_random") == ("6", "0x26"), Finding("T10", "session:Session.handle_tls_client_hello:client-random",
                                                                  f"the client random is bytes [6:38] of the handshake message (4-byte header, 2-byte version); found {got}", m.line(ch.node)))
    # ServerHello
    sh = tree.func("session", "Session.handle_tls_server_hello")
    sl = _slice_forms(sh.node, "record.binary", {})
    got = {}
    for t, lo, hi, node in sl:
        got.setdefault(t, (_fmt_lin(lo), _fmt_lin(hi) if isinstance(hi, tuple) else hi))
    Sf = ("s", "byte@0x26")
    Ef = ("s", "int@" + _fmt_lin(nf(ast.parse("S + 42", mode="eval").body, {"S": Sf})))

    def W(lo, hi):
        envw = {"S": Sf, "E": Ef}
        return (_fmt_lin(nf(ast.parse(lo, mode="eval").body, envw)), hi if hi in ("idx", None) else _fmt_lin(nf(ast.parse(hi, mode="eval").body, envw)))
    want = {
        "self.server_random": W("6", "38"),
        "session_id_length": W("38", "idx"),
        "self.ciphersuite": W("39 + S", "41 + S"),
        "self.compression_method": W("41 + S", "idx"),
        "extensions_length": W("42 + S", "44 + S"),
        "extensions_bin": W("44 + S", "44 + S + E"),
    }
    for k, w in want.items():
        r.instances += 1
        r.ob(got.get(k) == w, Finding("T10", f"session:Session.handle_tls_server_hello:{k.replace('self.', '')}",
                                      f"ServerHello field `{k}` is read from record.binary{list(got.get(k, ('?', '?')))}, the layout (header 4, version 2, random 32, "
                                      f"sid_len 1, sid, suite 2, compression 1, ext_len 2, extensions) puts it at {list(w)} (byte@0x26 = session-id length)", m.line(sh.node)))
    r.sample({"ServerHello fields": got})
    # the extension block is optional: its length field is read only if it lies inside the ServerHello message (4 + handshake length), otherwise the bytes belong
    # to the next handshake message of the record
    r.instances += 1
    g = GUARDS.get("extensions_length")
    ok = False
    if g is not None and isinstance(g[0], ast.Compare) and len(g[0].ops) == 1 and isinstance(g[0].ops[0], (ast.Lt, ast.LtE)):
        envg = g[1]
        lhs, rhs = nf(g[0].left, envg), nf(g[0].comparators[0], envg)
        end = nf(ast.parse("4 + H", mode="eval").body, {"H": ("s", "int@1")})
        if rhs == nf(ast.parse("4 + int.from_bytes(record.binary[1:4], 'big')", mode="eval").body, {}):
            rhs = end
        lo = nf(ast.parse("S + 42", mode="eval").body, {"S": Sf})
        if isinstance(g[0].ops[0], ast.Lt):
            ok = rhs == end and lhs in (lo, nf(ast.parse("S + 43", mode="eval").body, {"S": Sf}))
        else:
            ok = rhs == end and lhs == nf(ast.parse("S + 44", mode="eval").body, {"S": Sf})
    r.ob(ok, Finding("T10", "session:Session.handle_tls_server_hello:extensions-bounded",
                     "the ServerHello extension block must be read only when it lies inside the message (offset of its length field < 4 + handshake length): a ServerHello "
                     "without extensions that shares its record with the next message would otherwise take that message's bytes as extensions "
                     "(0x0016 = encrypt-then-MAC changes the record layout)", m.line(sh.node)))
    # extension walk
    r.instances += 1
    loops = [n for n in body_walk(sh.node) if isinstance(n, ast.While)]
    ok = False
    if loops:
        w = loops[0]
        cur = dotted(w.test.left) if isinstance(w.test, ast.Compare) else None
        env = {cur: ("s", "X")} if cur else {}
        sl2 = _slice_forms(ast.FunctionDef(name="x", args=None, body=w.body, decorator_list=[]), "extensions_bin", env)
        forms = sorted((_fmt_lin(lo), _fmt_lin(hi) if isinstance(hi, tuple) else hi) for _, lo, hi, _ in sl2)
        Xf = ("s", "X")
        Lf = ("s", "int@" + _fmt_lin(nf(ast.parse("X + 2", mode="eval").body, {"X": Xf})))

        def WX(e):
            return _fmt_lin(nf(ast.parse(e, mode="eval").body, {"X": Xf, "L": Lf}))
        want_forms = sorted([(WX("X + 2"), WX("X + 4")), (WX("X"), WX("X + 2")), (WX("X + 4"), WX("X + 4 + L"))])
        step = env.get(cur)
        ok = forms == want_forms and step is not None and _fmt_lin(step) == WX("X + L + 4") and src(w.test) == f"{cur} < extensions_length"
        r.sample({"extension walk": forms, "step": _fmt_lin(step) if step else None})
    r.ob(ok, Finding("T10", "session:Session.handle_tls_server_hello:extension-walk",
                     "extensions are TLVs: type [X:X+2], length [X+2:X+4], body [X+4:X+4+len], next X += len + 4, while X < extensions_length", m.line(sh.node)))
    # extension keys used by consumers: 0x002b supported_versions == 0x0304 ; 0x0016 encrypt-then-mac
    r.instances += 1
    sv = [n for n in body_walk(sh.node) if isinstance(n, ast.Compare) and "extensions.get" in src(n.left)]
    ok = False
    for n in sv:
        k = try_fold(n.left.args[0]) if isinstance(n.left, ast.Call) and n.left.args else None
        v = try_fold(n.comparators[0])
        if k == b"\x00\x2b" and v is not None and bytes(v) == b"\x03\x04" and isinstance(n.ops[0], ast.Eq):
            ok = True
    di = tree.func("decryptor", "Decryptor.__init__")
    etm = [try_fold(n.left) for n in body_walk(di.node) if isinstance(n, ast.Compare) and isinstance(n.ops[0], ast.In) and "extensions" in src(n.comparators[0])]
    r.ob(ok and etm == [b"\x00\x16"], Finding("T10", "session:Session.handle_tls_server_hello:extension-codes",
                                                  f"supported_versions is extension 0x002b with value 0x0304 for TLS 1.3; encrypt_then_mac is extension 0x0016 (found {etm})", m.line(sh.node)))
    # version decision table
    r.instances += 1
    mt = [n for n in strip_stmts(sh.node.body) if isinstance(n, ast.Match)]
    if not mt:
        raise AnchorMissing("handle_tls_server_hello: version match not found")
    mt = mt[0]
    subj = " ".join(ast.unparse(mt.subject).split())
    domain = [(0x0300, False, "SSL30"), (0x0301, False, "TLS10"), (0x0302, False, "TLS11"), (0x0303, False, "TLS12"), (0x0303, True, "TLS13")]
    bad = []
    for ver, is13, want_v in domain:
        env = {"is_tls13": is13, "int.from_bytes(record.binary[4:6], 'big')": ver}
        res = _eval_version(tree, m, mt, ver, env)
        if res != V + want_v:
            bad.append(f"(version 0x{ver:04x}, supported_versions={'0x0304' if is13 else 'absent'}) → {str(res).split('.')[-1] if res else res}, expected {want_v}")
    ok_subj = subj in ("int.from_bytes(record.record_version, 'big')", "int.from_bytes(record.binary[4:6], 'big')")
    r.ob(not bad and ok_subj, Finding("T10", "session:Session.handle_tls_server_hello:version-decision",
                                       f"negotiated version decision disagrees with the TlsVersion enum: {bad or subj}", m.line(mt)))
    # enum values
    r.instances += 1
    tv = tree.cls("tlsversion", "TlsVersion")
    vals = {dotted(s.targets[0]): try_fold(s.value) for s in tv.node.body if isinstance(s, ast.Assign)}
    r.ob(all(vals.get(k) == v for k, v in (("SSL30", 0x0300), ("TLS10", 0x0301), ("TLS11", 0x0302), ("TLS12", 0x0303), ("TLS13", 0x0304))),
         Finding("T10", "tlsversion:TlsVersion:values", f"TlsVersion members must carry the wire values 0x0300–0x0304; found {vals}", tv.module.relpath))
    # generate_keys is called with the session's own hello values
    r.instances += 1
    gk = [n for n in body_walk(sh.node) if isinstance(n, ast.Call) and dotted(n.func) == "self.generate_keys"]
    ok = len(gk) == 1 and [dotted(a) for a in gk[0].args] == ["self.tls_version", "self.ciphersuite", "self.client_random", "self.server_random"]
    r.ob(ok, Finding("T10", "session:Session.handle_tls_server_hello:generate-keys-args", "generate_keys(tls_version, ciphersuite, client_random, server_random) must receive the values parsed from this handshake", m.line(sh.node)))
    # TlsRecord layout
    r.instances += 1
    tr = tree.func("tlsrecord", "TlsRecord.__init__")
    sl = _slice_forms(tr.node, "binary", {})
    got = {t: (_fmt_lin(lo), _fmt_lin(hi) if isinstance(hi, tuple) else hi) for t, lo, hi, _ in sl}
    want = {"self.binary": ("5", None), "self.record_type": ("0", "idx"), "self.record_version": ("1", "3"), "self.record_length": ("3", "5")}
    raw_ok = any(isinstance(s, ast.Assign) and dotted(s.targets[0]) == "self.raw" and dotted(s.value) == "binary" for s in tr.node.body)
    r.ob(got == want and raw_ok, Finding("T10", "tlsrecord:TlsRecord.__init__:layout", f"TLS record = type(1) version(2) length(2) fragment; found {got}", tr.module.line(tr.node)))
    return r


def _eval_version(tree, m, mt: ast.Match, subject_val, env) -> Optional[str]:
    from ..symeval import select_case
    case = select_case(tree, m, mt, subject_val, env)
    if case is None:
        return None
    res = [None]

    def walk(stmts):
        for st in stmts:
            if isinstance(st, ast.If):
                try:
                    c = geval(tree, m, st.test, env)
                except Unknown:
                    raise AnalysisError(f"version decision: guard `{src(st.test)}` cannot be evaluated")
                walk(st.body if c else st.orelse)
            elif isinstance(st, ast.Assign) and dotted(st.targets[0]) == "self.tls_version":
                res[0] = str(value_of(tree, m, st.value, {}))
    walk(case.body)
    return res[0]


# ------------------------------------------------------------------------------------------ D1
def rule_D1(tree: Tree) -> RuleResult:
    r = RuleResult("D1", "payload provenance: only decrypt results (possibly sliced) and, under -a, verbatim records reach the TLS output channel; "
                         "the placeholder literal of the builder is unreachable")
    ses = tree.cls("session", "Session")
    m = ses.module
    count = 0
    for f in ses.methods.values():
        cfg = cfg_of(f.node)
        rd = reaching_definitions(cfg)
        for n in body_walk(f.node):
            if isinstance(n, ast.Call) and isinstance(n.func, ast.Attribute) and n.func.attr in ("append", "extend", "insert") and dotted(n.func.value) == "self.application_traffic":
                count += 1
                r.instances += 1
                key = f"session:{f.qualname}:payload#{sum(1 for _ in [1])}"
                a = n.args[-1] if n.args else None
                ok = False
                why = "not a (payload, record, isserver) tuple"
                if isinstance(a, ast.Tuple) and len(a.elts) == 3:
                    p = a.elts[0]
                    nid = cfg.node_of(n)
                    base = p
                    while isinstance(base, ast.Subscript):
                        base = base.value
                    bd = dotted(base)
                    if bd == "record.raw":
                        ok = fact_holds(cfg.facts_at(nid), "self.exp_meta", True)
                        why = "verbatim record outside the metadata switch"
                    elif bd:
                        defs = rd.get(nid, {}).get(bd, set())
                        ok = bool(defs)
                        why = f"`{bd}` has no definition"
                        for d in defs:
                            da = cfg.nodes[d].ast
                            v = da.value if isinstance(da, ast.Assign) else None
                            good = False
                            if v is not None:
                                calls = [c for c in ast.walk(v) if isinstance(c, ast.Call)]
                                if any(dotted(c.func) == "self.decryptor.decrypt" for c in calls):
                                    good = True
                                elif all(isinstance(c.func, ast.Attribute) and c.func.attr in ("rstrip",) for c in calls) and calls and bd in src(v):
                                    good = True  # x = x.rstrip(b"\x00")
                            if not good:
                                ok = False
                                why = f"`{bd}` may hold `{src(v, 60) if v is not None else src(da, 60)}`"
                    second_third = dotted(a.elts[1]) == "record" and dotted(a.elts[2]) == "isserver"
                    ok = ok and second_third
                r.ob(ok, Finding("D1", f"session:{f.qualname}:payload-source:{src(a, 60) if a is not None else ''}",
                                 f"{f.qualname}: `{src(n, 90)}` puts data into the output channel that is neither a result of Decryptor.decrypt nor (under -a) the verbatim "
                                 f"record: {why}", m.line(n)))
    if count < 4:
        raise AnalysisError(f"only {count} writes to the TLS output channel found (floor 4)")
    # builder: Raw(...) arguments derive from the record tuple's first element
    ob = tree.cls("output_builder", "OutputBuilder")
    for fn in ("build_server_packet", "build_client_packet"):
        f = ob.methods.get(fn)
        if f is None:
            raise AnchorMissing(f"OutputBuilder.{fn} not found")
        r.instances += 1
        raws = [c for c in body_walk(f.node) if isinstance(c, ast.Call) and dotted(c.func) == "Raw"]
        ok = bool(raws) and all(src(c.args[0]) == "parts[i]" for c in raws)
        parts_src = [src(c.args[0]) for c in body_walk(f.node) if isinstance(c, ast.Call) and dotted(c.func) == "parts.append"]
        ok = ok and all(s.startswith(f"{f.params[1]}[") for s in parts_src) and bool(parts_src)
        r.ob(ok, Finding("D1", f"output_builder:OutputBuilder.{fn}:raw-source", f"{fn}: every Raw(...) payload must be a slice of the decrypted record handed in; found parts {parts_src}", ob.module.line(f.node)))
    # placeholder literal
    r.instances += 1
    b = ob.methods["build"]
    lits = [n for n in body_walk(b.node) if isinstance(n, ast.Constant) and isinstance(n.value, bytes) and len(n.value) > 0]
    fall = []
    bulks = tables.used_bulk(tree)
    for v in tables.VERSIONS:
        for bk in bulks:
            if tables.dispatch_of(tree, v, bk) is None:
                fall.append(f"{v}/{bk.split('.')[-1]}")
    ok = not lits or not fall
    r.ob(ok, Finding("D1", "output_builder:OutputBuilder.build:placeholder",
                     f"the builder substitutes the literal {[l.value for l in lits]} when a record's payload is None; Decryptor.decrypt returns None for {fall[:6]} — "
                     f"invented bytes would be exported", ob.module.line(b.node)))
    r.notes.append(f"placeholder literals in build(): {[l.value for l in lits]}; (version, bulk) pairs falling through decrypt(): {len(fall)} of {len(tables.VERSIONS) * len(bulks)}")
    # … and it is substituted for a *missing* payload only (`is None`): an empty plaintext (zero-length application record, TLS 1.0 empty-fragment
    # countermeasure) is a payload, a truthiness test would replace it by the literal
    r.instances += 1
    cfgb = cfg_of(b.node)
    bad = []
    for l in lits:
        try:
            nid = cfgb.node_of(l)
        except Exception:
            continue
        facts = [(src(e), t) for e, t in cfgb.facts_at(nid)]
        if not any(s.endswith(" is None") and t for s, t in facts):
            bad.append(f"{l.value!r} under {[(s, t) for s, t in facts][-2:]}")
    r.ob(not bad, Finding("D1", "output_builder:OutputBuilder.build:placeholder-guard",
                          f"the placeholder may only replace a payload that `is None`; found {bad}: a correctly decrypted empty record would be exported as the literal", ob.module.line(b.node)))
    return r

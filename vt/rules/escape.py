"""A1 — exception containment: may-raise sites × try coverage over the resolved call graph (C03, C06, C08)."""
from __future__ import annotations

import ast
from dataclasses import dataclass
from typing import Dict, List, Optional, Set, Tuple

from ..core import Tree, Func, Class, dotted, src, AnalysisError, AnchorMissing, body_walk, ancestors, parent
from ..framework import Finding, RuleResult
from ..norm import try_fold
from ..cfg import cfg_of, handler_catches_all, handler_reraises
from ..callgraph import CallGraph, CallSite
from ..dataflow import definite_assignment, uses_of, defs_of

# callables that cannot raise for the argument types they are given in this code base (one reason each)
TOTAL_BUILTINS = {
    "len": "total on sized objects", "isinstance": "total", "print": "total", "range": "int args", "enumerate": "total", "zip": "total",
    "bool": "total", "list": "copy of an iterable", "dict": "total", "set": "total", "tuple": "total", "str": "total", "repr": "total",
    "bytes": "bytes-like / list of byte values", "bytearray": "bytes-like", "sorted": "elements are comparable ints/bytes", "reversed": "total",
    "iter": "total", "type": "total", "super": "total", "cast": "typing no-op", "hasattr": "total", "id": "total", "callable": "total",
    "int.from_bytes": "total on bytes-like", "float": "numeric literal / int argument", "floor": "finite float", "math.floor": "finite float",
    "math.ceil": "finite float", "object": "total", "setattr": "total on namespace", "copy.deepcopy": "bytearray", "abs": "total",
}
TOTAL_METHODS = {
    "append", "extend", "add", "update", "keys", "values", "items", "get", "clear", "copy", "hex", "lower", "upper", "replace", "split",
    "join", "format", "startswith", "endswith", "strip", "rstrip", "lstrip", "sort", "count", "encode", "__str__", "setLevel", "getLogger",
    "info", "warning", "error", "debug", "catch_warnings", "simplefilter", "setdefault", "discard", "insert", "reverse", "bit_length",
}
TOTAL_PREFIXES = ("logging.", "warnings.", "typing.")

TYPED = {  # site class -> exception names that cover it
    "S2": {"IndexError", "KeyError", "LookupError"},
    "S4": {"UnboundLocalError", "NameError"},
    "S5": {"AttributeError"},
    "S6": {"ZeroDivisionError", "ArithmeticError"},
}


@dataclass(frozen=True)
class Site:
    func_key: str
    cls: str  # S1..S6
    text: str
    line: int


def _in_annotation(n: ast.AST) -> bool:
    child = n
    for a in ancestors(n):
        if isinstance(a, ast.AnnAssign) and a.annotation is child:
            return True
        if isinstance(a, ast.arg):
            return True
        if isinstance(a, ast.FunctionDef) and a.returns is child:
            return True
        child = a
    return False


def _enclosing_tries(n: ast.AST, fn: ast.FunctionDef) -> List[ast.Try]:
    """Try statements of fn whose *body* (not handlers/else/finally) contains n, innermost first."""
    out = []
    child = n
    for a in ancestors(n):
        if a is fn:
            break
        if isinstance(a, ast.Try) and any(child is s for s in a.body):
            out.append(a)
        child = a
    return out


def covered(n: ast.AST, fn: ast.FunctionDef, site_cls: str, raise_name: Optional[str] = None, stop_at: Optional[ast.AST] = None) -> bool:
    """Is node n covered by a handler of an enclosing try of fn (optionally only tries nested inside `stop_at`)?"""
    child = n
    for a in ancestors(n):
        if a is fn or a is stop_at:
            break
        if isinstance(a, ast.Try) and any(child is s for s in a.body):
            for h in a.handlers:
                if handler_reraises(h):
                    continue
                if handler_catches_all(h):
                    return True
                names = set()
                t = h.type
                for e in (t.elts if isinstance(t, ast.Tuple) else [t]):
                    d = dotted(e)
                    if d:
                        names.add(d.split(".")[-1])
                if names & TYPED.get(site_cls, set()):
                    return True
                if raise_name and raise_name in names:
                    return True
        child = a
    return False


class Escape:
    def __init__(self, tree: Tree):
        self.tree = tree
        self.cg = CallGraph.of(tree)
        self.sites: Dict[Func, List[Tuple[Site, ast.AST]]] = {}
        self.definite_init: Dict[str, Set[str]] = {}
        self.class_level: Dict[str, Set[str]] = {}
        for c in tree.all_classes():
            self.definite_init[c.key] = self._definite_init(c)
        for f in tree.all_funcs():
            self.sites[f] = self._collect(f)
        self.esc: Dict[Func, Set[Site]] = {f: set() for f in tree.all_funcs()}
        self.via: Dict[Tuple[Func, Site], Optional[Func]] = {}
        self._fixpoint()

    # ---------------------------------------------------------------- definite attribute initialisation
    def _definite_init(self, c: Class, _stack=()) -> Set[str]:
        out: Set[str] = set()
        for k in reversed(c.mro()):
            for st in k.node.body:
                if isinstance(st, ast.Assign):
                    for t in st.targets:
                        if isinstance(t, ast.Name):
                            out.add(t.id)
                elif isinstance(st, ast.AnnAssign) and isinstance(st.target, ast.Name):
                    out.add(st.target.id)
                elif isinstance(st, ast.FunctionDef):
                    out.add(st.name)
        init = c.find_method("__init__")
        if init is None:
            return out
        out |= self._definite_attrs_of(init, set())
        return out

    def _definite_attrs_of(self, f: Func, stack: Set[str]) -> Set[str]:
        """self.* attributes assigned on every normal path through method f (incl. unconditional self.m() / super().__init__ calls)."""
        if f.key in stack:
            return set()
        cfg = cfg_of(f.node)
        IN = definite_assignment(cfg)
        res = IN.get(cfg.exit)
        got: Set[str] = set()
        if res is not None:
            # definite_assignment includes exceptional edges into handlers; for constructor completion we want normal exit
            got |= {n[5:] for n in res if n.startswith("self.") and n.count(".") == 1}
        # calls that dominate the exit
        for n in cfg.nodes:
            if n.kind != "stmt":
                continue
            for c in ast.walk(n.ast):
                if isinstance(c, ast.Call):
                    cs = self.cg.site(c)
                    if cs and cs.callees and len(cs.callees) == 1:
                        callee = cs.callees[0]
                        is_self_call = isinstance(c.func, ast.Attribute) and (dotted(c.func.value) == "self" or
                                                                            (isinstance(c.func.value, ast.Call) and dotted(c.func.value.func) == "super"))
                        if is_self_call and callee.cls is not None and cfg.dominates(n.id, cfg.exit):
                            got |= self._definite_attrs_of(callee, stack | {f.key})
        return got

    # ---------------------------------------------------------------- site collection
    def _collect(self, f: Func) -> List[Tuple[Site, ast.AST]]:
        out: List[Tuple[Site, ast.AST]] = []
        fn = f.node
        cfg = cfg_of(fn)
        IN = definite_assignment(cfg)
        local_names: Set[str] = set()
        for n in cfg.nodes:
            local_names |= {d for d in defs_of(cfg, n) if "." not in d}
        glob = {x for n in body_walk(fn) if isinstance(n, (ast.Global, ast.Nonlocal)) for x in n.names}
        local_names -= glob

        def add(cls, node, text=None):
            out.append((Site(f.key, cls, text or src(node, 70), getattr(node, "lineno", 0)), node))
        for n in body_walk(fn):
            if _in_annotation(n):
                continue
            if isinstance(n, ast.Raise):
                add("S1", n)
            elif isinstance(n, ast.Subscript) and isinstance(n.ctx, ast.Load) and not isinstance(n.slice, ast.Slice):
                # typing subscripts in casts etc. are not data subscripts
                base = dotted(n.value) or ""
                if base.split(".")[-1] in ("list", "dict", "Type", "type", "tuple", "Optional"):
                    continue
                add("S2", n)
            elif isinstance(n, ast.BinOp) and isinstance(n.op, (ast.Div, ast.FloorDiv, ast.Mod)):
                d = try_fold(n.right)
                if not (isinstance(d, (int, float)) and d != 0):
                    if isinstance(n.left, ast.Constant) and isinstance(n.left.value, str):
                        continue  # string formatting
                    add("S6", n)
            elif isinstance(n, ast.Call):
                cs = self.cg.site(n)
                if cs is None or cs.kind in ("repo", "ambiguous"):
                    continue
                name = cs.external or dotted(n.func) or src(n.func, 40)
                if self._total(n, name):
                    continue
                add("S3", n, f"{name}(…)")
        # S4: possibly-unbound locals
        for node in cfg.nodes:
            if node.id not in IN:
                continue
            for name, at in uses_of(node):
                if "." in name or name not in local_names:
                    continue
                if name in IN[node.id]:
                    continue
                if isinstance(at, ast.Name) and _in_annotation(at):
                    continue
                # `x += 1` style use-before-def inside its own statement counts as well
                add("S4", at, f"local `{name}` may be unbound")
        # S5: self.attr loads not definitely initialised
        if f.cls is not None and f.params and f.params[0] == "self" and f.name != "__init__":
            di = self.definite_init.get(f.cls.key, set())
            for node in cfg.nodes:
                if node.id not in IN:
                    continue
                for name, at in uses_of(node):
                    if not name.startswith("self.") or name.count(".") != 1:
                        continue
                    attr = name[5:]
                    if attr in di or name in IN[node.id]:
                        continue
                    if f.cls.find_method(attr):
                        continue
                    add("S5", at, f"`{name}` is not set by every constructor path")
        return out

    def _total(self, call: ast.Call, name: str) -> bool:
        if name in TOTAL_BUILTINS:
            return True
        if any(name.startswith(p) for p in TOTAL_PREFIXES):
            return True
        last = name.split(".")[-1]
        if isinstance(call.func, ast.Attribute) and last in TOTAL_METHODS:
            return True
        if name.startswith("list.") and last in TOTAL_METHODS:
            return True
        return False

    # ---------------------------------------------------------------- escape sets
    def _fixpoint(self) -> None:
        changed = True
        rounds = 0
        while changed:
            changed = False
            rounds += 1
            if rounds > 60:
                raise AnalysisError("escape analysis did not converge")
            for f in self.tree.all_funcs():
                new: Set[Site] = set()
                for site, node in self.sites[f]:
                    rn = None
                    if site.cls == "S1" and isinstance(node, ast.Raise) and node.exc is not None:
                        rn = (dotted(node.exc.func) if isinstance(node.exc, ast.Call) else dotted(node.exc)) or None
                        rn = rn.split(".")[-1] if rn else None
                    if not covered(node, f.node, site.cls, rn):
                        new.add(site)
                for cs in self.cg.sites.get(f, []):
                    if not cs.callees:
                        continue
                    for callee in cs.callees:
                        for s in self.esc.get(callee, ()):
                            if not covered(cs.node, f.node, s.cls):
                                if s not in new:
                                    new.add(s)
                                self.via.setdefault((f, s), callee)
                if new != self.esc[f]:
                    self.esc[f] = new
                    changed = True

    def escapes_of_stmt(self, f: Func, st: ast.stmt, within: Optional[ast.AST] = None) -> Set[Site]:
        """Sites that can escape from statement `st` of f, not covered by a try located inside `within` (or anywhere in f)."""
        out: Set[Site] = set()
        inside = {id(x) for x in ast.walk(st)}
        for site, node in self.sites[f]:
            if id(node) in inside:
                rn = None
                if not covered(node, f.node, site.cls, rn, stop_at=within):
                    out.add(site)
        for cs in self.cg.sites.get(f, []):
            if id(cs.node) in inside and cs.callees:
                for callee in cs.callees:
                    for s in self.esc.get(callee, ()):
                        if not covered(cs.node, f.node, s.cls, stop_at=within):
                            out.add(s)
                            self.via.setdefault((f, s), callee)
        return out

    def chain(self, f: Func, s: Site) -> List[str]:
        out = [f.key]
        cur = f
        seen = set()
        while cur.key != s.func_key and (cur, s) in self.via and cur.key not in seen:
            seen.add(cur.key)
            cur = self.via[(cur, s)]
            out.append(cur.key)
        out.append(f"{s.cls}: {s.text} (line {s.line})")
        return out


_escape_cache: Dict[int, Escape] = {}


def escape_of(tree: Tree) -> Escape:
    k = id(tree)
    if k not in _escape_cache:
        _escape_cache.clear()
        _escape_cache[k] = Escape(tree)
    return _escape_cache[k]


FAULT = {"S1": "explicit raise", "S2": "index/key lookup on input-derived data (truncated or corrupted payload, partial key material)",
         "S3": "library call that raises on malformed input or wrong key material", "S4": "local that is unbound on some path (partial secrets, unmatched case)",
         "S5": "attribute that does not exist yet (capture starts mid-connection / handshake out of order)", "S6": "division by a data-dependent value"}


def _loops_of_run(tree: Tree):
    run = tree.func("main", "run")
    cap = fin_tls = fin_quic = None
    for n in body_walk(run.node):
        if isinstance(n, ast.For):
            it = dotted(n.iter) or ""
            if it == "pcap_reader":
                cap = n
            elif it == "sessions":
                fin_tls = n
            elif it == "quic_sessions":
                fin_quic = n
    if not (cap and fin_tls and fin_quic):
        raise AnchorMissing("run(): capture loop / finalisation loops not found")
    return run, [("capture-loop", cap), ("tls-finalisation-loop", fin_tls), ("quic-finalisation-loop", fin_quic)]


def rule_A1(tree: Tree) -> RuleResult:
    r = RuleResult("A1", "no exception of the classes S1–S6 can leave an iteration of run()'s capture loop or finalisation loops "
                         "(escape set over the resolved call graph, covered by handlers located inside the loop body)")
    es = escape_of(tree)
    run, loops = _loops_of_run(tree)
    total_sites = sum(len(v) for v in es.sites.values())
    reach = es.cg.reachable([run])
    r.notes.append(f"{total_sites} may-raise sites in {len(es.sites)} functions; {len(reach)} functions reachable from run(); call sites: {es.cg.stats()}")
    r.floor = 3
    for lname, loop in loops:
        r.instances += 1
        escaped: Dict[Tuple[str, str], List[Site]] = {}
        for st in loop.body:
            for s in es.escapes_of_stmt(run, st, within=loop):
                escaped.setdefault((s.func_key, s.cls), []).append(s)
        r.sample({"loop": lname, "statements": len(loop.body), "escaping (function, class) pairs": len(escaped)})
        if not escaped:
            r.ob(True)
        for (fk, cls), ss in sorted(escaped.items()):
            s0 = sorted(ss, key=lambda x: x.line)[0]
            r.ob(False, Finding("A1", f"main:run:{lname}:{fk}:{cls}",
                                f"an exception from {fk} ({cls}: {FAULT[cls]}; e.g. `{s0.text}` line {s0.line}, {len(ss)} site(s)) can leave an iteration of the "
                                f"{lname} of run(): one damaged or keyless flow aborts the whole run", run.module.line(loop),
                                es.chain(run, s0)))
    # process termination: SystemExit passes every `except Exception`; the only place that may end the run is the usage error "key-log file given
    # with -s does not exist" (one frozen instance, before any packet is read). Data-dependent termination (empty key log, odd block, …) aborts the
    # export of every flow.
    r.instances += 1
    EXIT_CALLS = ("exit", "quit", "sys.exit", "os._exit", "os.abort", "os.kill")
    bad = []
    n_ok = 0
    for f in tree.all_funcs():
        if f.module.short in ("log", "about"):
            continue
        cfgf = None
        for c in body_walk(f.node):
            if isinstance(c, ast.Call) and (dotted(c.func) or "") in EXIT_CALLS:
                cfgf = cfgf or cfg_of(f.node)
                facts = [(src(e), t) for e, t in cfgf.facts_at(cfgf.node_of(c))]
                if f.key == "keylog_reader:read_keylog_from_file" and facts == [("os.path.exists(path)", False)]:
                    n_ok += 1
                    continue
                bad.append(f"{f.key}: `{src(c, 30)}` under {[s_ for s_, t in facts][:2]}")
        for n in body_walk(f.node):
            if isinstance(n, ast.Raise) and n.exc is not None and (dotted(n.exc.func if isinstance(n.exc, ast.Call) else n.exc) or "") in ("SystemExit", "KeyboardInterrupt"):
                bad.append(f"{f.key}: `{src(n, 40)}`")
    r.ob(not bad, Finding("A1", "tlexport:process-exit", f"flow code terminates the process: {bad[:3]} — SystemExit is not caught by the per-packet / per-session handlers, "
                                                        f"so what one input makes happen ends the export of all flows", "tlexport/"))
    # the loop iterator itself (reader) is outside the claim; listed for the reader
    return r


def rule_A1_records(tree: Tree) -> RuleResult:
    r = RuleResult("A1r", "a fault while handling one TLS record cannot discard the output accumulated for earlier records: "
                          "every escape of the per-packet body of Session.get_tls_records is covered inside that loop")
    es = escape_of(tree)
    f = tree.func("session", "Session.get_tls_records")
    loops = [n for n in body_walk(f.node) if isinstance(n, ast.For) and any(dotted(x) == "self.packet_buffer" for x in ast.walk(n.iter))]
    if len(loops) != 1:
        raise AnchorMissing("get_tls_records: packet loop not found")
    loop = loops[0]
    r.instances += 1
    escaped: Dict[Tuple[str, str], List[Site]] = {}
    for st in loop.body:
        for s in es.escapes_of_stmt(f, st, within=loop):
            escaped.setdefault((s.func_key, s.cls), []).append(s)
    if not escaped:
        r.ob(True)
    for (fk, cls), ss in sorted(escaped.items()):
        s0 = sorted(ss, key=lambda x: x.line)[0]
        r.ob(False, Finding("A1r", f"session:Session.get_tls_records:{fk}:{cls}",
                            f"an exception from {fk} ({cls}; e.g. `{s0.text}` line {s0.line}) leaves the per-packet body of get_tls_records: the session's builder "
                            f"is never reached and everything already decrypted for this connection is lost — a longer capture then exports less than its prefix",
                            f.module.line(loop), es.chain(f, s0)))
    # per record: a fault in one released record is absorbed inside the record loop — otherwise the remaining records of the batch are skipped
    # and the release list is not cleared (the same records are handled again with the next segment: cipher state advances twice)
    rec_loops = [n for n in body_walk(f.node) if isinstance(n, ast.For) and (dotted(n.iter) or "").endswith("_tls_records")]
    if len(rec_loops) < 2:
        raise AnchorMissing("get_tls_records: the two loops over the released records were not found")
    for rl in rec_loops:
        r.instances += 1
        esc_r: Dict[Tuple[str, str], List[Site]] = {}
        for st in rl.body:
            for s in es.escapes_of_stmt(f, st, within=rl):
                esc_r.setdefault((s.func_key, s.cls), []).append(s)
        if not esc_r:
            r.ob(True)
        for (fk, cls), ss in sorted(esc_r.items())[:6]:
            s0 = sorted(ss, key=lambda x: x.line)[0]
            r.ob(False, Finding("A1r", f"session:Session.get_tls_records:per-record:{dotted(rl.iter)}:{fk}:{cls}",
                                f"an exception from {fk} ({cls}; e.g. `{s0.text}` line {s0.line}) leaves the loop over `{dotted(rl.iter)}`: the records behind it are skipped and "
                                f"the release list is not cleared, so they are handled a second time with the next segment", f.module.line(rl), es.chain(f, s0)))
    # … and nothing outside the loop may raise either (code after the loop runs when all records are already accumulated)
    r.instances += 1
    rest = [s for s in es.esc[f]]
    r.ob(not rest, Finding("A1r", "session:Session.get_tls_records:escape-outside-loop",
                           f"get_tls_records can raise outside its per-packet handler ({sorted({(s.cls, s.text[:50], s.line) for s in rest})[:3]}): the exception aborts Session.decrypt "
                           f"before the builder runs and everything decrypted for this connection is lost", f.module.line(f.node)))
    # the builder call post-dominates the loop in Session.decrypt
    r.instances += 1
    d = tree.func("session", "Session.decrypt")
    cfg = cfg_of(d.node)
    gtr = [n for n in body_walk(d.node) if isinstance(n, ast.Call) and dotted(n.func) == "self.get_tls_records"]
    bld = [n for n in body_walk(d.node) if isinstance(n, ast.Call) and (dotted(n.func) or "").endswith(".build")]
    ok = bool(gtr) and bool(bld) and cfg.postdominates(cfg.node_of(bld[0]), cfg.node_of(gtr[0]))
    r.ob(ok, Finding("A1r", "session:Session.decrypt:build-after-records", "Session.decrypt must build the output from whatever get_tls_records accumulated", d.module.line(d.node)))
    return r


def rule_A1_quic_packets(tree: Tree) -> RuleResult:
    r = RuleResult("A1q", "QUIC: a fault in one packet is contained per packet: decrypt_packet and extract_quic_packet cover their own sites")
    es = escape_of(tree)
    for mod, qn in (("quic.quic_dissector", "extract_quic_packet"),):
        f = tree.func(mod, qn)
        r.instances += 1
        esc = es.esc[f]
        # statements before the try (assignment of inputs) are allowed to contain only total operations
        r.ob(not esc, Finding("A1q", f"{mod}:{qn}:escape", f"{qn} must absorb every parsing fault (returns what it has and clears the datagram); escaping: "
                                                           f"{sorted({(s.cls, s.text) for s in esc})[:4]}", f.module.line(f.node)))
    return r

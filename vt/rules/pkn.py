"""C16 — packet-number reconstruction: RFC 9000 A.3 normal form (E1), integer-exact arithmetic (D9), space map."""
from __future__ import annotations

import ast
from typing import Any, Dict, List, Optional, Tuple

from ..core import Tree, Func, dotted, src, AnalysisError, AnchorMissing, body_walk, clone
from ..framework import Finding, RuleResult
from ..norm import try_fold, strip_stmts, fold, NotConst
from ..symeval import value_of, Unknown, Sym
from ..cfg import cfg_of


# ------------------------------------------------------------------ tiny integer-expression normaliser
class NF:
    """Normal forms as nested tuples. Linear sums are ('sum', const, ((term, coef), ...)) with terms sorted."""


def _sum(const: int, terms: Dict[Any, int]):
    terms = {t: c for t, c in terms.items() if c != 0}
    if not terms:
        return ("c", const)
    items = tuple(sorted(terms.items(), key=lambda kv: repr(kv[0])))
    if const == 0 and len(items) == 1 and items[0][1] == 1:
        return items[0][0]
    return ("sum", const, items)


def _as_sum(n) -> Tuple[int, Dict[Any, int]]:
    if n[0] == "c":
        return n[1], {}
    if n[0] == "sum":
        return n[1], dict(n[2])
    return 0, {n: 1}


def _scale(n, k: int):
    c, t = _as_sum(n)
    return _sum(c * k, {a: b * k for a, b in t.items()})


def _mono(a, b):
    fa = list(a[1:]) if a[0] == "*" else [a]
    fb = list(b[1:]) if b[0] == "*" else [b]
    return ("*",) + tuple(sorted(fa + fb, key=repr))


def nf(e: ast.AST, env: Dict[str, Any]):
    """env maps names / dotted names to already-normalised forms (role symbols or substituted locals)."""
    d = dotted(e)
    if d is not None and d in env:
        return env[d]
    if isinstance(e, ast.Constant) and isinstance(e.value, bool):
        return ("c", int(e.value))
    if isinstance(e, ast.Constant) and isinstance(e.value, int):
        return ("c", e.value)
    if isinstance(e, ast.Constant) and isinstance(e.value, float):
        return ("float", e.value)
    if isinstance(e, ast.UnaryOp):
        v = nf(e.operand, env)
        if isinstance(e.op, ast.USub):
            return _scale(v, -1)
        if isinstance(e.op, ast.Invert):
            if v[0] == "c":
                return ("c", ~v[1])
            return ("~", v)
        if isinstance(e.op, ast.UAdd):
            return v
    if isinstance(e, ast.BinOp):
        a, b = nf(e.left, env), nf(e.right, env)
        op = e.op
        if isinstance(op, (ast.Add, ast.Sub)):
            ca, ta = _as_sum(a)
            cb, tb = _as_sum(b)
            s = 1 if isinstance(op, ast.Add) else -1
            for k, v in tb.items():
                ta[k] = ta.get(k, 0) + s * v
            return _sum(ca + s * cb, ta)
        if isinstance(op, ast.Mult):
            if a[0] == "c":
                return _scale(b, a[1])
            if b[0] == "c":
                return _scale(a, b[1])
            if a[0] == "sum" or b[0] == "sum":
                # distribute: (c + Σ k_i t_i) * u  =  c*u + Σ k_i (t_i * u)
                s_, o_ = (a, b) if a[0] == "sum" else (b, a)
                c0, ts = _as_sum(s_)
                acc_c, acc_t = 0, {}
                parts = [(("c", 1), c0)] + [(t, k) for t, k in ts.items()]
                oc, ot = _as_sum(o_)
                oparts = [(("c", 1), oc)] + [(t, k) for t, k in ot.items()]
                for t1, k1 in parts:
                    for t2, k2 in oparts:
                        k = k1 * k2
                        if k == 0:
                            continue
                        if t1 == ("c", 1) and t2 == ("c", 1):
                            acc_c += k
                        elif t1 == ("c", 1):
                            acc_t[t2] = acc_t.get(t2, 0) + k
                        elif t2 == ("c", 1):
                            acc_t[t1] = acc_t.get(t1, 0) + k
                        else:
                            mon = _mono(t1, t2)
                            acc_t[mon] = acc_t.get(mon, 0) + k
                return _sum(acc_c, acc_t)
            return _mono(a, b)
        if isinstance(op, ast.LShift):
            if b[0] == "c" and a[0] == "c":
                return ("c", a[1] << b[1])
            if b[0] == "c":
                return _scale(a, 1 << b[1])
            if a == ("c", 1):
                return ("pow2", b)
            return ("<<", a, b)
        if isinstance(op, ast.RShift):
            if a[0] == "c" and b[0] == "c":
                return ("c", a[1] >> b[1])
            if a[0] == "pow2" and b[0] == "c":
                ce, te = _as_sum(a[1])
                return ("pow2", _sum(ce - b[1], te))
            return (">>", a, b)
        if isinstance(op, ast.FloorDiv):
            if a[0] == "c" and b[0] == "c" and b[1] != 0:
                return ("c", a[1] // b[1])
            if a[0] == "pow2" and b[0] == "c" and b[1] > 0 and (b[1] & (b[1] - 1)) == 0:
                ce, te = _as_sum(a[1])
                return ("pow2", _sum(ce - (b[1].bit_length() - 1), te))
            return ("//", a, b)
        if isinstance(op, ast.Div):
            return ("truediv", a, b)
        if isinstance(op, ast.BitAnd):
            if a[0] == "c" and b[0] == "c":
                return ("c", a[1] & b[1])
            return ("&",) + tuple(sorted((a, b), key=repr))
        if isinstance(op, ast.BitOr):
            if a[0] == "c" and b[0] == "c":
                return ("c", a[1] | b[1])
            return ("|",) + tuple(sorted((a, b), key=repr))
        if isinstance(op, ast.Pow):
            if a == ("c", 2):
                return ("pow2", b)
            if a[0] == "c" and b[0] == "c" and 0 <= b[1] < 128:
                return ("c", a[1] ** b[1])
            return ("**", a, b)
    if isinstance(e, ast.Call):
        fn = dotted(e.func) or ""
        if fn == "int" and len(e.args) == 1:
            return ("int", nf(e.args[0], env))
        if fn == "len" and len(e.args) == 1:
            dd = dotted(e.args[0])
            return ("len", dd or src(e.args[0], 40))
        if fn == "int.from_bytes" and e.args:
            dd = dotted(e.args[0])
            order = try_fold(e.args[1]) if len(e.args) > 1 else "big"
            return ("from_bytes", dd or src(e.args[0], 40), order)
        if fn in ("max", "min"):
            return (fn,) + tuple(sorted((nf(a, env) for a in e.args), key=repr))
    return ("opaque", src(e, 80))


def nf_cmp(e: ast.AST, env) -> Tuple:
    """Comparison / conjunction normal form: frozenset of (op, lhs, rhs) with op in {'<', '<=', '==', '!='}."""
    if isinstance(e, ast.BoolOp) and isinstance(e.op, ast.And):
        out = set()
        for v in e.values:
            out |= set(nf_cmp(v, env))
        return tuple(sorted(out, key=repr))
    if isinstance(e, ast.Compare):
        out = set()
        left = e.left
        for op, right in zip(e.ops, e.comparators):
            a, b = nf(left, env), nf(right, env)
            if isinstance(op, ast.Lt):
                out.add(("<", a, b))
            elif isinstance(op, ast.LtE):
                out.add(("<=", a, b))
            elif isinstance(op, ast.Gt):
                out.add(("<", b, a))
            elif isinstance(op, ast.GtE):
                out.add(("<=", b, a))
            elif isinstance(op, ast.Eq):
                out.add(("==",) + tuple(sorted((a, b), key=repr)))
            elif isinstance(op, ast.NotEq):
                out.add(("!=",) + tuple(sorted((a, b), key=repr)))
            else:
                out.add(("?", src(e, 60), ""))
            left = right
        return tuple(sorted(out, key=repr))
    return (("truthy", nf(e, env), ""),)


L, T, B = ("s", "largest"), ("s", "truncated"), ("s", "nbytes")


def expected_forms():
    env = {"L": L, "T": T, "B": B}

    def P(s, extra=None):
        ee = dict(env)
        if extra:
            ee.update(extra)
        return nf(ast.parse(s, mode="eval").body, ee)

    def C(s, extra=None):
        ee = dict(env)
        if extra:
            ee.update(extra)
        return nf_cmp(ast.parse(s, mode="eval").body, ee)
    exp = P("L + 1")
    win = P("1 << (B * 8)")
    hwin = P("(1 << (B * 8)) // 2")
    mask = P("(1 << (B * 8)) - 1")
    x = {"expected": exp, "win": win, "hwin": hwin, "mask": mask}
    cand = P("(expected & ~mask) | T", x)
    x["cand"] = cand
    return {
        "cand": cand,
        "c1": C("cand <= expected - hwin and cand < (1 << 62) - win", x),
        "v1": P("cand + win", x),
        "c2": C("cand > expected + hwin and cand >= win", x),
        "v2": P("cand - win", x),
        "v3": cand,
    }


def _fmt(n, depth=0) -> str:
    if depth > 6:
        return "…"
    if n[0] == "c":
        return hex(n[1]) if abs(n[1]) > 9 else str(n[1])
    if n[0] == "s":
        return n[1]
    if n[0] == "sum":
        parts = [f"{'' if c == 1 else '-' if c == -1 else str(c) + '*'}{_fmt(t, depth + 1)}" for t, c in n[2]]
        if n[1]:
            parts.append(_fmt(("c", n[1])))
        return "(" + " + ".join(parts) + ")"
    if n[0] == "pow2":
        return f"2^{_fmt(n[1], depth + 1)}"
    if n[0] in ("&", "|", "*"):
        return "(" + f" {n[0]} ".join(_fmt(x, depth + 1) for x in n[1:]) + ")"
    if n[0] == "~":
        return "~" + _fmt(n[1], depth + 1)
    if n[0] in ("truediv", "//", "<<", ">>", "**"):
        sym = "/" if n[0] == "truediv" else n[0]
        return f"({_fmt(n[1], depth + 1)} {sym} {_fmt(n[2], depth + 1)})"
    return str(n)[:80]


def _fmt_c(c) -> str:
    return " and ".join(f"{_fmt(a)} {op} {_fmt(b)}" if op not in ("truthy", "?") else str(a) for op, a, b in c)


def rule_E1(tree: Tree) -> RuleResult:
    r = RuleResult("E1", "QuicSession.get_full_packet_number has the normal form of RFC 9000 A.3 (decision tree over largest, truncated, nbits)")
    f = tree.func("quic.quic_session", "QuicSession.get_full_packet_number")
    m = f.module
    key = "quic.quic_session:QuicSession.get_full_packet_number"
    body = strip_stmts(f.node.body)
    pkt = f.params[1] if len(f.params) > 1 else "quic_packet"
    env: Dict[str, Any] = {}
    # role symbols
    largest_var = None
    for st in body:
        if isinstance(st, ast.If):
            tgts = set()
            for arm in (st.body, st.orelse):
                for s in arm:
                    if isinstance(s, ast.Assign) and isinstance(s.value, ast.Subscript) and "packet_number_" in (dotted(s.value.value) or ""):
                        tgts.add(dotted(s.targets[0]))
            if len(tgts) == 1:
                largest_var = tgts.pop()
                break
    if largest_var is None:
        raise AnchorMissing("get_full_packet_number: read of the per-direction largest packet number not found")
    env[largest_var] = L
    # straight-line forward substitution over the top-level statements
    decision = None
    result_var = None
    early = None
    for st in body:
        if isinstance(st, ast.Assign) and len(st.targets) == 1 and isinstance(st.targets[0], ast.Name):
            v = nf(st.value, env)
            if v[0] == "from_bytes" and v[1].endswith("packet_num"):
                v = T
            elif v[0] == "len" and v[1].endswith("packet_num"):
                v = B
            env[st.targets[0].id] = v
        elif isinstance(st, ast.If):
            arms = _assign_arms(st)
            if arms is not None and len(arms) >= 2 and decision is None and (len(arms) == 3 or any("pkn" in src(c, 200) or "window" in src(c, 200) for c, _, _ in arms if c is not None)):
                decision = (st, arms)
            elif early is None and any(isinstance(x, ast.Return) for x in ast.walk(st)) and decision is None and st is not body[0]:
                early = st
    # substitute roles nested inside expressions (len(...) * 8 etc.) handled by nf via env of locals
    if decision is None:
        raise AnalysisError("get_full_packet_number: the three-way window decision (if / elif / else assigning one result) was not found")
    st, arms = decision
    if len(arms) != 3:
        r.instances += 1
        extra = [src(c, 70) for c, _, _ in arms if c is not None]
        r.ob(False, Finding("E1", f"{key}:arms", f"the window decision has {len(arms)} arms ({extra}); RFC 9000 A.3 has exactly three: candidate + window if it lies below the window around "
                                                 f"largest+1, candidate − window if above, candidate otherwise — an additional case changes the result for the inputs it captures", m.line(st)))
        return r
    want = expected_forms()
    # map opaque role expressions appearing un-named
    r.instances += 1
    (c1, v1var, v1), (c2, v2var, v2), (c3, v3var, v3) = arms
    result_var = v1var
    g = {"c1": nf_cmp(c1, env), "v1": nf(v1, env), "c2": nf_cmp(c2, env), "v2": nf(v2, env), "v3": nf(v3, env)}
    names = {"c1": "first condition (candidate below the window)", "v1": "first result", "c2": "second condition (candidate above the window)",
             "v2": "second result", "v3": "default result"}
    for k in ("c1", "v1", "c2", "v2", "v3"):
        ok = g[k] == want[k]
        fmt = _fmt_c if k.startswith("c") else _fmt
        r.ob(ok, Finding("E1", f"{key}:{k}", f"{names[k]} is `{fmt(g[k])}`, RFC 9000 A.3 has `{fmt(want[k])}` "
                                             f"(L=largest, T=truncated, B=encoded length in bytes)", m.line(st)))
    r.sample({"c1": _fmt_c(g["c1"]), "c2": _fmt_c(g["c2"]), "default": _fmt(g["v3"])})
    # result is returned as an 8-byte big-endian number
    r.instances += 1
    rets = [n for n in body if isinstance(n, ast.Return)]
    ok = False
    for rt in rets:
        v = rt.value
        if isinstance(v, ast.Call) and (dotted(v.func) or "").endswith("to_bytes"):
            args = [try_fold(a) for a in v.args]
            base = v.args[0] if dotted(v.func) == "int.to_bytes" else v.func.value
            width = args[1] if dotted(v.func) == "int.to_bytes" else args[0]
            ok = dotted(base) == result_var and isinstance(width, int) and 8 <= width <= 12 and "big" in [a for a in args if isinstance(a, str)] + [try_fold(k.value) for k in v.keywords]
    r.ob(ok, Finding("E1", f"{key}:result-encoding", "the reconstructed number must be returned big-endian, at least 8 bytes wide (62-bit numbers)", m.line(f.node)))
    # largest update (RFC 9000 A.3: "largest_pn is the largest packet number of a packet that has been successfully processed"): the reconstruction itself
    # writes nothing; decrypt_packet raises the table through set_largest_packet_number, after the AEAD call succeeded, max-like, in the direction's own table
    r.instances += 1
    writes_here = [x for x in ast.walk(f.node) if isinstance(x, (ast.Assign, ast.AugAssign)) and any(
        isinstance(t, ast.Subscript) and "packet_number_" in (dotted(t.value) or "") for t in (x.targets if isinstance(x, ast.Assign) else [x.target]))]
    dp = tree.func("quic.quic_session", "QuicSession.decrypt_packet")
    cfgd = cfg_of(dp.node)
    aead = [c for c in body_walk(dp.node) if isinstance(c, ast.Call) and dotted(c.func) == "decryptor.decrypt"]
    upd = [c for c in body_walk(dp.node) if isinstance(c, ast.Call) and dotted(c.func) == "self.set_largest_packet_number"]
    upd_ok = not writes_here and len(aead) == 1 and len(upd) == 1
    detail = f"{len(writes_here)} table writes inside the reconstruction, {len(upd)} update call(s) in decrypt_packet"
    if upd_ok:
        a_n, u_n = cfgd.node_of(aead[0]), cfgd.node_of(upd[0])
        # … directly: nothing that can fail (frame parsing, frame handling) may stand between authentication and the update, or an authenticated packet
        # whose frames raise would not count as processed
        succ = [x for x in cfgd.successors(a_n, False)]
        upd_ok = cfgd.dominates(a_n, u_n) and a_n != u_n and succ == [u_n] and [src(a) for a in upd[0].args] == ["quic_packet", "int.from_bytes(packet_number, 'big')"]
        detail = "the update must be the statement right after the AEAD call and carry the reconstructed number"
    if upd_ok:
        sl = tree.cls("quic.quic_session", "QuicSession").methods.get("set_largest_packet_number")
        upd_ok = sl is not None
        if upd_ok:
            pn_param = sl.params[2]
            cfgs = cfg_of(sl.node)
            arms = {}
            for n2 in cfgs.nodes:
                if n2.kind == "stmt" and isinstance(n2.ast, ast.Assign) and isinstance(n2.ast.targets[0], ast.Subscript):
                    tbl = dotted(n2.ast.targets[0].value) or ""
                    facts = [(src(e), t) for e, t in cfgs.facts_at(n2.id)]
                    d = "server" if tbl.endswith("_server") else "client" if tbl.endswith("_client") else "?"
                    want_dir = any(s2 == "quic_packet.isserver" and t is (d == "server") for s2, t in facts)
                    want_max = any(s2 == f"{pn_param} > {tbl}[PACKET_TYPE_MAP[quic_packet.packet_type]]" and t for s2, t in facts)
                    arms[d] = want_dir and want_max and src(n2.ast.value) == pn_param and src(n2.ast.targets[0].slice) == "PACKET_TYPE_MAP[quic_packet.packet_type]"
            upd_ok = arms == {"server": True, "client": True}
            detail = f"set_largest_packet_number arms: {arms}"
    r.ob(upd_ok, Finding("E1", f"{key}:largest-update", "the largest-seen number of a space may be raised only by a packet that was authenticated, to the reconstructed number, only when "
                                                         f"that is larger (max-like), in the direction's own table — {detail}", m.line(f.node)))
    # early special case: must be subsumed by A.3: condition includes largest == 0, returns the raw truncated field, updates largest := truncated
    r.instances += 1
    sub_ok = True
    detail = "no early special case"
    if early is not None:
        c = nf_cmp(early.test, env)
        has_zero = ("==",) + tuple(sorted((L, ("c", 0)), key=repr)) in c
        rets_e = [x for x in ast.walk(early) if isinstance(x, ast.Return)]
        raw = all((dotted(x.value) or "").endswith("packet_num") for x in rets_e)
        writes = [x for x in ast.walk(early) if isinstance(x, ast.Assign) and isinstance(x.targets[0], ast.Subscript)]
        wr_ok = all(nf(w.value, env) == T for w in writes)
        sub_ok = has_zero and raw and wr_ok
        detail = f"early return under `{_fmt_c(c)}`"
    r.ob(sub_ok, Finding("E1", f"{key}:special-case", f"the shortcut taken before the window computation must be subsumed by A.3 "
                                                       f"(largest == 0 ⇒ A.3 yields the truncated value): {detail}", m.line(f.node)))
    return r


def _assign_arms(st: ast.If):
    """if c1: v = e1 elif c2: v = e2 else: v = e3  -> [(c1, v, e1), (c2, v, e2), (None, v, e3)] (single-statement arms)."""
    out = []
    n = st
    while True:
        b = strip_stmts(n.body)
        if len(b) != 1 or not isinstance(b[0], ast.Assign) or not isinstance(b[0].targets[0], ast.Name):
            return None
        out.append((n.test, b[0].targets[0].id, b[0].value))
        if len(n.orelse) == 1 and isinstance(n.orelse[0], ast.If):
            n = n.orelse[0]
            continue
        e = strip_stmts(n.orelse)
        if len(e) != 1 or not isinstance(e[0], ast.Assign) or not isinstance(e[0].targets[0], ast.Name):
            return None
        out.append((None, e[0].targets[0].id, e[0].value))
        break
    if len({v for _, v, _ in out}) != 1:
        return None
    return out


def rule_D9_pkn(tree: Tree) -> RuleResult:
    r = RuleResult("D9", "packet-number arithmetic is integer-exact: no true division, no float constant")
    f = tree.func("quic.quic_session", "QuicSession.get_full_packet_number")
    m = f.module
    r.instances += 1
    bad = []
    for n in body_walk(f.node):
        if isinstance(n, ast.BinOp) and isinstance(n.op, ast.Div):
            bad.append((n, "true division"))
        elif isinstance(n, ast.AugAssign) and isinstance(n.op, ast.Div):
            bad.append((n, "true division"))
        elif isinstance(n, ast.Constant) and isinstance(n.value, float):
            bad.append((n, "float constant"))
        elif isinstance(n, ast.Call) and dotted(n.func) in ("float", "math.floor", "math.ceil", "round", "math.pow"):
            bad.append((n, "float function"))
    for n, what in bad:
        r.ob(False, Finding("D9", f"quic.quic_session:QuicSession.get_full_packet_number:{what.replace(' ', '-')}",
                            f"`{src(n, 60)}`: {what} makes the window comparisons floating-point; for largest ≥ 2^53 the result differs from RFC 9000 A.3",
                            m.line(n)))
    if not bad:
        r.ob(True)
    return r


def rule_pn_spaces(tree: Tree) -> RuleResult:
    r = RuleResult("PNS", "packet-number spaces: Initial, Handshake distinct; 0-RTT and 1-RTT share one space; per-direction tables keyed by the map's values")
    m = tree.module("quic.quic_session")
    d = m.assigns.get("PACKET_TYPE_MAP")
    if not isinstance(d, ast.Dict):
        raise AnchorMissing("PACKET_TYPE_MAP not found")
    mp = {}
    for k, v in zip(d.keys, d.values):
        try:
            mp[str(value_of(tree, m, k, {})).split(".")[-1]] = value_of(tree, m, v, {})
        except Unknown:
            raise AnalysisError("PACKET_TYPE_MAP has non-literal entries")
    r.instances += 1
    need = {"INITIAL", "HANDSHAKE", "RTT_O", "RTT_1"}
    ok = need <= set(mp) and mp["RTT_O"] == mp["RTT_1"] and len({mp["INITIAL"], mp["HANDSHAKE"], mp["RTT_1"]}) == 3
    r.ob(ok, Finding("PNS", "quic.quic_session:PACKET_TYPE_MAP:spaces",
                     f"RFC 9000 §12.3: Initial and Handshake have their own spaces, 0-RTT and 1-RTT share the application space; map is "
                     f"{ {k: str(v) for k, v in mp.items()} }", m.relpath))
    # set_packet_number_spaces initialises both tables with exactly the map's value set, each to 0
    r.instances += 1
    f = tree.func("quic.quic_session", "QuicSession.set_packet_number_spaces")
    vals = {repr(v) for v in mp.values()}
    ok2 = True
    found = 0
    for st in f.node.body:
        if isinstance(st, ast.Assign) and (dotted(st.targets[0]) or "").startswith("self.packet_number_") and isinstance(st.value, ast.Dict):
            found += 1
            keys = set()
            for k, v in zip(st.value.keys, st.value.values):
                try:
                    keys.add(repr(value_of(tree, m, k, {})))
                except Unknown:
                    ok2 = False
                if try_fold(v) != 0:
                    ok2 = False
            if keys != vals:
                ok2 = False
    r.ob(ok2 and found == 2, Finding("PNS", "quic.quic_session:QuicSession.set_packet_number_spaces:init",
                                     "both per-direction largest-number tables must be initialised to 0 for exactly the spaces of PACKET_TYPE_MAP", m.line(f.node)))
    # largest-received state lives as long as the connection: set_packet_number_spaces is called from the constructor only (a Retry or a
    # key change must not reset it, RFC 9000 §17.2.5.3 / §12.3); nothing else rebinds the tables
    r.instances += 1
    from ..callgraph import CallGraph
    cg = CallGraph.of(tree)
    callers = sorted({cs.caller.qualname for cs in cg.callers_of(f)})
    writers = []
    qs = tree.cls("quic.quic_session", "QuicSession")
    for meth in qs.methods.values():
        for n in body_walk(meth.node):
            if isinstance(n, ast.Assign) and (dotted(n.targets[0]) or "").startswith("self.packet_number_") and meth.name not in ("set_packet_number_spaces", "__init__", "reset"):
                writers.append(meth.qualname)
            if isinstance(n, ast.Call) and isinstance(n.func, ast.Attribute) and n.func.attr in ("clear", "update", "pop") and "packet_number_" in (dotted(n.func.value) or ""):
                writers.append(meth.qualname)
    r.ob(set(callers) <= {"QuicSession.__init__", "QuicSession.reset"} and not writers,
         Finding("PNS", "quic.quic_session:QuicSession.set_packet_number_spaces:callers",
                 f"the largest-packet-number tables may only be initialised when the session is created; set_packet_number_spaces is called from {callers}, tables rebound in {writers}: "
                 f"resetting them mid-connection (e.g. at a Retry) makes the next truncated number decode against largest = 0", m.line(f.node)))
    # read and write use the same key expression and the direction's own table
    r.instances += 1
    g = tree.func("quic.quic_session", "QuicSession.get_full_packet_number")
    keys = set()
    role_ok = True
    for n in body_walk(g.node):
        if isinstance(n, ast.Subscript) and "packet_number_" in (dotted(n.value) or ""):
            keys.add(src(n.slice))
    for n in body_walk(g.node):
        if isinstance(n, ast.If) and (dotted(n.test) or "").endswith("isserver"):
            for arm, role in ((n.body, "server"), (n.orelse, "client")):
                for x in arm:
                    for y in ast.walk(x):
                        if isinstance(y, ast.Subscript) and "packet_number_" in (dotted(y.value) or ""):
                            if not (dotted(y.value) or "").endswith(role):
                                role_ok = False
    r.ob(len(keys) == 1 and "PACKET_TYPE_MAP" in next(iter(keys), "") and role_ok,
         Finding("PNS", "quic.quic_session:QuicSession.get_full_packet_number:space-key",
                 f"largest-number tables must be read and written with the one key PACKET_TYPE_MAP[packet type], server packets using the server table; keys {sorted(keys)}",
                 g.module.line(g.node)))
    return r

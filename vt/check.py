"""CLI: python3 -m vt.check <Cnn> --tier quick|thorough   |   --explain <report.json>   |   --all

Exit codes: 0 held (KNOWN-FINDING lines for listed findings), 1 VIOLATION, 2 ANALYSIS-ERROR.
"""
from __future__ import annotations

import argparse
import json
import os
import sys
import time
import traceback

from .core import Tree, AnalysisError
from .framework import (Finding, RuleResult, load_known, is_known, write_evidence, write_report, VERIF)


def run_property(prop: str, tier: str, quiet: bool = False, write: bool = True, tree: Tree = None, controls: bool = True):
    from .props import PROPS
    if prop not in PROPS:
        raise AnalysisError(f"unknown property {prop}")
    spec = PROPS[prop]
    t0 = time.time()
    tree = tree or Tree()
    counts = tree.counts()
    floors = {"modules": 27, "classes": 45, "functions": 150}
    for k, v in floors.items():
        if counts[k] < v:
            raise AnalysisError(f"only {counts[k]} {k} parsed under {tree.pkgdir} (floor {v}): the build is not covered")
    results = []
    rule_errors = []
    for rule in spec["rules"](tier):
        # a rule that cannot run (vanished anchor, unrecognised shape, internal error) must not hide what the other rules find:
        # its failure is fatal (exit 2) only if no rule reports a violation
        try:
            res = rule(tree)
            if res.floor and res.instances < res.floor:
                raise AnalysisError(f"rule {res.rule}: {res.instances} anchor instances found, hand-confirmed floor is {res.floor}")
            results.append(res)
        except AnalysisError as e:
            rule_errors.append(f"{getattr(rule, '__name__', getattr(getattr(rule, 'func', None), '__name__', 'rule'))}: {e}")
        except Exception as e:
            rule_errors.append(f"{getattr(rule, '__name__', getattr(getattr(rule, 'func', None), '__name__', 'rule'))}: internal {type(e).__name__}: {e}")
    # positive controls
    known = load_known()
    violations = []
    known_hits = []
    seen = set()
    for res in results:
        for f in res.findings:
            if f.key() in seen:
                continue
            seen.add(f.key())
            k = is_known(known, prop, f)
            if k is not None:
                known_hits.append((f, k))
            else:
                violations.append(f)
    ctrl = {}
    if controls:
        from .controls import run_controls
        ctrl, ctrl_failures = run_controls(spec.get("controls", []))
        if ctrl_failures and not violations:
            raise AnalysisError("; ".join(ctrl_failures))
    if rule_errors and not violations:
        raise AnalysisError("; ".join(rule_errors))
    if rule_errors and not quiet:
        for e in rule_errors:
            print(f"[vt] note: rule could not run on this tree ({e}); verdict taken from the remaining rules")
    wall = time.time() - t0
    info = dict(counts)
    info["files"] = tree.digests()
    info["positive_controls"] = ctrl
    if tier == "thorough" and controls:
        from .selftest import run_selftest
        st = run_selftest(prop)
        info["selftest"] = st
        from .sweep import run_sweep, run_probes
        info["preserve_sweep"] = run_sweep(prop)
        info["mutation_probes"] = run_probes(prop)
        wall = time.time() - t0
    if write:
        write_evidence(prop, tier, spec["level"](results, violations, known_hits), results, len(violations), len(known_hits), wall,
                       info, spec["explanation"], spec["assumptions"], spec["trusted_base"])
    if not quiet:
        print(f"[vt] property {prop} tier={tier}: {len(results)} rules, "
              f"{sum(r.instances for r in results)} instances, {sum(r.obligations for r in results)} obligations, "
              f"{sum(r.discharged for r in results)} discharged, {len(violations)} violations, "
              f"{len(known_hits)} known findings, {wall:.2f}s")
        for res in results:
            print(f"[vt]   {res.rule:8s} inst={res.instances:4d} obl={res.obligations:4d} ok={res.discharged:4d}  {res.title}")
        for f, k in known_hits:
            print(f"KNOWN-FINDING: property={prop} {f.rule} {f.construct}: {k.get('what', f.message)}")
    code = 0
    for i, f in enumerate(violations):
        path = write_report(prop, i, f, tier) if write else "-"
        if not quiet:
            print(f"[vt] {f.rule} {f.construct} @ {f.where}: {f.message}")
            for w in f.witness:
                print(f"[vt]     {w}")
        if not quiet:
            print(f"VIOLATION property={prop} replay={path}")
        code = 1
    return code, results, violations, known_hits


def explain(path: str) -> int:
    with open(path) as fh:
        rep = json.load(fh)
    prop = rep["property"]
    code, results, violations, known_hits = run_property(prop, rep.get("tier", "quick"), quiet=True, write=False)
    hit = [f for f in violations if f.rule == rep["rule"] and f.construct == rep["construct"]]
    print(f"replay of {path}: property={prop} rule={rep['rule']} construct={rep['construct']}")
    if hit:
        f = hit[0]
        print(f"  still reported on the current tree @ {f.where}: {f.message}")
        for w in f.witness:
            print(f"    {w}")
        print(f"VIOLATION property={prop} replay={path}")
        return 1
    print("  not reported on the current tree")
    return 0


def main(argv=None) -> int:
    ap = argparse.ArgumentParser()
    ap.add_argument("prop", nargs="?")
    ap.add_argument("--tier", default=os.environ.get("VERIF_TIER", "quick"), choices=["quick", "thorough"])
    ap.add_argument("--explain")
    ap.add_argument("--all", action="store_true")
    ap.add_argument("--no-write", action="store_true", help="do not write evidence / report files (used by hand tools that run many analyses in parallel)")
    ap.add_argument("--no-controls", action="store_true", help="hand tools: skip the positive controls (regression over seeded changes)")
    ap.add_argument("--selfcheck", action="store_true", help="setup: parse /repo, run every positive control")
    a = ap.parse_args(argv)
    try:
        if a.explain:
            return explain(a.explain)
        if a.selfcheck:
            from .props import PROPS
            from .controls import run_controls
            tree = Tree()
            n = 0
            for p in sorted(PROPS):
                res, fails = run_controls(PROPS[p].get("controls", []))
                if fails:
                    raise AnalysisError("; ".join(fails))
                n += len(res)
            print(f"[vt] setup ok: {tree.counts()} ; {n} positive controls reported their broken instance")
            return 0
        if a.all:
            from .props import PROPS
            rc = 0
            tree = Tree()
            for p in sorted(PROPS):
                try:
                    c, *_ = run_property(p, a.tier, tree=tree, write=not a.no_write)
                except AnalysisError as e:
                    print(f"ANALYSIS-ERROR property={p} {e}")
                    c = 2
                rc = max(rc, c)
            return rc
        if not a.prop:
            ap.error("property id required")
        return run_property(a.prop, a.tier, write=not a.no_write, controls=not a.no_controls)[0]
    except AnalysisError as e:
        print(f"ANALYSIS-ERROR {e}")
        return 2
    except Exception as e:  # a crash of the analysis is never a violation
        traceback.print_exc()
        print(f"ANALYSIS-ERROR internal: {type(e).__name__}: {e}")
        return 2


if __name__ == "__main__":
    sys.exit(main())

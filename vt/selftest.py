"""M10 — self-test of the checkers: AST-computed single-edit variants of the *current* tree, analysed in memory.

break variants   : one rule instance broken, still compiling  -> the check must report it, naming the construct
preserve variants: behaviour-keeping edits                     -> the check must stay silent

Variants are computed from the current source (never stored text patches), so they follow refactors.
A self-test failure is an ANALYSIS-ERROR (exit 2), never a VIOLATION.
"""
from __future__ import annotations

import ast
import copy
import os
from dataclasses import dataclass, field
from typing import Callable, Dict, List, Optional

from .core import Tree, AnalysisError, REPO, dotted


@dataclass
class Variant:
    id: str
    kind: str  # 'break' | 'preserve'
    props: List[str]
    relpath: str
    mutate: Callable[[ast.Module], bool]
    rule: str = ""
    expect: str = ""  # substring of construct or message of the expected finding
    desc: str = ""


VARIANTS: Dict[str, Variant] = {}


def variant(id, kind, props, relpath, rule="", expect="", desc=""):
    def deco(fn):
        VARIANTS[id] = Variant(id, kind, props, relpath, fn, rule, expect, desc or fn.__doc__ or "")
        return fn
    return deco


# ------------------------------------------------------------------ AST edit helpers
def get_func(mod: ast.Module, qualname: str) -> Optional[ast.FunctionDef]:
    parts = qualname.split(".")
    body = mod.body
    node = None
    for i, p in enumerate(parts):
        found = None
        for st in _flat(body):
            if isinstance(st, (ast.FunctionDef, ast.ClassDef)) and st.name == p:
                found = st
                break
        if found is None:
            return None
        node = found
        body = found.body
    return node if isinstance(node, ast.FunctionDef) else None


def _flat(body):
    for st in body:
        yield st
        if isinstance(st, (ast.With, ast.Try, ast.If)):
            yield from _flat(st.body)


def edit_first(root: ast.AST, pred: Callable[[ast.AST], bool], edit: Callable[[ast.AST], Optional[ast.AST]], nth: int = 1) -> bool:
    """Find the nth node (pre-order) satisfying pred; replace it by edit(node) (None = delete statement)."""
    count = [0]
    done = [False]

    class T(ast.NodeTransformer):
        def generic_visit(self, node):
            for fld, old in ast.iter_fields(node):
                if isinstance(old, list):
                    new = []
                    for it in old:
                        if isinstance(it, ast.AST):
                            if not done[0] and pred(it):
                                count[0] += 1
                                if count[0] == nth:
                                    done[0] = True
                                    res = edit(it)
                                    if res is None:
                                        continue
                                    if isinstance(res, list):
                                        new.extend(res)
                                    else:
                                        new.append(res)
                                    continue
                            it = self.visit(it)
                            if it is None:
                                continue
                        new.append(it)
                    if fld in ("body",) and not new and isinstance(node, (ast.If, ast.For, ast.While, ast.With, ast.FunctionDef, ast.ExceptHandler, ast.Try)):
                        new = [ast.Pass()]
                    old[:] = new
                elif isinstance(old, ast.AST):
                    if not done[0] and pred(old):
                        count[0] += 1
                        if count[0] == nth:
                            done[0] = True
                            res = edit(old)
                            if res is not None:
                                setattr(node, fld, res)
                            continue
                    self.visit(old)
            return node

        def visit(self, node):
            return self.generic_visit(node)
    T().visit(root)
    return done[0]


def is_aug(target: str, op=ast.Add):
    return lambda n: isinstance(n, ast.AugAssign) and dotted(n.target) == target and isinstance(n.op, op)


def is_assign_to(target: str):
    return lambda n: isinstance(n, ast.Assign) and len(n.targets) == 1 and dotted(n.targets[0]) == target


def parse_stmt(s: str) -> ast.stmt:
    return ast.parse(s).body[0]


def parse_expr(s: str) -> ast.expr:
    return ast.parse(s, mode="eval").body


def rename_local(fn: ast.FunctionDef, old: str, new: str) -> bool:
    hit = False
    for n in ast.walk(fn):
        if isinstance(n, ast.Name) and n.id == old:
            n.id = new
            hit = True
        elif isinstance(n, ast.arg) and n.arg == old:
            n.arg = new
            hit = True
    return hit


def swap_if_else(node: ast.If) -> ast.If:
    """if c: A else: B  ->  if not c: B else: A"""
    t = node.test
    if isinstance(t, ast.UnaryOp) and isinstance(t.op, ast.Not):
        nt = t.operand
    else:
        nt = ast.UnaryOp(op=ast.Not(), operand=t)
    return ast.If(test=nt, body=node.orelse, orelse=node.body)


# ------------------------------------------------------------------ running
_baseline: Dict[str, set] = {}


def _finding_keys(prop: str, tree: Tree):
    from .check import run_property
    code, results, violations, known = run_property(prop, "quick", quiet=True, write=False, tree=tree, controls=False)
    return {(f.rule, f.construct): f for f in violations + [k[0] for k in known]}


def baseline(prop: str):
    if prop not in _baseline:
        _baseline[prop] = set(_finding_keys(prop, Tree()).keys())
    return _baseline[prop]


def build_variant_tree(v: Variant):
    path = os.path.join(REPO, v.relpath)
    with open(path) as fh:
        srctext = fh.read()
    mod = ast.parse(srctext)
    try:
        applied = bool(v.mutate(mod))
    except (StopIteration, IndexError, AttributeError, KeyError, ValueError, TypeError):
        applied = False  # the construct the edit looks for is not there (any more)
    if not applied:
        return None, False
    ast.fix_missing_locations(mod)
    new_src = ast.unparse(mod)
    try:
        compile(new_src, v.relpath, "exec")
    except SyntaxError as e:
        raise AnalysisError(f"variant {v.id} does not compile: {e}")
    return Tree(overrides={v.relpath: new_src}), True


def run_variant(v: Variant, props: Optional[List[str]] = None, presence: bool = False) -> dict:
    """presence=True: the expected finding only has to be present on the variant (used by positive controls);
    otherwise it has to be new relative to the current tree."""
    tree, applied = build_variant_tree(v)
    if not applied:
        return {"id": v.id, "kind": v.kind, "applied": False, "detected": False, "new": []}
    new = []
    detected = False
    for p in (props or v.props):
        try:
            fk = _finding_keys(p, tree)
        except AnalysisError as e:
            new.append((p, "ANALYSIS-ERROR", str(e)))
            continue
        base = set() if presence else baseline(p)
        for k, f in fk.items():
            if k not in base:
                new.append((p, k[0], k[1]))
                if (not v.rule or k[0] == v.rule) and (not v.expect or v.expect in k[1] or v.expect in f.message):
                    detected = True
    return {"id": v.id, "kind": v.kind, "applied": True, "detected": detected, "new": new}


def _worker(args):
    vid, props = args
    from . import variants  # noqa: F401  (registers VARIANTS)
    try:
        return run_variant(VARIANTS[vid], props)
    except AnalysisError as e:
        return {"id": vid, "kind": VARIANTS[vid].kind, "applied": True, "detected": False, "new": [("-", "ANALYSIS-ERROR", str(e))]}


def run_selftest(prop: Optional[str] = None, jobs: int = 0) -> dict:
    """Run all variants that target `prop` (or all). Raises AnalysisError on any failure."""
    from . import variants  # noqa: F401
    import multiprocessing as mp
    todo = [(v.id, None) for v in VARIANTS.values() if prop is None or prop in v.props]
    jobs = jobs or min(16, os.cpu_count() or 1, max(1, len(todo)))
    if len(todo) <= 2 or jobs == 1:
        res = [_worker(t) for t in todo]
    else:
        with mp.Pool(jobs) as pool:
            res = pool.map(_worker, todo)
    failures = []
    summary = {"break": 0, "preserve": 0, "break_detected": 0, "preserve_silent": 0, "not_applied": 0, "cases": []}
    for r in res:
        v = VARIANTS[r["id"]]
        if not r["applied"]:
            summary["not_applied"] += 1
            failures.append(f"{v.id}: edit site not found")
            continue
        summary[v.kind] += 1
        if v.kind == "break":
            if r["detected"]:
                summary["break_detected"] += 1
            else:
                failures.append(f"{v.id}: break variant not reported by {v.rule} (new findings: {r['new'][:3]})")
        else:
            relevant = [n for n in r["new"]]
            if not relevant:
                summary["preserve_silent"] += 1
            else:
                failures.append(f"{v.id}: preserve variant raised {relevant[:3]}")
        summary["cases"].append({"id": v.id, "kind": v.kind, "new_findings": [list(x)[:3] for x in r["new"][:3]]})
    summary["cases"] = summary["cases"][:40]
    if failures:
        raise AnalysisError("self-test failed: " + " | ".join(failures[:10]))
    return summary


def main():
    import sys
    import json
    from . import variants  # noqa: F401
    prop = sys.argv[1] if len(sys.argv) > 1 else None
    try:
        s = run_selftest(prop)
    except AnalysisError as e:
        print(f"ANALYSIS-ERROR {e}")
        sys.exit(2)
    s.pop("cases", None)
    print(json.dumps(s))


if __name__ == "__main__":
    from vt.selftest import main as _main  # the catalogue registers into the importable module, not into __main__
    _main()

"""M5 — definitions / uses per CFG node, definite assignment (must), reaching definitions (may)."""
from __future__ import annotations

import ast
from typing import Dict, List, Optional, Set, Tuple

from .cfg import CFG, Node
from .core import dotted


def _target_names(t: ast.AST, out: Set[str]) -> None:
    if isinstance(t, ast.Name):
        out.add(t.id)
    elif isinstance(t, ast.Attribute):
        d = dotted(t)
        if d:
            out.add(d)
    elif isinstance(t, (ast.Tuple, ast.List)):
        for e in t.elts:
            _target_names(e, out)
    elif isinstance(t, ast.Starred):
        _target_names(t.value, out)


def _pattern_names(p: ast.AST, out: Set[str]) -> None:
    for n in ast.walk(p):
        if isinstance(n, ast.MatchAs) and n.name:
            out.add(n.name)
        elif isinstance(n, ast.MatchStar) and n.name:
            out.add(n.name)
        elif isinstance(n, ast.MatchMapping) and n.rest:
            out.add(n.rest)


def defs_of(cfg: CFG, node: Node) -> Set[str]:
    out: Set[str] = set()
    a = node.ast
    if node.kind == "entry":
        args = cfg.fn.args
        for x in args.posonlyargs + args.args + args.kwonlyargs:
            out.add(x.arg)
        if args.vararg:
            out.add(args.vararg.arg)
        if args.kwarg:
            out.add(args.kwarg.arg)
    elif node.kind == "stmt":
        if isinstance(a, ast.Assign):
            for t in a.targets:
                _target_names(t, out)
        elif isinstance(a, ast.AugAssign):
            _target_names(a.target, out)
        elif isinstance(a, ast.AnnAssign) and a.value is not None:
            _target_names(a.target, out)
        elif isinstance(a, (ast.Import, ast.ImportFrom)):
            for al in a.names:
                out.add((al.asname or al.name).split(".")[0])
        elif isinstance(a, (ast.FunctionDef, ast.ClassDef)):
            out.add(a.name)
        # walrus
        for n in ast.walk(a):
            if isinstance(n, ast.NamedExpr):
                _target_names(n.target, out)
    elif node.kind == "for":
        _target_names(a.target, out)
    elif node.kind == "with":
        for it in a.items:
            if it.optional_vars is not None:
                _target_names(it.optional_vars, out)
    elif node.kind == "except":
        if a.name:
            out.add(a.name)
    elif node.kind == "case":
        _pattern_names(a.pattern, out)
    return out


def own_exprs(node: Node) -> List[ast.AST]:
    """AST sub-trees evaluated at this CFG node (excluding nested statement bodies)."""
    a = node.ast
    if a is None:
        return []
    k = node.kind
    if k == "stmt":
        if isinstance(a, (ast.FunctionDef, ast.ClassDef)):
            return list(a.decorator_list)
        return [a]
    if k in ("if", "while"):
        return [a.test]
    if k == "for":
        return [a.iter]
    if k == "match":
        return [a.subject]
    if k == "case":
        out = [a.pattern]
        if a.guard is not None:
            out.append(a.guard)
        return out
    if k == "with":
        return [it.context_expr for it in a.items]
    if k == "except":
        return [a.type] if a.type is not None else []
    return []


def _walk_expr(e: ast.AST):
    """ast.walk that does not enter lambda / comprehension scopes' *bound* names specially (kept simple)
    and skips nested function / class definitions."""
    stack = [e]
    while stack:
        n = stack.pop()
        yield n
        for c in ast.iter_child_nodes(n):
            if isinstance(c, (ast.FunctionDef, ast.AsyncFunctionDef, ast.ClassDef)):
                continue
            stack.append(c)


def comprehension_bound(e: ast.AST) -> Set[str]:
    out: Set[str] = set()
    for n in ast.walk(e):
        if isinstance(n, ast.comprehension):
            _target_names(n.target, out)
        elif isinstance(n, ast.Lambda):
            for x in n.args.posonlyargs + n.args.args + n.args.kwonlyargs:
                out.add(x.arg)
    return out


def uses_of(node: Node) -> List[Tuple[str, ast.AST]]:
    """(name, ast node) for every Name load and every dotted attribute-chain load at this node.
    Annotation expressions are excluded."""
    out: List[Tuple[str, ast.AST]] = []
    for e in own_exprs(node):
        bound = comprehension_bound(e)
        skip_ann = None
        if isinstance(e, ast.AnnAssign):
            skip_ann = e.annotation
        for n in _walk_expr(e):
            if skip_ann is not None and n is skip_ann:
                continue
            if isinstance(n, ast.Name) and isinstance(n.ctx, ast.Load):
                if n.id not in bound:
                    out.append((n.id, n))
            elif isinstance(n, ast.Attribute) and isinstance(n.ctx, ast.Load):
                d = dotted(n)
                if d:
                    out.append((d, n))
        if isinstance(e, ast.AugAssign):
            s: Set[str] = set()
            _target_names(e.target, s)
            for nm in s:
                out.append((nm, e.target))
    if skip_ann_nodes := [e.annotation for e in own_exprs(node) if isinstance(e, ast.AnnAssign)]:
        banned = set()
        for ann in skip_ann_nodes:
            for n in ast.walk(ann):
                banned.add(id(n))
        out = [(nm, n) for nm, n in out if id(n) not in banned]
    return out


def definite_assignment(cfg: CFG) -> Dict[int, Set[str]]:
    """IN[n]: names assigned on every path (incl. exceptional edges) from entry to n.
    An exceptional edge leaves its source *before* the source's own definitions take effect."""
    live = cfg.reachable_from(cfg.entry, exc=True)
    universe: Set[str] = set()
    dcache: Dict[int, Set[str]] = {}
    for n in cfg.nodes:
        d = defs_of(cfg, n)
        dcache[n.id] = d
        universe |= d
    IN = {n: set(universe) for n in live}
    OUT = {n: set(universe) for n in live}
    IN[cfg.entry] = set()
    OUT[cfg.entry] = set(dcache[cfg.entry])
    changed = True
    order = sorted(live)
    while changed:
        changed = False
        for n in order:
            if n == cfg.entry:
                continue
            contrib = []
            for p, lab in cfg.pred[n]:
                if p not in live:
                    continue
                node_p = cfg.nodes[p]
                if lab == "exc":
                    contrib.append(IN[p])
                elif node_p.kind == "for" and lab == "F":
                    contrib.append(IN[p])  # target not bound when the iterator is exhausted
                elif node_p.kind == "case" and lab == "F":
                    contrib.append(IN[p])
                else:
                    contrib.append(OUT[p])
            new_in = set.intersection(*contrib) if contrib else set()
            new_out = new_in | dcache[n]
            if new_in != IN[n] or new_out != OUT[n]:
                IN[n], OUT[n] = new_in, new_out
                changed = True
    return IN


def reaching_definitions(cfg: CFG) -> Dict[int, Dict[str, Set[int]]]:
    """IN[n][name] = set of CFG node ids whose definition of `name` may reach n (over all edges)."""
    live = cfg.reachable_from(cfg.entry, exc=True)
    dcache = {n.id: defs_of(cfg, n) for n in cfg.nodes}
    IN: Dict[int, Dict[str, Set[int]]] = {n: {} for n in live}
    OUT: Dict[int, Dict[str, Set[int]]] = {n: {} for n in live}
    OUT[cfg.entry] = {v: {cfg.entry} for v in dcache[cfg.entry]}
    changed = True
    order = sorted(live)

    def merge(dst: Dict[str, Set[int]], srcd: Dict[str, Set[int]]) -> None:
        for k, v in srcd.items():
            dst.setdefault(k, set()).update(v)

    while changed:
        changed = False
        for n in order:
            if n == cfg.entry:
                continue
            new_in: Dict[str, Set[int]] = {}
            for p, lab in cfg.pred[n]:
                if p not in live:
                    continue
                if lab == "exc":
                    merge(new_in, IN[p])
                    merge(new_in, OUT[p])
                else:
                    merge(new_in, OUT[p])
            new_out = {k: set(v) for k, v in new_in.items()}
            for v in dcache[n]:
                new_out[v] = {n}
                # an assignment to `a.b` kills nothing else; an assignment to `a` kills `a.*`
                for k in list(new_out):
                    if k.startswith(v + "."):
                        del new_out[k]
            if new_in != IN[n] or new_out != OUT[n]:
                IN[n], OUT[n] = new_in, new_out
                changed = True
    return IN


def single_def_locals(cfg: CFG) -> Dict[str, ast.AST]:
    """Locals (plain names) with exactly one defining Assign in the function -> the assigned value."""
    count: Dict[str, int] = {}
    val: Dict[str, ast.AST] = {}
    for n in cfg.nodes:
        for d in defs_of(cfg, n):
            count[d] = count.get(d, 0) + 1
        a = n.ast
        if n.kind == "stmt" and isinstance(a, ast.Assign) and len(a.targets) == 1 and isinstance(a.targets[0], ast.Name):
            val[a.targets[0].id] = a.value
    return {k: v for k, v in val.items() if count.get(k) == 1}

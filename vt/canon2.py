"""Load-time canonicalisation, second group (added after measuring false alarms on maintainers' refactorings, DESIGN 10.9).

Every step rewrites the *analysed AST* (never /repo) into the shape the reference tree has, and only where the reference function does not use the
newer shape itself (ref_locals.json, key `<function>::iters`). All steps preserve the behaviour the rules look at:

  (x)  `T = [E for V in IT if C]`                 ->  `T = []` / `for V in IT: if C: T.append(E)`
  (x') `for V in map(F, IT): B`                   ->  `for _m in IT: V = F(_m); B`
  (y)  `for I, X in enumerate(L): B`              ->  `for I in range(0, len(L)): B[X := L[I]]`        (X, L not rebound in B)
  (z)  `for A, B in zip(L, L[1:]): S`             ->  `for _i in range(0, len(L) - 1): S[A := L[_i], B := L[_i + 1]]`
  (r') a function / method the reference tree does not have is inlined at *every* call (generalises step r of canon.py): expression helpers
       (`return e` only) anywhere in an expression; statement helpers whose returns are all in tail position at calls that are a whole statement
       (`h(..)`, `t = h(..)`, `a, b = h(..)`), `if c: return a` / `return b` becoming `if c: t = a else: t = b`; plain, `self.` and
       `@staticmethod` helpers; arguments may be any call-free expression
  (k') a new module- or class-level constant bound once to a literal (also a tuple / list / set of literals, `bytearray(b'..')`-free) is
       substituted where it is read (`NAME`, `Class.NAME`, `self.NAME`), also in `case` patterns
  (b)  `T = <comparison / isinstance(..) / bool(..)>`  ->  `if <test>: T = True else: T = False` when the reference function assigns T that way
"""
from __future__ import annotations

import ast
import copy
from typing import Dict, List, Optional, Set


def _stored(stmts) -> Set[str]:
    out = set()
    for st in stmts:
        for x in ast.walk(st):
            if isinstance(x, ast.Name) and isinstance(x.ctx, (ast.Store, ast.Del)):
                out.add(x.id)
    return out


def _all_names(n) -> Set[str]:
    return {x.id for x in ast.walk(n) if isinstance(x, ast.Name)} | {x.arg for x in ast.walk(n) if isinstance(x, ast.arg)}


class _Subst(ast.NodeTransformer):
    def __init__(self, mapping: Dict[str, ast.AST]):
        self.m = mapping

    def visit_Name(self, node: ast.Name):
        if isinstance(node.ctx, ast.Load) and node.id in self.m:
            return ast.copy_location(copy.deepcopy(self.m[node.id]), node)
        return node


def _subst(stmts, mapping):
    return [_Subst(mapping).visit(st) for st in stmts]


def _call_free(e: ast.AST) -> bool:
    return not any(isinstance(x, (ast.Call, ast.Await, ast.Yield, ast.YieldFrom, ast.NamedExpr)) for x in ast.walk(e))


def iter_kinds(fn: ast.FunctionDef) -> List[str]:
    """loop / comprehension shapes used by a function (recorded for the reference tree)."""
    out = set()
    for n in ast.walk(fn):
        if isinstance(n, ast.For) and isinstance(n.iter, ast.Call) and isinstance(n.iter.func, ast.Name) and n.iter.func.id in ("enumerate", "zip", "map"):
            out.add(n.iter.func.id)
        if isinstance(n, (ast.Assign, ast.AnnAssign)) and isinstance(getattr(n, "value", None), ast.ListComp):
            out.add("listcomp")
        if isinstance(n, ast.For) and isinstance(n.target, ast.Tuple) and not isinstance(n.iter, ast.Call):
            out.add("tuple-target")
    return sorted(out)


def bool_targets(fn: ast.FunctionDef) -> List[str]:
    """targets assigned as `if c: T = True else: T = False` (either order) in a function of the reference tree."""
    out = []
    for n in ast.walk(fn):
        if isinstance(n, ast.If) and len(n.body) == 1 and len(n.orelse) == 1 and all(
                isinstance(s, ast.Assign) and len(s.targets) == 1 and isinstance(s.value, ast.Constant) and isinstance(s.value.value, bool) for s in (n.body[0], n.orelse[0])) \
                and ast.dump(n.body[0].targets[0]) == ast.dump(n.orelse[0].targets[0]) and n.body[0].value.value != n.orelse[0].value.value:
            out.append(ast.dump(n.body[0].targets[0]).replace("Store()", "Load()"))
    return sorted(set(out))


def _fresh(base: str, taken: Set[str]) -> str:
    i = 0
    while f"{base}{i}" in taken:
        i += 1
    taken.add(f"{base}{i}")
    return f"{base}{i}"


def loop_shapes(fn: ast.FunctionDef, ref_kinds: List[str], ref_bool: List[str]) -> None:
    taken = _all_names(fn)
    for p in ast.walk(fn):
        for fld in ("body", "orelse", "finalbody"):
            lst = getattr(p, fld, None)
            if not isinstance(lst, list):
                continue
            i = 0
            while i < len(lst):
                st = lst[i]
                # (x) list comprehension assigned to a name (a returned comprehension is first bound to a fresh name)
                if "listcomp" not in ref_kinds and isinstance(st, ast.Return) and isinstance(st.value, ast.ListComp) and len(st.value.generators) == 1:
                    rn = _fresh("_r", taken)
                    asg = ast.copy_location(ast.Assign(targets=[ast.Name(rn, ast.Store())], value=st.value), st)
                    ret = ast.copy_location(ast.Return(value=ast.Name(rn, ast.Load())), st)
                    ast.fix_missing_locations(asg)
                    ast.fix_missing_locations(ret)
                    lst[i:i + 1] = [asg, ret]
                    continue
                tgt = val = None
                if isinstance(st, ast.Assign) and len(st.targets) == 1 and isinstance(st.targets[0], ast.Name):
                    tgt, val = st.targets[0], st.value
                elif isinstance(st, ast.AnnAssign) and isinstance(st.target, ast.Name) and st.value is not None:
                    tgt, val = st.target, st.value
                if "listcomp" not in ref_kinds and tgt is not None and isinstance(val, ast.ListComp) and len(val.generators) == 1 and not val.generators[0].is_async \
                        and tgt.id not in _all_names(val):
                    g = val.generators[0]
                    app = ast.Expr(value=ast.Call(func=ast.Attribute(value=ast.Name(tgt.id, ast.Load()), attr="append", ctx=ast.Load()), args=[val.elt], keywords=[]))
                    inner: List[ast.stmt] = [app]
                    if g.ifs:
                        test = g.ifs[0] if len(g.ifs) == 1 else ast.BoolOp(op=ast.And(), values=list(g.ifs))
                        inner = [ast.If(test=test, body=[app], orelse=[])]
                    loop = ast.For(target=g.target, iter=g.iter, body=inner, orelse=[])
                    init = ast.Assign(targets=[ast.Name(tgt.id, ast.Store())], value=ast.List(elts=[], ctx=ast.Load()))
                    for x in (init, loop):
                        ast.copy_location(x, st)
                        for y in ast.walk(x):
                            if not hasattr(y, "lineno"):
                                ast.copy_location(y, st)
                    lst[i:i + 1] = [init, loop]
                    continue  # re-examine (the new loop may iterate over map(..))
                # (t) `for a, b, c in L` over a plain container -> `for _t in L` with a, b, c read as _t[0], _t[1], _t[2]
                if isinstance(st, ast.For) and "tuple-target" not in ref_kinds and isinstance(st.target, ast.Tuple) and isinstance(st.iter, (ast.Name, ast.Attribute)) \
                        and all(isinstance(e, ast.Name) for e in st.target.elts):
                    names_ = [e.id for e in st.target.elts]
                    later = _all_names(ast.Module(body=lst[i + 1:], type_ignores=[]))
                    if not (set(names_) & _stored(st.body)) and not (set(names_) & later) and len(set(names_)) == len(names_):
                        tv = _fresh("_t", taken)
                        st.body = _subst(st.body, {n_: ast.Subscript(value=ast.Name(tv, ast.Load()), slice=ast.Constant(k_), ctx=ast.Load()) for k_, n_ in enumerate(names_)})
                        st.target = ast.copy_location(ast.Name(tv, ast.Store()), st)
                        ast.fix_missing_locations(st)
                        continue
                if isinstance(st, ast.For) and isinstance(st.iter, ast.Call) and isinstance(st.iter.func, ast.Name) and not st.iter.keywords:
                    f, args = st.iter.func.id, st.iter.args
                    # (x') map
                    if f == "map" and "map" not in ref_kinds and len(args) == 2 and isinstance(args[0], (ast.Name, ast.Attribute)):
                        m = _fresh("_m", taken)
                        bind = ast.copy_location(ast.Assign(targets=[st.target], value=ast.Call(func=args[0], args=[ast.Name(m, ast.Load())], keywords=[])), st)
                        st.target = ast.copy_location(ast.Name(m, ast.Store()), st)
                        st.iter = args[1]
                        st.body = [bind] + st.body
                        ast.fix_missing_locations(st)
                        continue
                    # (y) enumerate
                    if f == "enumerate" and "enumerate" not in ref_kinds and len(args) == 1 and isinstance(args[0], (ast.Name, ast.Attribute)) and _call_free(args[0]) \
                            and isinstance(st.target, ast.Tuple) and len(st.target.elts) == 2 and all(isinstance(e, ast.Name) for e in st.target.elts):
                        iv, xv = st.target.elts[0].id, st.target.elts[1].id
                        rebound = _stored(st.body)
                        base = {n.id for n in ast.walk(args[0]) if isinstance(n, ast.Name)}
                        if xv not in rebound and iv not in rebound and not (base & rebound) and xv not in _all_names(ast.Module(body=lst[i + 1:], type_ignores=[])):
                            elem = ast.Subscript(value=copy.deepcopy(args[0]), slice=ast.Name(iv, ast.Load()), ctx=ast.Load())
                            st.body = _subst(st.body, {xv: elem})
                            st.target = ast.copy_location(ast.Name(iv, ast.Store()), st)
                            st.iter = ast.Call(func=ast.Name("range", ast.Load()), args=[ast.Constant(0), ast.Call(func=ast.Name("len", ast.Load()), args=[copy.deepcopy(args[0])], keywords=[])], keywords=[])
                            ast.fix_missing_locations(st)
                            continue
                    # (z) neighbour pairs
                    if f == "zip" and "zip" not in ref_kinds and len(args) == 2 and isinstance(args[0], (ast.Name, ast.Attribute)) and _call_free(args[0]) \
                            and isinstance(args[1], ast.Subscript) and ast.dump(args[1].value) == ast.dump(args[0]) and isinstance(args[1].slice, ast.Slice) \
                            and isinstance(args[1].slice.lower, ast.Constant) and args[1].slice.lower.value == 1 and args[1].slice.upper is None and args[1].slice.step is None \
                            and isinstance(st.target, ast.Tuple) and len(st.target.elts) == 2 and all(isinstance(e, ast.Name) for e in st.target.elts):
                        av, bv = st.target.elts[0].id, st.target.elts[1].id
                        rebound = _stored(st.body)
                        base = {n.id for n in ast.walk(args[0]) if isinstance(n, ast.Name)}
                        if av not in rebound and bv not in rebound and not (base & rebound):
                            iv = _fresh("_i", taken)
                            e0 = ast.Subscript(value=copy.deepcopy(args[0]), slice=ast.Name(iv, ast.Load()), ctx=ast.Load())
                            e1 = ast.Subscript(value=copy.deepcopy(args[0]), slice=ast.BinOp(left=ast.Name(iv, ast.Load()), op=ast.Add(), right=ast.Constant(1)), ctx=ast.Load())
                            st.body = _subst(st.body, {av: e0, bv: e1})
                            st.target = ast.copy_location(ast.Name(iv, ast.Store()), st)
                            ln = ast.Call(func=ast.Name("len", ast.Load()), args=[copy.deepcopy(args[0])], keywords=[])
                            st.iter = ast.Call(func=ast.Name("range", ast.Load()), args=[ast.Constant(0), ast.BinOp(left=ln, op=ast.Sub(), right=ast.Constant(1))], keywords=[])
                            ast.fix_missing_locations(st)
                            continue
                # (b) boolean assigned directly
                btgt = st.targets[0] if isinstance(st, ast.Assign) and len(st.targets) == 1 and isinstance(st.targets[0], (ast.Name, ast.Attribute)) else None
                if ref_bool and btgt is not None and ast.dump(btgt).replace("Store()", "Load()") in ref_bool:
                    val = st.value
                    v = val
                    if isinstance(v, ast.Call) and isinstance(v.func, ast.Name) and v.func.id == "bool" and len(v.args) == 1 and not v.keywords:
                        v = v.args[0]
                    is_test = isinstance(v, (ast.Compare, ast.BoolOp)) or (isinstance(v, ast.UnaryOp) and isinstance(v.op, ast.Not)) or \
                        (isinstance(v, ast.Call) and isinstance(v.func, ast.Name) and v.func.id in ("isinstance", "issubclass", "callable", "hasattr")) or \
                        (val is not v)
                    if is_test and not (isinstance(v, ast.Constant)):
                        new = ast.If(test=v, body=[ast.Assign(targets=[copy.deepcopy(st.targets[0])], value=ast.Constant(True))],
                                     orelse=[ast.Assign(targets=[copy.deepcopy(st.targets[0])], value=ast.Constant(False))])
                        ast.copy_location(new, st)
                        for y in ast.walk(new):
                            if not hasattr(y, "lineno"):
                                ast.copy_location(y, st)
                        lst[i] = new
                i += 1


# ------------------------------------------------------------------------------------------------------------------ helpers with several callers
class _GetAttrConst(ast.NodeTransformer):
    """`getattr(x, "name")` with a literal name and no default is `x.name`."""
    def visit_Call(self, node):
        self.generic_visit(node)
        if isinstance(node.func, ast.Name) and node.func.id == "getattr" and len(node.args) == 2 and not node.keywords and isinstance(node.args[1], ast.Constant) \
                and isinstance(node.args[1].value, str) and node.args[1].value.isidentifier():
            return ast.copy_location(ast.Attribute(value=node.args[0], attr=node.args[1].value, ctx=ast.Load()), node)
        return node


def _contains_return(st) -> bool:
    return any(isinstance(x, ast.Return) for x in ast.walk(st))


def _always_returns(stmts) -> bool:
    if not stmts:
        return False
    last = stmts[-1]
    if isinstance(last, ast.Return):
        return True
    if isinstance(last, ast.If) and last.orelse:
        return _always_returns(last.body) and _always_returns(last.orelse)
    return False


def _tailify(stmts, make_assign, need_value: bool) -> Optional[List[ast.stmt]]:
    out: List[ast.stmt] = []
    for i, st in enumerate(stmts):
        if isinstance(st, ast.Return):
            if st.value is not None or need_value:
                out.append(make_assign(st.value if st.value is not None else ast.Constant(None), st))
            return out
        if _contains_return(st):
            if isinstance(st, ast.If) and _always_returns(st.body):
                body = _tailify(st.body, make_assign, need_value)
                orelse = _tailify(list(st.orelse) + list(stmts[i + 1:]), make_assign, need_value)
                if body is None or orelse is None:
                    return None
                out.append(ast.copy_location(ast.If(test=st.test, body=body or [ast.copy_location(ast.Pass(), st)], orelse=orelse), st))
                return out
            return None
        out.append(st)
    if need_value:
        out.append(make_assign(ast.Constant(None), stmts[-1] if stmts else None))
    return out


def inline_new_helpers(relpath: str, tree: ast.Module, ref: Dict) -> None:
    if not any(k.startswith(relpath + "::") for k in ref):
        return

    def scopes():
        yield "", tree.body, None
        for st in tree.body:
            if isinstance(st, ast.ClassDef):
                yield st.name + ".", st.body, st
        # local closures: a def inside a function body, called by name inside that function (its free variables are the enclosing function's)
        for fn in [x for x in ast.walk(tree) if isinstance(x, ast.FunctionDef)]:
            if any(isinstance(y, ast.FunctionDef) for y in fn.body):
                yield "\0local\0" + fn.name + ".", fn.body, None
    for _round in range(3):
        changed = False
        for prefix, body, cls in list(scopes()):
            for h in [st for st in body if isinstance(st, ast.FunctionDef)]:
                if f"{relpath}::{prefix}{h.name}" in ref or h.name.startswith("__"):
                    continue
                static = len(h.decorator_list) == 1 and isinstance(h.decorator_list[0], ast.Name) and h.decorator_list[0].id == "staticmethod"
                if h.decorator_list and not static:
                    continue
                a = h.args
                if a.vararg or a.kwarg or a.kwonlyargs or a.posonlyargs or a.defaults:
                    continue
                params = [x.arg for x in a.args]
                if cls is not None and not static:
                    if not params or params[0] != "self":
                        continue
                    params = params[1:]
                hb = list(h.body)
                if hb and isinstance(hb[0], ast.Expr) and isinstance(hb[0].value, ast.Constant) and isinstance(hb[0].value.value, str):
                    hb = hb[1:]
                if not hb:
                    continue
                if any(isinstance(x, (ast.Yield, ast.YieldFrom, ast.FunctionDef, ast.AsyncFunctionDef, ast.Global, ast.Nonlocal)) for st in hb for x in ast.walk(st)):
                    continue
                if any(isinstance(x, ast.Return) for st in hb for x in ast.walk(st) if isinstance(st, (ast.For, ast.While, ast.Try, ast.With))):
                    continue
                sites = []
                for n in ast.walk(tree):
                    if isinstance(n, ast.Call):
                        fn = n.func
                        if cls is None and isinstance(fn, ast.Name) and fn.id == h.name:
                            sites.append(n)
                        elif cls is not None and isinstance(fn, ast.Attribute) and fn.attr == h.name and isinstance(fn.value, ast.Name) and \
                                (fn.value.id == "self" or (static and fn.value.id == cls.name)):
                            sites.append(n)
                refs = [n for n in ast.walk(tree) if (isinstance(n, ast.Name) and n.id == h.name) or (isinstance(n, ast.Attribute) and n.attr == h.name)]
                if not sites or len(refs) != len(sites):
                    continue
                if any(isinstance(x, ast.Call) and x in sites for st in hb for x in ast.walk(st)):
                    continue  # recursive
                # bind arguments (positional, then keywords by name)
                bindings = []
                ok = True
                for c in sites:
                    if any(isinstance(x, ast.Starred) for x in c.args) or any(k.arg is None for k in c.keywords) or len(c.args) > len(params):
                        ok = False
                        break
                    b = dict(zip(params, c.args))
                    for k in c.keywords:
                        if k.arg not in params or k.arg in b:
                            ok = False
                        b[k.arg] = k.value
                    if set(b) != set(params):
                        ok = False
                    bindings.append(b)
                if not ok:
                    continue
                h_stored = _stored(hb)
                if h_stored & set(params):
                    continue  # the helper rebinds a parameter: not a pure substitution
                uses = {p: sum(1 for st in hb for x in ast.walk(st) if isinstance(x, ast.Name) and x.id == p) for p in params}
                if any(not (isinstance(v, (ast.Name, ast.Constant)) or _call_free(v) or uses[p] <= 1) for b in bindings for p, v in b.items()):
                    continue
                site_ids = {id(c): b for c, b in zip(sites, bindings)}
                # kind E: a single `return e`
                if len(hb) == 1 and isinstance(hb[0], ast.Return) and hb[0].value is not None:
                    expr = hb[0].value
                    # names the expression reads besides its parameters must mean the same at the call (module globals / self): locals of the helper do not exist
                    class Inl(ast.NodeTransformer):
                        def visit_Call(self, node):
                            self.generic_visit(node)
                            b = site_ids.get(id(node))
                            if b is None:
                                return node
                            return ast.copy_location(_Subst(b).visit(copy.deepcopy(expr)), node)
                    for st in tree.body:
                        if st is not h:
                            Inl().visit(st)
                    if cls is not None:
                        for st in cls.body:
                            pass
                    body.remove(h)
                    ast.fix_missing_locations(tree)
                    changed = True
                    continue
                # kind S: statement helper, every call is a whole statement
                placements = []
                for p in ast.walk(tree):
                    for fld in ("body", "orelse", "finalbody"):
                        lst = getattr(p, fld, None)
                        if not isinstance(lst, list):
                            continue
                        for st in lst:
                            call = None
                            if isinstance(st, ast.Expr) and id(st.value) in site_ids:
                                call, targets = st.value, None
                            elif isinstance(st, ast.Assign) and id(st.value) in site_ids:
                                call, targets = st.value, st.targets
                            elif isinstance(st, ast.AnnAssign) and st.value is not None and id(st.value) in site_ids:
                                call, targets = st.value, [st.target]
                            if call is not None:
                                placements.append((lst, st, call, targets))
                if len(placements) != len(sites):
                    # a call nested in a simple statement (`out.append((h(a), ts))`, `x = f(h(a))`) is first bound to a fresh name in front of it
                    placed = {id(c) for _, _, c, _ in placements}
                    hoisted = False
                    for p in ast.walk(tree):
                        for fld in ("body", "orelse", "finalbody"):
                            lst = getattr(p, fld, None)
                            if not isinstance(lst, list):
                                continue
                            for k_, st in enumerate(lst):
                                if not isinstance(st, (ast.Expr, ast.Assign, ast.AugAssign, ast.Return)):
                                    continue
                                inner = [c for c in ast.walk(st) if isinstance(c, ast.Call) and id(c) in site_ids and id(c) not in placed]
                                if len(inner) != 1:
                                    continue
                                owner_names = _all_names(tree)
                                tmp = _fresh("_h", owner_names)
                                call = inner[0]

                                class _R(ast.NodeTransformer):
                                    def visit_Call(self, node):
                                        if node is call:
                                            return ast.copy_location(ast.Name(tmp, ast.Load()), node)
                                        return self.generic_visit(node)
                                new_st = _R().visit(st)
                                bind = ast.copy_location(ast.Assign(targets=[ast.Name(tmp, ast.Store())], value=call), st)
                                ast.fix_missing_locations(bind)
                                lst[k_:k_ + 1] = [bind, new_st]
                                hoisted = True
                                break
                            if hoisted:
                                break
                        if hoisted:
                            break
                    if hoisted:
                        changed = True
                    continue
                rets = [x for st in hb for x in ast.walk(st) if isinstance(x, ast.Return)]
                plans = []
                for lst, st, call, targets in placements:
                    owner = None
                    for q in ast.walk(tree):
                        if isinstance(q, ast.FunctionDef) and q is not h and any(x is st for x in ast.walk(q)):
                            owner = q
                    if owner is None:
                        plans = None
                        break
                    tnames = {x.id for t in (targets or []) for x in ast.walk(t) if isinstance(x, ast.Name)}
                    h_locals = h_stored - set(params)
                    def _loop_var_only(scope_stmts, name):
                        st_ = [x for b_ in scope_stmts for x in ast.walk(b_) if isinstance(x, ast.Name) and x.id == name and isinstance(x.ctx, ast.Store)]
                        ft = {id(y) for b_ in scope_stmts for lp in ast.walk(b_) if isinstance(lp, ast.For) for y in ast.walk(lp.target)}
                        return bool(st_) and all(id(x) in ft for x in st_)
                    # a loop variable used as a loop variable on both sides is rebound before every use: sharing the name changes nothing
                    clash = {n for n in h_locals if n in (_all_names(owner) - tnames) and not (_loop_var_only(hb, n) and _loop_var_only(owner.body, n))}
                    ren = {}
                    taken = _all_names(owner) | h_locals
                    for n in sorted(clash):
                        ren[n] = _fresh(f"_{n}_", taken)
                    nb = copy.deepcopy(hb)
                    # `return a, b` of helper locals into `x, y = h(..)`: the helper's locals are the caller's variables — rename instead of copying
                    last = nb[-1]
                    if targets is not None and len(targets) == 1 and len(rets) == 1 and isinstance(last, ast.Return) and last.value is not None:
                        rv = last.value.elts if isinstance(last.value, ast.Tuple) else [last.value]
                        tv = targets[0].elts if isinstance(targets[0], ast.Tuple) else [targets[0]]
                        if len(rv) == len(tv) and all(isinstance(x, ast.Name) and x.id in h_locals for x in rv) and all(isinstance(x, ast.Name) for x in tv) \
                                and len({x.id for x in rv}) == len(rv):
                            direct = {x.id: t_.id for x, t_ in zip(rv, tv)}
                            if not any(v in (_all_names(owner) - tnames) and False for v in direct.values()):
                                for k_, v_ in direct.items():
                                    ren[k_] = v_
                                nb = nb[:-1]
                                targets_local = None
                            else:
                                targets_local = targets
                        else:
                            targets_local = targets
                    else:
                        targets_local = targets
                    if ren:
                        for b_ in nb:
                            for x in ast.walk(b_):
                                if isinstance(x, ast.Name) and x.id in ren:
                                    x.id = ren[x.id]
                    nb = _subst(nb, site_ids[id(call)])

                    def make_assign(value, at, _t=targets, _st=st):
                        if _t is None:
                            return ast.copy_location(ast.Expr(value=value), _st)
                        if len(_t) == 1 and isinstance(_t[0], ast.Name) and isinstance(value, ast.Name) and value.id == _t[0].id:
                            return ast.copy_location(ast.Pass(), _st)  # `x = x`: the helper's local was the caller's variable all along
                        return ast.copy_location(ast.Assign(targets=copy.deepcopy(_t), value=value), _st)
                    conv = _tailify(nb, make_assign, targets_local is not None) if targets_local is not None or targets is None else list(nb)
                    if conv is None:
                        plans = None
                        break
                    if targets is None:
                        # a returned value that is dropped: keep only expressions that may have effects
                        conv = [s for s in conv if not (isinstance(s, ast.Expr) and _call_free(s.value))]
                    conv = [s for s in conv if not isinstance(s, ast.Pass)] or conv[:1]
                    conv = [_GetAttrConst().visit(s) for s in conv]
                    plans.append((lst, st, conv))
                if not plans:
                    continue
                for lst, st, conv in plans:
                    for b_ in conv:
                        for x in ast.walk(b_):
                            if hasattr(x, "lineno"):
                                x.lineno = getattr(st, "lineno", x.lineno)
                                x.end_lineno = getattr(st, "end_lineno", x.lineno)
                    k = next(j for j, s in enumerate(lst) if s is st)
                    lst[k:k + 1] = conv or [ast.copy_location(ast.Pass(), st)]
                body.remove(h)
                ast.fix_missing_locations(tree)
                changed = True
        if not changed:
            break


# ------------------------------------------------------------------------------------------------------------------ constants
def _literal(e: ast.AST):
    """value of a literal-only expression: int / bytes / str, or a tuple / list / set of those; None otherwise."""
    try:
        v = ast.literal_eval(e)
    except Exception:
        try:
            if all(isinstance(x, (ast.Constant, ast.BinOp, ast.UnaryOp, ast.operator, ast.unaryop, ast.Expression)) for x in ast.walk(e)):
                v = eval(compile(ast.Expression(e), "<const>", "eval"), {"__builtins__": {}}, {})
            elif isinstance(e, ast.Call) and isinstance(e.func, ast.Attribute) and e.func.attr == "fromhex" and isinstance(e.func.value, ast.Name) \
                    and e.func.value.id == "bytes" and len(e.args) == 1 and isinstance(e.args[0], ast.Constant) and isinstance(e.args[0].value, str):
                v = bytes.fromhex(e.args[0].value)
            else:
                return None
        except Exception:
            return None
    ok = lambda s: isinstance(s, (int, bytes, str)) and not isinstance(s, bool)
    if ok(v):
        return v
    if isinstance(v, tuple) and v and all(ok(s) for s in v):
        return v  # immutable only: a named list / set has identity (it can be aliased and mutated), a literal at every use has not
    return None


def _as_ast(v, like: ast.AST) -> ast.AST:
    if isinstance(v, (tuple, list)):
        node = (ast.Tuple if isinstance(v, tuple) else ast.List)(elts=[ast.Constant(s) for s in v], ctx=ast.Load())
    elif isinstance(v, (set, frozenset)):
        node = ast.Set(elts=[ast.Constant(s) for s in sorted(v, key=repr)])
    else:
        node = ast.Constant(v)
    ast.copy_location(node, like)
    for y in ast.walk(node):
        ast.copy_location(y, like)
    return node


def inline_new_constants(relpath: str, tree: ast.Module, ref: Dict) -> None:
    """(k') class-level constants and container constants; scalar module-level constants are handled by canon.py step (k) already."""
    if f"{relpath}::module-names" not in ref:
        return
    known_mod = set(ref.get(f"{relpath}::module-names", []))
    known_attr = set(ref.get("::attribute-names", []))
    stores = {}
    for n in ast.walk(tree):
        if isinstance(n, ast.Name) and isinstance(n.ctx, (ast.Store, ast.Del)):
            stores[n.id] = stores.get(n.id, 0) + 1
        elif isinstance(n, ast.arg):
            stores[n.arg] = stores.get(n.arg, 0) + 1
        elif isinstance(n, (ast.Global, ast.Nonlocal)):
            for x in n.names:
                stores[x] = stores.get(x, 0) + 2
        elif isinstance(n, ast.alias):
            nm = (n.asname or n.name).split(".")[0]
            stores[nm] = stores.get(nm, 0) + 2
    attr_stores = {n.attr for n in ast.walk(tree) if isinstance(n, ast.Attribute) and isinstance(n.ctx, (ast.Store, ast.Del))}
    # module level: containers only (scalars were substituted by step k)
    mod_consts = {}
    for st in tree.body:
        t = v = None
        if isinstance(st, ast.Assign) and len(st.targets) == 1 and isinstance(st.targets[0], ast.Name):
            t, v = st.targets[0].id, st.value
        elif isinstance(st, ast.AnnAssign) and isinstance(st.target, ast.Name) and st.value is not None:
            t, v = st.target.id, st.value
        if t and t not in known_mod and stores.get(t, 0) == 1:
            lv = _literal(v)
            if lv is not None:
                mod_consts[t] = lv
    cls_consts: Dict[str, Dict[str, object]] = {}
    for c in tree.body:
        if isinstance(c, ast.ClassDef):
            for st in c.body:
                t = v = None
                if isinstance(st, ast.Assign) and len(st.targets) == 1 and isinstance(st.targets[0], ast.Name):
                    t, v = st.targets[0].id, st.value
                elif isinstance(st, ast.AnnAssign) and isinstance(st.target, ast.Name) and st.value is not None:
                    t, v = st.target.id, st.value
                refnames = ref.get(f"{relpath}::{c.name}::classnames")
                if t and refnames is not None and t not in refnames and t not in attr_stores and stores.get(t, 0) == 1:
                    lv = _literal(v)
                    if lv is not None:
                        cls_consts.setdefault(c.name, {})[t] = lv
    if not mod_consts and not cls_consts:
        return
    all_cls = {k: v for d in cls_consts.values() for k, v in d.items()}

    class Sub(ast.NodeTransformer):
        cur = None

        def visit_ClassDef(self, node):
            old, Sub.cur = Sub.cur, node.name
            self.generic_visit(node)
            Sub.cur = old
            return node

        def visit_Name(self, node):
            if isinstance(node.ctx, ast.Load) and node.id in mod_consts:
                return _as_ast(mod_consts[node.id], node)
            return node

        def visit_Attribute(self, node):
            self.generic_visit(node)
            if isinstance(node.ctx, ast.Load) and isinstance(node.value, ast.Name):
                if node.value.id in cls_consts and node.attr in cls_consts[node.value.id]:
                    return _as_ast(cls_consts[node.value.id][node.attr], node)
                if node.value.id == "self" and Sub.cur in cls_consts and node.attr in cls_consts[Sub.cur]:
                    return _as_ast(cls_consts[Sub.cur][node.attr], node)
            return node

        def visit_MatchValue(self, node):
            self.generic_visit(node)
            return node
    Sub().visit(tree)
    tree.body = [st for st in tree.body if not ((isinstance(st, ast.Assign) and len(st.targets) == 1 and isinstance(st.targets[0], ast.Name) and st.targets[0].id in mod_consts)
                                                or (isinstance(st, ast.AnnAssign) and isinstance(st.target, ast.Name) and st.target.id in mod_consts))]
    for c in tree.body:
        if isinstance(c, ast.ClassDef) and c.name in cls_consts:
            d = cls_consts[c.name]
            c.body = [st for st in c.body if not ((isinstance(st, ast.Assign) and len(st.targets) == 1 and isinstance(st.targets[0], ast.Name) and st.targets[0].id in d)
                                                  or (isinstance(st, ast.AnnAssign) and isinstance(st.target, ast.Name) and st.target.id in d))] or [ast.Pass()]
    ast.fix_missing_locations(tree)


def inline_class_constants_tree_wide(trees: Dict[str, ast.Module], ref: Dict) -> None:
    """(k') across modules: `Class.NAME` read in another module, for a new class-level literal constant of a class whose name is unique in the tree."""
    known_attr = set(ref.get("::attribute-names", []))
    if not known_attr:
        return
    classes: Dict[str, List] = {}
    for rel, t in trees.items():
        for c in t.body:
            if isinstance(c, ast.ClassDef):
                classes.setdefault(c.name, []).append((rel, c))
    attr_stores = {n.attr for t in trees.values() for n in ast.walk(t) if isinstance(n, ast.Attribute) and isinstance(n.ctx, (ast.Store, ast.Del))}
    consts: Dict[str, Dict[str, object]] = {}
    for cname, lst in classes.items():
        if len(lst) != 1:
            continue
        rel, c = lst[0]
        for st in c.body:
            t = v = None
            if isinstance(st, ast.Assign) and len(st.targets) == 1 and isinstance(st.targets[0], ast.Name):
                t, v = st.targets[0].id, st.value
            elif isinstance(st, ast.AnnAssign) and isinstance(st.target, ast.Name) and st.value is not None:
                t, v = st.target.id, st.value
            refnames = ref.get(f"{rel}::{cname}::classnames")
            if t and refnames is not None and t not in refnames and t not in attr_stores:
                lv = _literal(v)
                if lv is not None and sum(1 for x in c.body if isinstance(x, (ast.Assign, ast.AnnAssign)) and any(
                        isinstance(y, ast.Name) and y.id == t and isinstance(y.ctx, ast.Store) for y in ast.walk(x))) == 1:
                    consts.setdefault(cname, {})[t] = lv
    if not consts:
        return

    class Sub(ast.NodeTransformer):
        def visit_Attribute(self, node):
            self.generic_visit(node)
            if isinstance(node.ctx, ast.Load) and isinstance(node.value, ast.Name) and node.value.id in consts and node.attr in consts[node.value.id]:
                return _as_ast(consts[node.value.id][node.attr], node)
            return node
    for rel, t in trees.items():
        own = {c.name for c in t.body if isinstance(c, ast.ClassDef)}
        # in the defining module inline_new_constants does the work (it also knows `self.NAME`)
        if not (set(consts) - own):
            continue
        Sub().visit(t)
        ast.fix_missing_locations(t)


_PURE_CALLS = {"int.from_bytes", "len", "bytes", "int", "bool", "isinstance", "min", "max", "abs"}


def _pure(e: ast.AST) -> bool:
    for x in ast.walk(e):
        if isinstance(x, ast.Call):
            f = x.func
            name = f.id if isinstance(f, ast.Name) else (f"{f.value.id}.{f.attr}" if isinstance(f, ast.Attribute) and isinstance(f.value, ast.Name) else None)
            if name not in _PURE_CALLS:
                return False
        elif isinstance(x, (ast.Await, ast.Yield, ast.YieldFrom, ast.NamedExpr, ast.Lambda, ast.ListComp, ast.DictComp, ast.SetComp, ast.GeneratorExp,
                            ast.List, ast.Dict, ast.Set, ast.Starred)):
            return False  # a fresh mutable object has identity: binding it once is not the same as building it at every use
    return True


def inline_pure_temps(fn: ast.FunctionDef, want: List[str]) -> None:
    """(f') a local the reference function does not have, bound once to a pure expression over names that are themselves bound at most once, is
    substituted at its (one or more) later reads in the same statement list (undoes "compute it once into a variable")."""
    for _round in range(6):
        stores: Dict[str, int] = {}
        for n in ast.walk(fn):
            if isinstance(n, ast.Name) and isinstance(n.ctx, (ast.Store, ast.Del)):
                stores[n.id] = stores.get(n.id, 0) + 1
        params = {a.arg for a in fn.args.args + fn.args.posonlyargs + fn.args.kwonlyargs}
        done = False
        for p in ast.walk(fn):
            for fld in ("body", "orelse", "finalbody"):
                lst = getattr(p, fld, None)
                if not isinstance(lst, list):
                    continue
                for i, st in enumerate(lst):
                    if not (isinstance(st, ast.Assign) and len(st.targets) == 1 and isinstance(st.targets[0], ast.Name)):
                        continue
                    nm = st.targets[0].id
                    if nm in want or nm in params or stores.get(nm) != 1 or not _pure(st.value) or isinstance(st.value, ast.Constant):
                        continue
                    free = {x.id for x in ast.walk(st.value) if isinstance(x, ast.Name)}
                    if nm in free or any(stores.get(f, 0) > 1 for f in free):
                        continue
                    rest = lst[i + 1:]
                    loads_rest = [x for s_ in rest for x in ast.walk(s_) if isinstance(x, ast.Name) and x.id == nm]
                    loads_all = [x for x in ast.walk(fn) if isinstance(x, ast.Name) and x.id == nm and isinstance(x.ctx, ast.Load)]
                    if not loads_rest or len(loads_rest) != len(loads_all):
                        continue
                    # never into a loop the definition is outside of: a read hoisted out of a loop is a different program when the loop changes what is read
                    in_loop = {id(x) for s_ in rest for lp in ast.walk(s_) if isinstance(lp, (ast.For, ast.While, ast.AsyncFor)) for x in ast.walk(lp)}
                    if any(id(x) in in_loop for x in loads_rest):
                        continue
                    # attribute chains the value reads must not be assigned in the statements that follow
                    vattrs = {ast.dump(x) for x in ast.walk(st.value) if isinstance(x, ast.Attribute)}
                    if any(isinstance(x, ast.Attribute) and isinstance(x.ctx, ast.Store) and ast.dump(x).replace("Store()", "Load()") in vattrs for s_ in rest for x in ast.walk(s_)):
                        continue
                    lst[i + 1:] = _subst(rest, {nm: st.value})
                    del lst[i]
                    done = True
                    break
                if done:
                    break
            if done:
                break
        if not done:
            return


def while_shapes(fn: ast.FunctionDef, ref_whiles: List[str]) -> None:
    """`while C: B` -> `while True: if not C: break; B` when the reference function spells its loops `while True` (and has no loop with test C)."""
    if not ref_whiles:
        return
    want_true = sum(1 for w in ref_whiles if w == "TRUE")
    cur = [n for n in ast.walk(fn) if isinstance(n, ast.While)]
    have_true = sum(1 for n in cur if isinstance(n.test, ast.Constant) and n.test.value in (True, 1))
    if have_true >= want_true:
        return
    for n in cur:
        if isinstance(n.test, ast.Constant) or n.orelse:
            continue
        if ast.dump(n.test) in ref_whiles:
            continue
        t = n.test
        neg = t.operand if isinstance(t, ast.UnaryOp) and isinstance(t.op, ast.Not) else ast.UnaryOp(op=ast.Not(), operand=t)
        from .canon import _Canon
        neg = _Canon().visit(ast.fix_missing_locations(ast.copy_location(neg, n)))
        brk = ast.If(test=neg, body=[ast.Break()], orelse=[])
        ast.copy_location(brk, n)
        for y in ast.walk(brk):
            ast.copy_location(y, n)
        n.test = ast.copy_location(ast.Constant(True), n.test)
        n.body = [brk] + n.body
        have_true += 1
        if have_true >= want_true:
            break


def while_tests(fn: ast.FunctionDef) -> List[str]:
    return ["TRUE" if isinstance(n.test, ast.Constant) and n.test.value in (True, 1) else ast.dump(n.test) for n in ast.walk(fn) if isinstance(n, ast.While)]


def unmerge_aliases(fn: ast.FunctionDef, want: List[str]) -> None:
    """(u') `if c: a = E1 else: a = E2` followed by REST, where `a` is a local the reference function does not have and E1 / E2 are plain
    names / attributes / constants, is `if c: REST[a := E1] else: REST[a := E2]` (undoes "merge the two direction arms by selecting the
    containers first": an alias is the object itself)."""
    def simple(e):
        return all(isinstance(x, (ast.Name, ast.Attribute, ast.Constant, ast.Subscript, ast.Load, ast.Slice, ast.expr_context)) for x in ast.walk(e))
    for _round in range(4):
        stores: Dict[str, int] = {}
        for n in ast.walk(fn):
            if isinstance(n, ast.Name) and isinstance(n.ctx, (ast.Store, ast.Del)):
                stores[n.id] = stores.get(n.id, 0) + 1
        done = False
        for p in ast.walk(fn):
            for fld in ("body", "orelse", "finalbody"):
                lst = getattr(p, fld, None)
                if not isinstance(lst, list):
                    continue
                for i, st in enumerate(lst[:-1]):
                    if isinstance(st, ast.Assign) and len(st.targets) == 1 and isinstance(st.targets[0], ast.Name) and isinstance(st.value, ast.IfExp) \
                            and st.targets[0].id not in want and stores.get(st.targets[0].id) == 1 and simple(st.value.body) and simple(st.value.orelse):
                        # `a = E1 if c else E2` is the same selection written as an expression
                        st = ast.copy_location(ast.If(test=st.value.test, body=[ast.copy_location(ast.Assign(targets=[ast.Name(st.targets[0].id, ast.Store())], value=st.value.body), st)],
                                                      orelse=[ast.copy_location(ast.Assign(targets=[ast.Name(st.targets[0].id, ast.Store())], value=st.value.orelse), st)]), st)
                        ast.fix_missing_locations(st)
                        lst[i] = st
                        stores[st.body[0].targets[0].id] = 2
                    if not (isinstance(st, ast.If) and st.orelse and st.body):
                        continue
                    arms = []
                    for arm in (st.body, st.orelse):
                        m = {}
                        for a in arm:
                            if isinstance(a, ast.Assign) and len(a.targets) == 1 and isinstance(a.targets[0], ast.Name) and simple(a.value):
                                m[a.targets[0].id] = a.value
                            else:
                                m = None
                                break
                        arms.append(m)
                    if arms[0] is None or arms[1] is None or set(arms[0]) != set(arms[1]) or not arms[0]:
                        continue
                    names = set(arms[0])
                    if any(n in want or stores.get(n) != 2 for n in names):
                        continue
                    # the selected values must not be rebound by REST (an alias of `self.x` is only the same object while self.x is not re-assigned)
                    rest = lst[i + 1:]
                    vals = {ast.dump(v) for m in arms for v in m.values() if not isinstance(v, ast.Constant)}
                    if any(isinstance(x, (ast.Attribute, ast.Name)) and isinstance(x.ctx, ast.Store) and ast.dump(x).replace("Store()", "Load()") in vals for s_ in rest for x in ast.walk(s_)):
                        continue
                    # only as far as the aliases are used (plus a short tail, which the reference usually has inside the arms as well): the statements
                    # behind that do not depend on the selection and stay where they are
                    last_use = max((k_ for k_, s_ in enumerate(rest) if any(isinstance(x, ast.Name) and x.id in names for x in ast.walk(s_))), default=-1)
                    if last_use < 0:
                        continue
                    has_exit = any(isinstance(x, (ast.Return, ast.Raise)) for s_ in rest[:last_use + 1] for x in ast.walk(s_))
                    cut = len(rest) if has_exit and len(rest) - (last_use + 1) <= 2 else last_use + 1
                    moved, kept = rest[:cut], rest[cut:]
                    new = ast.If(test=st.test, body=_subst(copy.deepcopy(moved), arms[0]), orelse=_subst(copy.deepcopy(moved), arms[1]))
                    ast.copy_location(new, st)
                    ast.fix_missing_locations(new)
                    from .canon import _Canon
                    new = _Canon().visit_If(new)
                    lst[i:] = [new] + kept
                    ast.fix_missing_locations(new)
                    done = True
                    break
                if done:
                    break
            if done:
                break
        if not done:
            return


def with_tail_temps(fn: ast.FunctionDef, want: List[str]) -> None:
    """(f'') `with ctx as f: t = E(f)` directly followed by the single read of the new local t: the read is substituted (the context manager only
    adds the release of the resource; what is computed from what is unchanged)."""
    stores: Dict[str, int] = {}
    loads: Dict[str, int] = {}
    for n in ast.walk(fn):
        if isinstance(n, ast.Name):
            d = stores if isinstance(n.ctx, (ast.Store, ast.Del)) else loads
            d[n.id] = d.get(n.id, 0) + 1
    for p in ast.walk(fn):
        for fld in ("body", "orelse", "finalbody"):
            lst = getattr(p, fld, None)
            if not isinstance(lst, list):
                continue
            for i, st in enumerate(lst[:-1]):
                if not (isinstance(st, ast.With) and st.body and isinstance(st.body[-1], ast.Assign) and len(st.body[-1].targets) == 1 and isinstance(st.body[-1].targets[0], ast.Name)):
                    continue
                a = st.body[-1]
                nm = a.targets[0].id
                if nm in want or stores.get(nm) != 1 or loads.get(nm) != 1:
                    continue
                nxt = lst[i + 1]
                if isinstance(nxt, (ast.For, ast.While, ast.If, ast.With, ast.Try, ast.FunctionDef, ast.ClassDef, ast.Match)):
                    continue
                if sum(1 for x in ast.walk(nxt) if isinstance(x, ast.Name) and x.id == nm) != 1:
                    continue
                lst[i + 1] = _Subst({nm: a.value}).visit(nxt)
                st.body = st.body[:-1] or [ast.copy_location(ast.Pass(), a)]
                # `with open(..) as f: pass` + use of f afterwards: bind the resource as a plain assignment so that later rules see `f = open(..)`
                if len(st.items) == 1 and isinstance(st.items[0].optional_vars, ast.Name) and isinstance(st.body[0], ast.Pass) and len(st.body) == 1:
                    lst[i] = ast.copy_location(ast.Assign(targets=[st.items[0].optional_vars], value=st.items[0].context_expr), st)
                ast.fix_missing_locations(lst[i])
                return

"""Finite-domain guard evaluation: evaluates the *guards* of if/elif/match chains of the analysed source over
an enumerated domain of symbolic values (qualified names of classes / enum members, literal constants),
to turn a dispatch chain into a decision table. No repo code is executed."""
from __future__ import annotations

import ast
from typing import Any, Dict, List, Optional, Tuple

from .core import Tree, Module, dotted
from .norm import fold, NotConst


class Unknown(Exception):
    pass


class Sym(str):
    """Symbolic reference to a named entity (qualified name)."""
    def __repr__(self):
        return "Sym(" + str.__repr__(self) + ")"


def ref_of(tree: Tree, m: Module, e: ast.AST) -> Optional[Sym]:
    q = tree.qualname_of(m, e)
    if q is None:
        return None
    return Sym(q)


def value_of(tree: Tree, m: Module, e: ast.AST, env: Dict[str, Any]):
    d = dotted(e)
    if d is not None and d in env:
        return env[d]
    if env and not isinstance(e, (ast.Name, ast.Constant)):
        try:
            txt = " ".join(ast.unparse(e).split())
        except Exception:
            txt = None
        if txt is not None and txt in env:
            return env[txt]
    try:
        return fold(e)
    except NotConst:
        pass
    if isinstance(e, ast.Tuple):
        return tuple(value_of(tree, m, x, env) for x in e.elts)
    if isinstance(e, ast.List):
        return [value_of(tree, m, x, env) for x in e.elts]
    r = ref_of(tree, m, e)
    if r is not None:
        return r
    raise Unknown(ast.dump(e)[:80])


def geval(tree: Tree, m: Module, e: ast.AST, env: Dict[str, Any]) -> bool:
    """Evaluate a guard. Raises Unknown if it mentions something outside env / constants."""
    if isinstance(e, ast.BoolOp):
        vals = [geval(tree, m, v, env) for v in e.values]
        return all(vals) if isinstance(e.op, ast.And) else any(vals)
    if isinstance(e, ast.UnaryOp) and isinstance(e.op, ast.Not):
        return not geval(tree, m, e.operand, env)
    if isinstance(e, ast.Compare):
        left = value_of(tree, m, e.left, env)
        for op, comp in zip(e.ops, e.comparators):
            right = value_of(tree, m, comp, env)
            if isinstance(op, (ast.Eq, ast.Is)):
                ok = left == right
            elif isinstance(op, (ast.NotEq, ast.IsNot)):
                ok = left != right
            elif isinstance(op, ast.In):
                ok = left in right
            elif isinstance(op, ast.NotIn):
                ok = left not in right
            elif isinstance(op, ast.Lt):
                ok = left < right
            elif isinstance(op, ast.LtE):
                ok = left <= right
            elif isinstance(op, ast.Gt):
                ok = left > right
            elif isinstance(op, ast.GtE):
                ok = left >= right
            else:
                raise Unknown("op")
            if not ok:
                return False
            left = right
        return True
    v = value_of(tree, m, e, env)
    return bool(v)


def pattern_matches(tree: Tree, m: Module, p: ast.pattern, subject) -> bool:
    if isinstance(p, ast.MatchValue):
        try:
            v = value_of(tree, m, p.value, {})
        except Unknown:
            raise
        return v == subject
    if isinstance(p, ast.MatchOr):
        return any(pattern_matches(tree, m, q, subject) for q in p.patterns)
    if isinstance(p, ast.MatchAs):
        if p.pattern is None:
            return True
        return pattern_matches(tree, m, p.pattern, subject)
    if isinstance(p, ast.MatchSingleton):
        return subject is p.value
    raise Unknown("pattern")


def select_case(tree: Tree, m: Module, node: ast.Match, subject, env=None) -> Optional[ast.match_case]:
    for c in node.cases:
        if pattern_matches(tree, m, c.pattern, subject):
            if c.guard is not None and not geval(tree, m, c.guard, env or {}):
                continue
            return c
    return None

"""Catalogue of self-test variants (see selftest.py). Each is an AST-computed single edit of the current tree."""
from __future__ import annotations

import ast
import copy

from .core import dotted
from .selftest import (variant, get_func, edit_first, is_aug, is_assign_to, parse_stmt, parse_expr,
                       rename_local, swap_if_else)

CSP = "tlexport/cipher_suite_parser.py"
DEC = "tlexport/decryptor.py"
SES = "tlexport/session.py"
MAIN = "tlexport/main.py"
KD = "tlexport/key_derivator.py"
OB = "tlexport/output_builder.py"
CHK = "tlexport/checksums.py"
KLR = "tlexport/keylog_reader.py"
DSB = "tlexport/dpkt_dsb.py"
QS = "tlexport/quic/quic_session.py"
QD = "tlexport/quic/quic_dissector.py"
QF = "tlexport/quic/quic_frame.py"
QOB = "tlexport/quic/quic_output_builder.py"
QKG = "tlexport/quic/quic_key_generation.py"
QTP = "tlexport/quic/quic_tls_parser.py"
QDEC = "tlexport/quic/quic_decryptor.py"
QDC = "tlexport/quic/quic_decode.py"


def _dict_assign(mod, name):
    for st in mod.body:
        if isinstance(st, ast.Assign) and isinstance(st.targets[0], ast.Name) and st.targets[0].id == name:
            return st.value
    return None


# ------------------------------------------------------------------ C14
@variant("c14-codepoint-typo", "break", ["C14"], CSP, "T1", "row-", "one code point changed to an unassigned neighbour")
def _(mod):
    d = _dict_assign(mod, "cipher_suites")
    for k in d.keys:
        if k.value == b"\xc0\x2f":
            k.value = b"\xc0\x2e"
            return True


@variant("c14-sha-before-sha256", "break", ["C14"], CSP, "T2", "resolve:", "MAC sub-table reordered: SHA before SHA256/SHA384")
def _(mod):
    d = _dict_assign(mod, "cipher_suite_parts")
    for k, v in zip(d.keys, d.values):
        if k.value == "MAC":
            i = [x.value for x in v.keys].index("SHA")
            for lst in (v.keys, v.values):
                lst.insert(0, lst.pop(i))
            return True


@variant("c14-get-default", "break", ["C14"], CSP, "T2", "exact-lookup", "lookup replaced by .get with a default name")
def _(mod):
    f = get_func(mod, "split_cipher_suite")
    def ed(n):
        return parse_stmt("suite_string = cipher_suites.get(suite_id, 'TLS_RSA_WITH_AES_128_CBC_SHA')")
    return edit_first(f, lambda n: isinstance(n, ast.Try), ed)


@variant("c14-no-break", "break", ["C14"], CSP, "T2", "resolve:", "break removed: last match wins")
def _(mod):
    f = get_func(mod, "split_cipher_suite")
    return edit_first(f, lambda n: isinstance(n, ast.Break), lambda n: None)


@variant("c14-preserve-rename", "preserve", ["C14"], CSP, desc="rename locals of the resolver")
def _(mod):
    f = get_func(mod, "split_cipher_suite")
    return rename_local(f, "suite_string", "name") and rename_local(f, "p", "needle")


@variant("c14-preserve-subscript-update", "preserve", ["C14"], CSP, desc="update({part: v}) -> cipher_suite[part] = v")
def _(mod):
    f = get_func(mod, "split_cipher_suite")
    def pred(n):
        return (isinstance(n, ast.Expr) and isinstance(n.value, ast.Call) and isinstance(n.value.func, ast.Attribute)
                and n.value.func.attr == "update" and isinstance(n.value.args[0], ast.Dict))
    def ed(n):
        d = n.value.args[0]
        return ast.Assign(targets=[ast.Subscript(value=n.value.func.value, slice=d.keys[0], ctx=ast.Store())], value=d.values[0])
    ok = False
    while edit_first(f, pred, ed):
        ok = True
    return ok


# ------------------------------------------------------------------ C05
@variant("c05-dedupe-wrong-list", "break", ["C05"], SES, "A9", "dedupe", "client arm records its sequence numbers in the server list")
def _(mod):
    f = get_func(mod, "Session.handle_packet")
    def pred(n):
        return (isinstance(n, ast.Expr) and isinstance(n.value, ast.Call) and dotted(n.value.func) == "self.seen_packets_client.append")
    return edit_first(f, pred, lambda n: parse_stmt("self.seen_packets_server.append(sequence)"))


@variant("c05-drop-empty-skip", "break", ["C05"], MAIN, "A6a", "empty-segment", "empty-segment continue removed in the TCP arm")
def _(mod):
    f = get_func(mod, "run")
    def pred(n):
        return isinstance(n, ast.If) and "tls_data" in ast.unparse(n.test) and any(isinstance(x, ast.Continue) for x in n.body)
    return edit_first(f, pred, lambda n: None)


@variant("c05-need-data-always-false", "break", ["C05", "C08"], SES, "FR", "whole-records", "short remainder treated as complete")
def _(mod):
    f = get_func(mod, "Session.extract_server_buf")
    def pred(n):
        return isinstance(n, ast.Assign) and dotted(n.targets[0]) == "need_data" and isinstance(n.value, ast.Constant) and n.value.value is True
    def ed(n):
        n.value = ast.Constant(False)
        return n
    return edit_first(f, pred, ed)


@variant("c05-overlap-off-by-one", "break", ["C05", "C07"], SES, "FR", "overlap", "overlap test uses <= for the start (attributes the previous packet too)")
def _(mod):
    f = get_func(mod, "Session.extract_client_buf")
    def pred(n):
        return isinstance(n, ast.Compare) and ast.unparse(n) == "index < packet_range[1]"
    def ed(n):
        n.ops = [ast.LtE()]
        return n
    return edit_first(f, pred, ed)


@variant("c05-preserve-swap-arms", "preserve", ["C05"], SES, desc="handle_packet: if/else swapped with negated test")
def _(mod):
    f = get_func(mod, "Session.handle_packet")
    return edit_first(f, lambda n: isinstance(n, ast.If) and "server_ip" in ast.unparse(n.test), swap_if_else)


# ------------------------------------------------------------------ C09
@variant("c09-label-too-long", "break", ["C09"], KLR, "E2a", "label:", "label repeat bound 3..24 excludes *_HANDSHAKE_TRAFFIC_SECRET")
def _(mod):
    f = get_func(mod, "get_key_from_line")
    def pred(n):
        return isinstance(n, ast.Constant) and isinstance(n.value, str) and "{3,32}" in n.value
    def ed(n):
        n.value = n.value.replace("{3,32}", "{3,24}")
        return n
    return edit_first(f, pred, ed)


@variant("c09-no-cr-strip", "break", ["C09"], KLR, "E2b", "cr-strip", "CR removal dropped")
def _(mod):
    f = get_func(mod, "get_keys_from_string")
    def pred(n):
        return isinstance(n, ast.Assign) and isinstance(n.value, ast.Call) and isinstance(n.value.func, ast.Attribute) and n.value.func.attr == "replace"
    return edit_first(f, pred, lambda n: None)


@variant("c09-compare-no-lower", "break", ["C09", "C04"], SES, "D7", "client-random-match", "case normalisation removed on the key-log side")
def _(mod):
    f = get_func(mod, "Session.find_session_secrets")
    def pred(n):
        return isinstance(n, ast.Compare) and "client_random" in ast.unparse(n)
    def ed(n):
        n.left = parse_expr("secret.client_random")
        return n
    return edit_first(f, pred, ed)


@variant("c09-preserve-splitlines", "preserve", ["C09"], KLR, desc="replace+split -> splitlines()")
def _(mod):
    f = get_func(mod, "get_keys_from_string")
    ok1 = edit_first(f, lambda n: isinstance(n, ast.Assign) and isinstance(n.value, ast.Call) and getattr(n.value.func, "attr", "") == "replace", lambda n: None)
    ok2 = edit_first(f, lambda n: isinstance(n, ast.Assign) and isinstance(n.value, ast.Call) and getattr(n.value.func, "attr", "") == "split",
                     lambda n: parse_stmt("lines = key_str.splitlines()"))
    return ok1 and ok2


# ------------------------------------------------------------------ C10
@variant("c10-rewrite-unconditional", "break", ["C10"], OB, "D4", "port-rewrite-gate", "TLS builder rewrites the server port regardless of -m")
def _(mod):
    f = get_func(mod, "OutputBuilder.__init__")
    def pred(n):
        return isinstance(n, ast.If) and "keep_original_ports" in ast.unparse(n.test)
    return edit_first(f, pred, lambda n: n.body)


@variant("c10-session-any-port", "break", ["C10"], MAIN, "A6c", "session-creation-gate", "session created for any TCP packet")
def _(mod):
    f = get_func(mod, "handle_packet")
    def pred(n):
        return isinstance(n, ast.If) and "server_ports" in ast.unparse(n.test)
    return edit_first(f, pred, lambda n: n.body)


@variant("c10-roles-swapped", "break", ["C10", "C07"], SES, "B3b", "role-binding", "server := destination side when the source port is a server port")
def _(mod):
    f = get_func(mod, "Session.set_client_and_server_ports")
    def pred(n):
        return isinstance(n, ast.If) and "server_ports" in ast.unparse(n.test)
    def ed(n):
        n.body, n.orelse = n.orelse, n.body
        return n
    return edit_first(f, pred, ed)


# ------------------------------------------------------------------ C11
@variant("c11-fold-off-by-one", "break", ["C11"], CHK, "FOLD", "fold-guard", "fold guard > 0x10000 (two off)")
def _(mod):
    f = get_func(mod, "ones_complement_checksum")
    def ed(n):
        n.test = parse_expr("checksum > 65537")
        return n
    return edit_first(f, lambda n: isinstance(n, ast.While), ed)


@variant("c11-v6-length-width", "break", ["C11"], CHK, "T9c", "pseudo-header-v6", "IPv6 upper-layer length written as 2 bytes")
def _(mod):
    f = get_func(mod, "calculate_checksum_tcp")
    def pred(n):
        return isinstance(n, ast.Call) and ast.unparse(n) == "len(packet.tcp).to_bytes(4, 'big')"
    def ed(n):
        n.args[0] = ast.Constant(2)
        return n
    return edit_first(f, pred, ed)


@variant("c11-dispatch-ungated", "break", ["C11"], MAIN, "A6b", "checksum-gate", "TCP dispatch no longer tests the verdict")
def _(mod):
    f = get_func(mod, "run")
    def pred(n):
        return isinstance(n, ast.If) and ast.unparse(n.test) == "packet.tcp_packet and checksum_test"
    def ed(n):
        n.test = parse_expr("packet.tcp_packet")
        return n
    return edit_first(f, pred, ed)


# ------------------------------------------------------------------ C12
@variant("c12-swap-le-class", "break", ["C12"], DSB, "E3", "byte-order-site", "EPB classes swapped between the byte orders")
def _(mod):
    f = get_func(mod, "Reader.__iter__")
    def pred(n):
        return isinstance(n, ast.IfExp) and "EnhancedPacketBlockLE" in ast.unparse(n.body)
    def ed(n):
        n.body, n.orelse = n.orelse, n.body
        return n
    return edit_first(f, pred, ed)


@variant("c12-tsresol-mask", "break", ["C12"], DSB, "T9p", "tsresol", "exponent masked with 0x3f")
def _(mod):
    f = get_func(mod, "Reader.__init__")
    def pred(n):
        return isinstance(n, ast.BinOp) and isinstance(n.op, ast.BitAnd) and isinstance(n.right, ast.Constant) and n.right.value == 0x7f
    def ed(n):
        n.right = ast.Constant(0x3f)
        return n
    return edit_first(f, pred, ed)


@variant("c12-conditional-skip", "break", ["C12"], DSB, "T9p", "block-consumption", "block body only read for known block types")
def _(mod):
    f = get_func(mod, "Reader.__iter__")
    def pred(n):
        return isinstance(n, ast.AugAssign) and "read(blk_len - 8)" in ast.unparse(n)
    def ed(n):
        return ast.If(test=parse_expr("blk_type in (dpng.PCAPNG_BT_EPB, dpng.PCAPNG_BT_PB, PCAPNG_BT_DSB)"), body=[n], orelse=[])
    return edit_first(f, pred, ed)


# ------------------------------------------------------------------ C13
@variant("c13-stream-under-meta", "break", ["C13"], QOB, "D5", "stream-independent", "STREAM selection nested under `if metadata`")
def _(mod):
    f = get_func(mod, "QUICOutputbuilder.build")
    holder = {}
    def pred(n):
        return isinstance(n, ast.If) and "0x08" in ast.unparse(n.test).lower().replace("8,", "0x08,") or (isinstance(n, ast.If) and "frame.frame_type in" in ast.unparse(n.test))
    def ed(n):
        return ast.If(test=parse_expr("metadata"), body=[n], orelse=[])
    return edit_first(f, pred, ed)


@variant("c13-meta-touches-gate", "break", ["C13"], SES, "D5", "meta-dependent", "metadata branch also resets can_decrypt")
def _(mod):
    f = get_func(mod, "Session.handle_tls_record")
    def pred(n):
        return isinstance(n, ast.If) and ast.unparse(n.test) == "self.exp_meta"
    def ed(n):
        n.body.append(parse_stmt("self.can_decrypt = False"))
        return n
    return edit_first(f, pred, ed, nth=3)


# ------------------------------------------------------------------ C16
@variant("c16-le-to-lt", "break", ["C16"], QS, "E1", ":c1", "A.3 first window test <= changed to <")
def _(mod):
    f = get_func(mod, "QuicSession.get_full_packet_number")
    def pred(n):
        return isinstance(n, ast.Compare) and isinstance(n.ops[0], ast.LtE) and "candidate_pkn" in ast.unparse(n)
    def ed(n):
        n.ops = [ast.Lt()]
        return n
    return edit_first(f, pred, ed)


@variant("c16-expected-no-plus-one", "break", ["C16"], QS, "E1", "", "expected = largest (missing + 1)")
def _(mod):
    f = get_func(mod, "QuicSession.get_full_packet_number")
    def ed(n):
        n.value = parse_expr("largest_pkn")
        return n
    return edit_first(f, is_assign_to("expected_pkn"), ed)


@variant("c16-shared-space-split", "break", ["C16"], QS, "PNS", "spaces", "0-RTT mapped to its own space")
def _(mod):
    d = _dict_assign(mod, "PACKET_TYPE_MAP")
    for k, v in zip(d.keys, d.values):
        if ast.unparse(k).endswith("RTT_O"):
            d.values[d.keys.index(k)] = parse_expr("(QuicPacketType.RTT_O,)")
            return True


@variant("c16-preserve-shift", "preserve", ["C16"], QS, desc="len*8 -> len<<3 and window>>1 style rewrites keep the normal form")
def _(mod):
    f = get_func(mod, "QuicSession.get_full_packet_number")
    def ed(n):
        n.value = parse_expr("truncated_pkn_len << 3")
        return n
    return edit_first(f, is_assign_to("pkn_len_bits"), ed)


@variant("c16-preserve-inline", "preserve", ["C16"], QS, desc="mask temporary inlined")
def _(mod):
    f = get_func(mod, "QuicSession.get_full_packet_number")
    def ed(n):
        n.value = parse_expr("(expected_pkn & ~(pkn_window - 1)) | truncated_pkn")
        return n
    return edit_first(f, is_assign_to("candidate_pkn"), ed)


# ------------------------------------------------------------------ C18
@variant("c18-time-call", "break", ["C18"], OB, "D6b", "nondeterminism", "builder stamps packets with time.time()")
def _(mod):
    f = get_func(mod, "OutputBuilder.build")
    mod.body.insert(0, ast.Import(names=[ast.alias(name="time")]))
    def ed(n):
        return [n, parse_stmt("self.ts_zero = self.ts_zero or time.time()")]
    return edit_first(f, is_assign_to("self.ts_zero"), ed)


@variant("c18-class-level-cache", "break", ["C18", "C04"], "tlexport/decryptor.py", "D6a", "ownership", "class-level dict shared by all Decryptor instances")
def _(mod):
    for st in mod.body:
        if isinstance(st, ast.ClassDef) and st.name == "Decryptor":
            st.body.insert(0, parse_stmt("_cipher_cache = {}"))
            return True

"""Catalogue of self-test variants (see selftest.py). Each is an AST-computed single edit of the current tree."""
from __future__ import annotations

import ast
import copy

from .core import dotted
from .selftest import (variant, get_func, edit_first, is_aug, is_assign_to, parse_stmt, parse_expr,
                       rename_local, swap_if_else)

CSP = "tlexport/cipher_suite_parser.py"
DEC = "tlexport/decryptor.py"
SES = "tlexport/session.py"
MAIN = "tlexport/main.py"
KD = "tlexport/key_derivator.py"
OB = "tlexport/output_builder.py"
CHK = "tlexport/checksums.py"
KLR = "tlexport/keylog_reader.py"
DSB = "tlexport/dpkt_dsb.py"
QS = "tlexport/quic/quic_session.py"
QD = "tlexport/quic/quic_dissector.py"
QF = "tlexport/quic/quic_frame.py"
QOB = "tlexport/quic/quic_output_builder.py"
QKG = "tlexport/quic/quic_key_generation.py"
QTP = "tlexport/quic/quic_tls_parser.py"
QDEC = "tlexport/quic/quic_decryptor.py"
QDC = "tlexport/quic/quic_decode.py"


def _dict_assign(mod, name):
    for st in mod.body:
        if isinstance(st, ast.Assign) and isinstance(st.targets[0], ast.Name) and st.targets[0].id == name:
            return st.value
    return None


# ------------------------------------------------------------------ C14
@variant("c14-codepoint-typo", "break", ["C14"], CSP, "T1", "row-", "one code point changed to an unassigned neighbour")
def _(mod):
    d = _dict_assign(mod, "cipher_suites")
    for k in d.keys:
        if k.value == b"\xc0\x2f":
            k.value = b"\xc0\x2e"
            return True


@variant("c14-sha-before-sha256", "break", ["C14"], CSP, "T2", "resolve:", "MAC sub-table reordered: SHA before SHA256/SHA384")
def _(mod):
    d = _dict_assign(mod, "cipher_suite_parts")
    for k, v in zip(d.keys, d.values):
        if k.value == "MAC":
            i = [x.value for x in v.keys].index("SHA")
            for lst in (v.keys, v.values):
                lst.insert(0, lst.pop(i))
            return True


@variant("c14-get-default", "break", ["C14"], CSP, "T2", "exact-lookup", "lookup replaced by .get with a default name")
def _(mod):
    f = get_func(mod, "split_cipher_suite")
    def ed(n):
        return parse_stmt("suite_string = cipher_suites.get(suite_id, 'TLS_RSA_WITH_AES_128_CBC_SHA')")
    return edit_first(f, lambda n: isinstance(n, ast.Try), ed)


@variant("c14-no-break", "break", ["C14"], CSP, "T2", "resolve:", "break removed: last match wins")
def _(mod):
    f = get_func(mod, "split_cipher_suite")
    return edit_first(f, lambda n: isinstance(n, ast.Break), lambda n: None)


@variant("c14-preserve-rename", "preserve", ["C14"], CSP, desc="rename locals of the resolver")
def _(mod):
    f = get_func(mod, "split_cipher_suite")
    return rename_local(f, "suite_string", "name") and rename_local(f, "p", "needle")


@variant("c14-preserve-subscript-update", "preserve", ["C14"], CSP, desc="update({part: v}) -> cipher_suite[part] = v")
def _(mod):
    f = get_func(mod, "split_cipher_suite")
    def pred(n):
        return (isinstance(n, ast.Expr) and isinstance(n.value, ast.Call) and isinstance(n.value.func, ast.Attribute)
                and n.value.func.attr == "update" and isinstance(n.value.args[0], ast.Dict))
    def ed(n):
        d = n.value.args[0]
        return ast.Assign(targets=[ast.Subscript(value=n.value.func.value, slice=d.keys[0], ctx=ast.Store())], value=d.values[0])
    ok = False
    while edit_first(f, pred, ed):
        ok = True
    return ok

"""Catalogue of self-test variants (see selftest.py). Each is an AST-computed single edit of the current tree."""
from __future__ import annotations

import ast
import copy

from .core import dotted
from .selftest import (variant, get_func, edit_first, is_aug, is_assign_to, parse_stmt, parse_expr,
                       rename_local, swap_if_else)

CSP = "tlexport/cipher_suite_parser.py"
DEC = "tlexport/decryptor.py"
SES = "tlexport/session.py"
MAIN = "tlexport/main.py"
KD = "tlexport/key_derivator.py"
OB = "tlexport/output_builder.py"
CHK = "tlexport/checksums.py"
KLR = "tlexport/keylog_reader.py"
DSB = "tlexport/dpkt_dsb.py"
QS = "tlexport/quic/quic_session.py"
QD = "tlexport/quic/quic_dissector.py"
QF = "tlexport/quic/quic_frame.py"
QOB = "tlexport/quic/quic_output_builder.py"
QKG = "tlexport/quic/quic_key_generation.py"
QTP = "tlexport/quic/quic_tls_parser.py"
QDEC = "tlexport/quic/quic_decryptor.py"
QDC = "tlexport/quic/quic_decode.py"


def _dict_assign(mod, name):
    for st in mod.body:
        if isinstance(st, ast.Assign) and isinstance(st.targets[0], ast.Name) and st.targets[0].id == name:
            return st.value
    return None


# ------------------------------------------------------------------ C14
@variant("c14-codepoint-typo", "break", ["C14"], CSP, "T1", "row-", "one code point changed to an unassigned neighbour")
def _(mod):
    d = _dict_assign(mod, "cipher_suites")
    for k in d.keys:
        if k.value == b"\xc0\x2f":
            k.value = b"\xc0\x2e"
            return True


@variant("c14-sha-before-sha256", "break", ["C14"], CSP, "T2", "resolve:", "MAC sub-table reordered: SHA before SHA256/SHA384")
def _(mod):
    d = _dict_assign(mod, "cipher_suite_parts")
    for k, v in zip(d.keys, d.values):
        if k.value == "MAC":
            i = [x.value for x in v.keys].index("SHA")
            for lst in (v.keys, v.values):
                lst.insert(0, lst.pop(i))
            return True


@variant("c14-get-default", "break", ["C14"], CSP, "T2", "exact-lookup", "lookup replaced by .get with a default name")
def _(mod):
    f = get_func(mod, "split_cipher_suite")
    def ed(n):
        return parse_stmt("suite_string = cipher_suites.get(suite_id, 'TLS_RSA_WITH_AES_128_CBC_SHA')")
    return edit_first(f, lambda n: isinstance(n, ast.Try), ed)


@variant("c14-no-break", "break", ["C14"], CSP, "T2", "resolve:", "break removed: last match wins")
def _(mod):
    f = get_func(mod, "split_cipher_suite")
    return edit_first(f, lambda n: isinstance(n, ast.Break), lambda n: None)


@variant("c14-preserve-rename", "preserve", ["C14"], CSP, desc="rename locals of the resolver")
def _(mod):
    f = get_func(mod, "split_cipher_suite")
    return rename_local(f, "suite_string", "name") and rename_local(f, "p", "needle")


@variant("c14-preserve-subscript-update", "preserve", ["C14"], CSP, desc="update({part: v}) -> cipher_suite[part] = v")
def _(mod):
    f = get_func(mod, "split_cipher_suite")
    def pred(n):
        return (isinstance(n, ast.Expr) and isinstance(n.value, ast.Call) and isinstance(n.value.func, ast.Attribute)
                and n.value.func.attr == "update" and isinstance(n.value.args[0], ast.Dict))
    def ed(n):
        d = n.value.args[0]
        return ast.Assign(targets=[ast.Subscript(value=n.value.func.value, slice=d.keys[0], ctx=ast.Store())], value=d.values[0])
    ok = False
    while edit_first(f, pred, ed):
        ok = True
    return ok


# ------------------------------------------------------------------ C05
@variant("c05-dedupe-wrong-list", "break", ["C05"], SES, "A9", "dedupe", "client arm records its sequence numbers in the server list")
def _(mod):
    f = get_func(mod, "Session.handle_packet")
    def pred(n):
        return (isinstance(n, ast.Expr) and isinstance(n.value, ast.Call) and dotted(n.value.func) == "self.seen_packets_client.append")
    return edit_first(f, pred, lambda n: parse_stmt("self.seen_packets_server.append(sequence)"))


@variant("c05-drop-empty-skip", "break", ["C05"], MAIN, "A6a", "empty-segment", "empty-segment continue removed in the TCP arm")
def _(mod):
    f = get_func(mod, "run")
    def pred(n):
        return isinstance(n, ast.If) and "tls_data" in ast.unparse(n.test) and any(isinstance(x, ast.Continue) for x in n.body)
    return edit_first(f, pred, lambda n: None)


@variant("c05-need-data-always-false", "break", ["C05", "C08"], SES, "FR", "whole-records", "short remainder treated as complete")
def _(mod):
    f = get_func(mod, "Session.extract_server_buf")
    def pred(n):
        return isinstance(n, ast.Assign) and dotted(n.targets[0]) == "need_data" and isinstance(n.value, ast.Constant) and n.value.value is True
    def ed(n):
        n.value = ast.Constant(False)
        return n
    return edit_first(f, pred, ed)


@variant("c05-overlap-off-by-one", "break", ["C05", "C07"], SES, "FR", "overlap", "overlap test uses <= for the start (attributes the previous packet too)")
def _(mod):
    f = get_func(mod, "Session.extract_client_buf")
    def pred(n):
        return isinstance(n, ast.Compare) and ast.unparse(n) == "index < packet_range[1]"
    def ed(n):
        n.ops = [ast.LtE()]
        return n
    return edit_first(f, pred, ed)


@variant("c05-preserve-swap-arms", "preserve", ["C05"], SES, desc="handle_packet: if/else swapped with negated test")
def _(mod):
    f = get_func(mod, "Session.handle_packet")
    return edit_first(f, lambda n: isinstance(n, ast.If) and "server_ip" in ast.unparse(n.test), swap_if_else)


# ------------------------------------------------------------------ C09
@variant("c09-label-too-long", "break", ["C09"], KLR, "E2a", "label:", "label repeat bound 3..24 excludes *_HANDSHAKE_TRAFFIC_SECRET")
def _(mod):
    f = get_func(mod, "get_key_from_line")
    def pred(n):
        return isinstance(n, ast.Constant) and isinstance(n.value, str) and "{3,32}" in n.value
    def ed(n):
        n.value = n.value.replace("{3,32}", "{3,24}")
        return n
    return edit_first(f, pred, ed)


@variant("c09-no-cr-strip", "break", ["C09"], KLR, "E2b", "cr-strip", "CR removal dropped")
def _(mod):
    f = get_func(mod, "get_keys_from_string")
    def pred(n):
        return isinstance(n, ast.Assign) and isinstance(n.value, ast.Call) and isinstance(n.value.func, ast.Attribute) and n.value.func.attr == "replace"
    return edit_first(f, pred, lambda n: None)


@variant("c09-compare-no-lower", "break", ["C09", "C04"], SES, "D7", "client-random-match", "case normalisation removed on the key-log side")
def _(mod):
    f = get_func(mod, "Session.find_session_secrets")
    def pred(n):
        return isinstance(n, ast.Compare) and "client_random" in ast.unparse(n)
    def ed(n):
        n.left = parse_expr("secret.client_random")
        return n
    return edit_first(f, pred, ed)


@variant("c09-preserve-splitlines", "preserve", ["C09"], KLR, desc="replace+split -> splitlines()")
def _(mod):
    f = get_func(mod, "get_keys_from_string")
    ok1 = edit_first(f, lambda n: isinstance(n, ast.Assign) and isinstance(n.value, ast.Call) and getattr(n.value.func, "attr", "") == "replace", lambda n: None)
    ok2 = edit_first(f, lambda n: isinstance(n, ast.Assign) and isinstance(n.value, ast.Call) and getattr(n.value.func, "attr", "") == "split",
                     lambda n: parse_stmt("lines = key_str.splitlines()"))
    return ok1 and ok2


# ------------------------------------------------------------------ C10
@variant("c10-rewrite-unconditional", "break", ["C10"], OB, "D4", "port-rewrite-gate", "TLS builder rewrites the server port regardless of -m")
def _(mod):
    f = get_func(mod, "OutputBuilder.__init__")
    def pred(n):
        return isinstance(n, ast.If) and "keep_original_ports" in ast.unparse(n.test)
    return edit_first(f, pred, lambda n: n.body)


@variant("c10-session-any-port", "break", ["C10"], MAIN, "A6c", "session-creation-gate", "session created for any TCP packet")
def _(mod):
    f = get_func(mod, "handle_packet")
    def pred(n):
        return isinstance(n, ast.If) and "server_ports" in ast.unparse(n.test)
    return edit_first(f, pred, lambda n: n.body)


@variant("c10-roles-swapped", "break", ["C10", "C07"], SES, "B3b", "role-binding", "server := destination side when the source port is a server port")
def _(mod):
    f = get_func(mod, "Session.set_client_and_server_ports")
    def pred(n):
        return isinstance(n, ast.If) and "server_ports" in ast.unparse(n.test)
    def ed(n):
        n.body, n.orelse = n.orelse, n.body
        return n
    return edit_first(f, pred, ed)


# ------------------------------------------------------------------ C11
@variant("c11-fold-off-by-one", "break", ["C11"], CHK, "FOLD", "fold-guard", "fold guard > 0x10000 (two off)")
def _(mod):
    f = get_func(mod, "ones_complement_checksum")
    def ed(n):
        n.test = parse_expr("checksum > 65537")
        return n
    return edit_first(f, lambda n: isinstance(n, ast.While), ed)


@variant("c11-v6-length-width", "break", ["C11"], CHK, "T9c", "pseudo-header-v6", "IPv6 upper-layer length written as 2 bytes")
def _(mod):
    f = get_func(mod, "calculate_checksum_tcp")
    def pred(n):
        return isinstance(n, ast.Call) and ast.unparse(n) == "len(packet.tcp).to_bytes(4, 'big')"
    def ed(n):
        n.args[0] = ast.Constant(2)
        return n
    return edit_first(f, pred, ed)


@variant("c11-dispatch-ungated", "break", ["C11"], MAIN, "A6b", "checksum-gate", "TCP dispatch no longer tests the verdict")
def _(mod):
    f = get_func(mod, "run")
    def pred(n):
        return isinstance(n, ast.If) and ast.unparse(n.test) == "packet.tcp_packet and checksum_test"
    def ed(n):
        n.test = parse_expr("packet.tcp_packet")
        return n
    return edit_first(f, pred, ed)


# ------------------------------------------------------------------ C12
@variant("c12-swap-le-class", "break", ["C12"], DSB, "E3", "byte-order-site", "EPB classes swapped between the byte orders")
def _(mod):
    f = get_func(mod, "Reader.__iter__")
    def pred(n):
        return isinstance(n, ast.IfExp) and "EnhancedPacketBlockLE" in ast.unparse(n.body)
    def ed(n):
        n.body, n.orelse = n.orelse, n.body
        return n
    return edit_first(f, pred, ed)


@variant("c12-tsresol-mask", "break", ["C12"], DSB, "T9p", "tsresol", "exponent masked with 0x3f")
def _(mod):
    f = get_func(mod, "Reader.__init__")
    def pred(n):
        return isinstance(n, ast.BinOp) and isinstance(n.op, ast.BitAnd) and isinstance(n.right, ast.Constant) and n.right.value == 0x7f
    def ed(n):
        n.right = ast.Constant(0x3f)
        return n
    return edit_first(f, pred, ed)


@variant("c12-conditional-skip", "break", ["C12"], DSB, "T9p", "block-consumption", "block body only read for known block types")
def _(mod):
    f = get_func(mod, "Reader.__iter__")
    def pred(n):
        return isinstance(n, ast.AugAssign) and "read(blk_len - 8)" in ast.unparse(n)
    def ed(n):
        return ast.If(test=parse_expr("blk_type in (dpng.PCAPNG_BT_EPB, dpng.PCAPNG_BT_PB, PCAPNG_BT_DSB)"), body=[n], orelse=[])
    return edit_first(f, pred, ed)


# ------------------------------------------------------------------ C13
@variant("c13-stream-under-meta", "break", ["C13"], QOB, "D5", "stream-independent", "STREAM selection nested under `if metadata`")
def _(mod):
    f = get_func(mod, "QUICOutputbuilder.build")
    holder = {}
    def pred(n):
        return isinstance(n, ast.If) and "0x08" in ast.unparse(n.test).lower().replace("8,", "0x08,") or (isinstance(n, ast.If) and "frame.frame_type in" in ast.unparse(n.test))
    def ed(n):
        return ast.If(test=parse_expr("metadata"), body=[n], orelse=[])
    return edit_first(f, pred, ed)


@variant("c13-meta-touches-gate", "break", ["C13"], SES, "D5", "meta-dependent", "metadata branch also resets can_decrypt")
def _(mod):
    f = get_func(mod, "Session.handle_tls_record")
    def pred(n):
        return isinstance(n, ast.If) and ast.unparse(n.test) == "self.exp_meta"
    def ed(n):
        n.body.append(parse_stmt("self.can_decrypt = False"))
        return n
    return edit_first(f, pred, ed, nth=3)


# ------------------------------------------------------------------ C16
@variant("c16-le-to-lt", "break", ["C16"], QS, "E1", ":c1", "A.3 first window test <= changed to <")
def _(mod):
    f = get_func(mod, "QuicSession.get_full_packet_number")
    def pred(n):
        return isinstance(n, ast.Compare) and isinstance(n.ops[0], ast.LtE) and "candidate_pkn" in ast.unparse(n)
    def ed(n):
        n.ops = [ast.Lt()]
        return n
    return edit_first(f, pred, ed)


@variant("c16-expected-no-plus-one", "break", ["C16"], QS, "E1", "", "expected = largest (missing + 1)")
def _(mod):
    f = get_func(mod, "QuicSession.get_full_packet_number")
    def ed(n):
        n.value = parse_expr("largest_pkn")
        return n
    return edit_first(f, is_assign_to("expected_pkn"), ed)


@variant("c16-shared-space-split", "break", ["C16"], QS, "PNS", "spaces", "0-RTT mapped to its own space")
def _(mod):
    d = _dict_assign(mod, "PACKET_TYPE_MAP")
    for k, v in zip(d.keys, d.values):
        if ast.unparse(k).endswith("RTT_O"):
            d.values[d.keys.index(k)] = parse_expr("(QuicPacketType.RTT_O,)")
            return True


@variant("c16-preserve-shift", "preserve", ["C16"], QS, desc="len*8 -> len<<3 and window>>1 style rewrites keep the normal form")
def _(mod):
    f = get_func(mod, "QuicSession.get_full_packet_number")
    def ed(n):
        n.value = parse_expr("truncated_pkn_len << 3")
        return n
    return edit_first(f, is_assign_to("pkn_len_bits"), ed)


@variant("c16-preserve-inline", "preserve", ["C16"], QS, desc="mask temporary inlined")
def _(mod):
    f = get_func(mod, "QuicSession.get_full_packet_number")
    def ed(n):
        n.value = parse_expr("(expected_pkn & ~(pkn_window - 1)) | truncated_pkn")
        return n
    return edit_first(f, is_assign_to("candidate_pkn"), ed)


# ------------------------------------------------------------------ C18
@variant("c18-time-call", "break", ["C18"], OB, "D6b", "nondeterminism", "builder stamps packets with time.time()")
def _(mod):
    f = get_func(mod, "OutputBuilder.build")
    mod.body.insert(0, ast.Import(names=[ast.alias(name="time")]))
    def ed(n):
        return [n, parse_stmt("self.ts_zero = self.ts_zero or time.time()")]
    return edit_first(f, is_assign_to("self.ts_zero"), ed)


@variant("c18-class-level-cache", "break", ["C18", "C04"], "tlexport/decryptor.py", "D6a", "ownership", "class-level dict shared by all Decryptor instances")
def _(mod):
    for st in mod.body:
        if isinstance(st, ast.ClassDef) and st.name == "Decryptor":
            st.body.insert(0, parse_stmt("_cipher_cache = {}"))
            f = get_func(mod, "Decryptor.decrypt")
            f.body.insert(0, parse_stmt("self._cipher_cache[record.record_type] = isserver"))
            return True


# ------------------------------------------------------------------ C01
@variant("c01-drop-seq-increment", "break", ["C01"], DEC, "A5", "client-seq", "client sequence increment deleted in the TLS 1.2 AEAD method")
def _(mod):
    f = get_func(mod, "Decryptor.decrypt_tls12_aead")
    return edit_first(f, is_aug("self.client_seq"), lambda n: None)


@variant("c01-wrong-direction-iv", "break", ["C01"], DEC, "B1", "direction-site", "server arm of the TLS 1.3 AEAD method reads the client IV")
def _(mod):
    f = get_func(mod, "Decryptor.decrypt_tls13_aead")
    def ed(n):
        n.value = parse_expr("self.client_iv")
        return n
    return edit_first(f, lambda n: isinstance(n, ast.Assign) and ast.unparse(n) == "iv = self.server_iv", ed)


@variant("c01-seq-not-reset", "break", ["C01"], DEC, "A5", "switch", "update_keys keeps the handshake sequence number for the server")
def _(mod):
    f = get_func(mod, "Decryptor.update_keys")
    return edit_first(f, is_assign_to("self.server_seq"), lambda n: None)


@variant("c01-dispatch-order", "break", ["C01"], DEC, "T4", "TLS12:ChaCha20Poly1305", "generic stream branch tested before the TLS 1.2 ChaCha20 branch")
def _(mod):
    f = get_func(mod, "Decryptor.decrypt")
    top = f.body[-1] if isinstance(f.body[-1], ast.If) else next(s for s in f.body if isinstance(s, ast.If))
    chain = []
    n = top
    while True:
        chain.append(n)
        if len(n.orelse) == 1 and isinstance(n.orelse[0], ast.If):
            n = n.orelse[0]
        else:
            break
    i = next(k for k, c in enumerate(chain) if "decrypt_tls12_chacha20" in ast.unparse(c.body[0]))
    a, b = chain[i], chain[i + 1]
    a.test, b.test = b.test, a.test
    a.body, b.body = b.body, a.body
    return True


@variant("c01-residue-from-plaintext", "break", ["C01"], DEC, "A5", "residue", "CBC residue taken from the decrypted bytes")
def _(mod):
    f = get_func(mod, "Decryptor.decrypt_last_block_iv_cbc")
    def ed(n):
        n.value = parse_expr("decrypted[-index:]")
        return n
    return edit_first(f, is_assign_to("self.last_block_client"), ed)


@variant("c01-rc4-per-record", "break", ["C01"], DEC, "A5", "keystream", "RC4 context rebuilt for every record")
def _(mod):
    f = get_func(mod, "Decryptor.decrypt_generic_stream_cipher")
    def ed(n):
        n.value = parse_expr("Cipher(self.bulk_alg(self.server_key), mode=None).decryptor()")
        return n
    return edit_first(f, lambda n: isinstance(n, ast.Assign) and ast.unparse(n) == "cipher = self.server_cipher", ed)


@variant("c01-suite-offset", "break", ["C01"], SES, "T10", "ciphersuite", "cipher suite read one byte early")
def _(mod):
    f = get_func(mod, "Session.handle_tls_server_hello")
    def ed(n):
        n.value = parse_expr("record.binary[index - 1: index + 1]")
        return n
    return edit_first(f, is_assign_to("self.ciphersuite"), ed)


@variant("c01-version-swap", "break", ["C01"], SES, "T10", "version-decision", "0x0302 mapped to TLS 1.0")
def _(mod):
    f = get_func(mod, "Session.handle_tls_server_hello")
    def pred(n):
        return isinstance(n, ast.Assign) and ast.unparse(n) == "self.tls_version = TlsVersion.TLS11"
    def ed(n):
        n.value = parse_expr("TlsVersion.TLS10")
        return n
    return edit_first(f, pred, ed)


@variant("c01-finished-type", "break", ["C01"], SES, "T4t", "finished-switch", "key switch triggered by handshake type 11 (Certificate)")
def _(mod):
    f = get_func(mod, "Session.handle_decrypted_tls_13_handshake_record")
    def pred(n):
        return isinstance(n, ast.Compare) and ast.unparse(n) == "handshake_type == 20"
    def ed(n):
        n.comparators = [ast.Constant(11)]
        return n
    return edit_first(f, pred, ed)


@variant("c01-no-padding-strip", "break", ["C01"], SES, "PAD", "padding-strip", "rstrip of TLS 1.3 padding removed")
def _(mod):
    f = get_func(mod, "Session.handle_tls_13_application_record")
    return edit_first(f, lambda n: isinstance(n, ast.Assign) and "rstrip" in ast.unparse(n), lambda n: None)


@variant("c01-gate-dropped", "break", ["C01", "C03"], SES, "A4", "gate", "application records decrypted without testing can_decrypt")
def _(mod):
    f = get_func(mod, "Session.handle_tls_record")
    def pred(n):
        return isinstance(n, ast.If) and ast.unparse(n.test) == "self.can_decrypt and self.decryptor is not None"
    def ed(n):
        n.test = parse_expr("self.decryptor is not None")
        return n
    return edit_first(f, pred, ed)


@variant("c01-preserve-seq-rewrite", "preserve", ["C01"], DEC, desc="x += 1 kept; locals renamed in an AEAD method")
def _(mod):
    f = get_func(mod, "Decryptor.decrypt_tls13_aead")
    return rename_local(f, "decrypted", "plain") and rename_local(f, "associated_data", "aad")


@variant("c01-preserve-swap-arms", "preserve", ["C01"], DEC, desc="if isserver arms swapped with negated test in the TLS 1.2 ChaCha method")
def _(mod):
    f = get_func(mod, "Decryptor.decrypt_tls12_chacha20")
    ok = False
    for k in (2, 1):
        ok = edit_first(f, lambda n: isinstance(n, ast.If) and ast.unparse(n.test) == "isserver", swap_if_else, nth=k) or ok
    return ok


# ------------------------------------------------------------------ C02
@variant("c02-merge-without-ts", "break", ["C02", "C07", "C08"], QOB, "D8", "merge#1", "equal packet-number bytes merge frames regardless of capture time")
def _(mod):
    f = get_func(mod, "QUICOutputbuilder.build")
    def pred(n):
        return isinstance(n, ast.If) and "packet_num == pn" in ast.unparse(n.test)
    def ed(n):
        n.test = parse_expr("frame.src_packet.packet_num == pn")
        return n
    return edit_first(f, pred, ed)


@variant("c02-aad-swap", "break", ["C02"], QS, "T9a", "aad:short", "short-header AAD concatenated as first_byte + packet_num + dcid")
def _(mod):
    f = get_func(mod, "QuicSession.decrypt_packet")
    def pred(n):
        return isinstance(n, ast.Assign) and ast.unparse(n) == "associated_data = quic_packet.first_byte + quic_packet.dcid + quic_packet.packet_num"
    def ed(n):
        n.value = parse_expr("quic_packet.first_byte + quic_packet.packet_num + quic_packet.dcid")
        return n
    return edit_first(f, pred, ed)


@variant("c02-hp-key-role", "break", ["C02"], QD, "T5q", "key-role", "handshake packets of the server unmasked with the client key")
def _(mod):
    f = get_func(mod, "extract_quic_packet")
    def pred(n):
        return isinstance(n, ast.Constant) and n.value == "server_handshake_hp"
    def ed(n):
        n.value = "client_handshake_hp"
        return n
    return edit_first(f, pred, ed)


@variant("c02-sample-offset", "break", ["C02"], QD, "T9h", "sample", "sample taken at pn_offset + 3 for short headers")
def _(mod):
    f = get_func(mod, "extract_quic_packet")
    def ed(n):
        n.value = parse_expr("pn_offset + 3")
        return n
    return edit_first(f, is_assign_to("sample_offset"), ed, nth=3)


@variant("c02-epoch-cross", "break", ["C02"], QS, "T5q", "decryptor-selection", "server packets decrypted with the client's epoch")
def _(mod):
    f = get_func(mod, "QuicSession.decrypt_packet")
    def pred(n):
        return isinstance(n, ast.Assign) and ast.unparse(n) == "decryptor = self.decryptors['Application'][self.epoch_server]"
    def ed(n):
        n.value = parse_expr("self.decryptors['Application'][self.epoch_client]")
        return n
    return edit_first(f, pred, ed)


@variant("c02-empty-cid-match", "break", ["C02", "C04"], MAIN, "D7b", "nonempty-cid", "short-header scan accepts zero-length connection IDs again")
def _(mod):
    f = get_func(mod, "handle_quic_packet")
    def pred(n):
        return isinstance(n, ast.If) and ast.unparse(n.test).startswith("cid and cid ==")
    def ed(n):
        n.test = n.test.values[1]
        return n
    return edit_first(f, pred, ed)


@variant("c02-key-update-first-generation", "break", ["C02"], QS, "EPO", "next-generation", "key update derived from generation 0 instead of the last")
def _(mod):
    f = get_func(mod, "QuicSession.check_key_epoch")
    def pred(n):
        return isinstance(n, ast.Subscript) and ast.unparse(n) == "self.decryptors['Application'][-1]"
    def ed(n):
        n.slice = ast.Constant(0)
        return n
    return edit_first(f, pred, ed)


# ------------------------------------------------------------------ C03
@variant("c03-narrow-handler", "break", ["C03"], MAIN, "A1", "capture-loop", "per-packet handler narrowed to ValueError")
def _(mod):
    f = get_func(mod, "run")
    def pred(n):
        return isinstance(n, ast.ExceptHandler)
    def ed(n):
        n.type = ast.Name("ValueError", ast.Load())
        return n
    return edit_first(f, pred, ed)


@variant("c03-packet-outside-try", "break", ["C03"], MAIN, "A1", "capture-loop", "Packet(buf, ts) moved out of the per-packet try")
def _(mod):
    f = get_func(mod, "run")
    loop = next(n for n in ast.walk(f) if isinstance(n, ast.For) and ast.unparse(n.iter) == "pcap_reader")
    tr = next(s for s in loop.body if isinstance(s, ast.Try))
    st = tr.body.pop(0)
    loop.body.insert(0, st)
    return True


@variant("c03-session-loop-unprotected", "break", ["C03", "C06"], MAIN, "A1", "tls-finalisation-loop", "try removed from the session export loop")
def _(mod):
    f = get_func(mod, "run")
    loop = next(n for n in ast.walk(f) if isinstance(n, ast.For) and ast.unparse(n.iter) == "sessions")
    tr = loop.body[0]
    loop.body = tr.body
    return True


@variant("c03-record-try-removed", "break", ["C03", "C08"], SES, "A1r", "get_tls_records", "both containment layers removed from get_tls_records")
def _(mod):
    f = get_func(mod, "Session.get_tls_records")
    changed = False
    for _ in range(4):
        for n in ast.walk(f):
            for fld in ("body", "orelse"):
                lst = getattr(n, fld, None)
                if isinstance(lst, list):
                    for i, s in enumerate(lst):
                        if isinstance(s, ast.Try):
                            lst[i:i + 1] = s.body
                            changed = True
    return changed


@variant("c03-stalling-extension-loop", "break", ["C03"], SES, "A2", "handle_tls_server_hello", "extension walk advances by the body length only (0 for empty extensions)")
def _(mod):
    f = get_func(mod, "Session.handle_tls_server_hello")
    def ed(n):
        n.value = parse_expr("extension_length")
        return n
    return edit_first(f, is_aug("extensions_index"), ed)


@variant("c03-frame-zero-length", "break", ["C03", "C17"], QF, "A2", "length-lower-bound", "MAX_DATA frame length starts at 0 and omits the varint length")
def _(mod):
    f = get_func(mod, "MaxDataFrame.__init__")
    ok = edit_first(f, is_assign_to("self.length"), lambda n: parse_stmt("self.length = 0"))
    ok = edit_first(f, is_aug("self.length"), lambda n: None) and ok
    return ok


@variant("c03-preserve-extra-logging", "preserve", ["C03"], MAIN, desc="extra logging in the handler and the loop")
def _(mod):
    f = get_func(mod, "run")
    def pred(n):
        return isinstance(n, ast.ExceptHandler)
    def ed(n):
        n.body.append(parse_stmt("logging.debug('skipped')"))
        return n
    return edit_first(f, pred, ed)


# ------------------------------------------------------------------ C04
@variant("c04-drop-port-conjunct", "break", ["C04"], SES, "B3", "orientation", "matches_session ignores the client port in the first orientation")
def _(mod):
    f = get_func(mod, "Session.matches_session")
    def pred(n):
        return isinstance(n, ast.BoolOp) and isinstance(n.op, ast.And) and len(n.values) == 4
    def ed(n):
        n.values = n.values[:3]
        return n
    return edit_first(f, pred, ed)


@variant("c04-dgram-swapped-role", "break", ["C04"], QS, "B3", "orientation", "matches_session_dgram compares the destination with the server in both orientations")
def _(mod):
    f = get_func(mod, "QuicSession.matches_session_dgram")
    def pred(n):
        return isinstance(n, ast.Compare) and ast.unparse(n) == "ip_dst == self.client_ip"
    def ed(n):
        n.comparators = [parse_expr("self.server_ip")]
        return n
    return edit_first(f, pred, ed)


# ------------------------------------------------------------------ C06
@variant("c06-ack-before-increment", "break", ["C06"], OB, "A7", "bookkeeping-order", "acknowledgement built before the sender's counter is advanced")
def _(mod):
    f = get_func(mod, "OutputBuilder.build_server_packet")
    for n in ast.walk(f):
        if isinstance(n, ast.If) and "self.ipv6" in ast.unparse(n.test):
            b = n.body
            i = next(k for k, s in enumerate(b) if isinstance(s, ast.AugAssign))
            b[i], b[i + 1] = b[i + 1], b[i]
            return True


@variant("c06-split-gap", "break", ["C06"], OB, "T7s", "telescoping", "parts cut with stride part_len + 1")
def _(mod):
    f = get_func(mod, "OutputBuilder.build_client_packet")
    def pred(n):
        return isinstance(n, ast.Subscript) and ast.unparse(n).startswith("decrypted[i * part_len")
    def ed(n):
        n.slice.lower = parse_expr("i * (part_len + 1)")
        return n
    return edit_first(f, pred, ed)


@variant("c06-chksum-override", "break", ["C06"], OB, "D3", "frame-shape", "TCP checksum forced to 0 in the SYN")
def _(mod):
    f = get_func(mod, "OutputBuilder.build_ack_handshake")
    def pred(n):
        return isinstance(n, ast.Call) and isinstance(n.func, ast.Name) and n.func.id == "TCP"
    def ed(n):
        n.keywords.append(ast.keyword(arg="chksum", value=ast.Constant(0)))
        return n
    return edit_first(f, pred, ed)


@variant("c06-placeholder-back", "break", ["C06"], QS, "D3", "placeholder", "empty QUIC session returns a placeholder packet again")
def _(mod):
    f = get_func(mod, "QuicSession.build_output")
    def pred(n):
        return isinstance(n, ast.Return) and isinstance(n.value, ast.List) and not n.value.elts
    def ed(n):
        n.value = parse_expr("[(b'\\x00', 0)]")
        return n
    return edit_first(f, pred, ed)


@variant("c06-syn-ack-number", "break", ["C06"], OB, "A7", "syn_ack", "SYN-ACK acknowledges 0")
def _(mod):
    f = get_func(mod, "OutputBuilder.build_ack_handshake")
    def pred(n):
        return isinstance(n, ast.Call) and isinstance(n.func, ast.Name) and n.func.id == "TCP" and "flags='SA'" in ast.unparse(n)
    def ed(n):
        for k in n.keywords:
            if k.arg == "ack":
                k.value = ast.Constant(0)
        return n
    return edit_first(f, pred, ed)


# ------------------------------------------------------------------ C07
@variant("c07-handshake-time-last", "break", ["C07"], OB, "D2", "handshake-time", "handshake stamped with the last packet of the first record")
def _(mod):
    f = get_func(mod, "OutputBuilder.build")
    def ed(n):
        n.value = parse_expr("record[1].metadata[-1].timestamp")
        return n
    return edit_first(f, is_assign_to("self.ts_zero"), ed)


@variant("c07-quic-ts-rounded", "break", ["C07"], QD, "D2", "packet-time", "short-header packets stamped with int(timestamp)")
def _(mod):
    f = get_func(mod, "extract_quic_packet")
    def pred(n):
        return isinstance(n, ast.Call) and isinstance(n.func, ast.Name) and n.func.id == "ShortQuicPacket"
    def ed(n):
        for k in n.keywords:
            if k.arg == "ts":
                k.value = parse_expr("int(in_packet.timestamp)")
        return n
    return edit_first(f, pred, ed)


@variant("c07-mac-swapped", "break", ["C07", "C06"], OB, "A7", "packet", "server data packet carries the client MAC as source")
def _(mod):
    f = get_func(mod, "OutputBuilder.build_server_packet")
    def pred(n):
        return isinstance(n, ast.Call) and isinstance(n.func, ast.Name) and n.func.id == "Ether" and "src=self.server_mac_addr" in ast.unparse(n)
    def ed(n):
        for k in n.keywords:
            k.value = parse_expr("self.client_mac_addr" if k.arg == "src" else "self.server_mac_addr")
        return n
    return edit_first(f, pred, ed)


# ------------------------------------------------------------------ C08
@variant("c08-lookahead", "break", ["C08"], SES, "CAUS", "no-lookahead", "record loop peeks at the whole packet buffer")
def _(mod):
    f = get_func(mod, "Session.get_tls_records")
    loop = next(n for n in ast.walk(f) if isinstance(n, ast.For) and ast.unparse(n.iter) == "self.packet_buffer")
    loop.body.insert(0, parse_stmt("is_last = packet is self.packet_buffer[-1]"))
    return True


@variant("c08-insert-front", "break", ["C08", "C01"], SES, "A8", "append-only", "TLS 1.3 data inserted at the front of the channel")
def _(mod):
    f = get_func(mod, "Session.handle_tls_13_application_record")
    def pred(n):
        return isinstance(n, ast.Expr) and "application_traffic.append" in ast.unparse(n)
    def ed(n):
        return parse_stmt("self.application_traffic.insert(0, (plaintext[:-1], record, isserver))")
    return edit_first(f, pred, ed)


# ------------------------------------------------------------------ C15
@variant("c15-swap-randoms", "break", ["C15"], SES, "B4", "generate_keys", "TLS 1.2 CLIENT_RANDOM arm passes (server_random, client_random)")
def _(mod):
    f = get_func(mod, "Session.generate_keys")
    def pred(n):
        return isinstance(n, ast.Call) and ast.unparse(n.func) == "key_derivator.dev_tls_12_keys" and ast.unparse(n.args[0]) == "bytes.fromhex(secret.value)"
    def ed(n):
        n.args[1], n.args[2] = n.args[2], n.args[1]
        return n
    return edit_first(f, pred, ed)


@variant("c15-keyblock-overlap", "break", ["C15"], KD, "T7k", "slice:server_write_key", "server_write_key starts at the client key offset")
def _(mod):
    f = get_func(mod, "dev_tls_12_keys")
    d = next(n.value for n in ast.walk(f) if isinstance(n, ast.Assign) and isinstance(n.value, ast.Dict))
    for k, v in zip(d.keys, d.values):
        if k.value == "server_write_key":
            v.slice.lower = parse_expr("mac_length * 2")
            return True


@variant("c15-iv-from-key-info", "break", ["C15"], KD, "T6", "site:server_application_iv", "TLS 1.3 server application IV expanded with the key label")
def _(mod):
    f = get_func(mod, "dev_tls_13_keys")
    def pred(n):
        return isinstance(n, ast.Assign) and ast.unparse(n.targets[0]) == "server_application_iv"
    def ed(n):
        n.value = parse_expr("HKDFExpand(hash_fun, 12, key_info).derive(bytes.fromhex(secret.value))")
        return n
    return edit_first(f, pred, ed)


@variant("c15-quic-hp-label", "break", ["C15", "C02"], QKG, "T6", "labels", "QUIC v1 header-protection label misspelt")
def _(mod):
    f = get_func(mod, "dev_quic_keys")
    def pred(n):
        return isinstance(n, ast.Constant) and n.value == b"quic hp"
    def ed(n):
        n.value = b"quic kp"
        return n
    return edit_first(f, pred, ed)


@variant("c15-quic-role-cross", "break", ["C15", "C02"], QKG, "T6", "site:client_handshake_iv", "client handshake IV derived under the server label")
def _(mod):
    f = get_func(mod, "dev_quic_keys")
    # swap the two iv assignment targets between the CLIENT_/SERVER_HANDSHAKE arms
    a = [n for n in ast.walk(f) if isinstance(n, ast.Assign) and ast.unparse(n.targets[0]) in ("client_handshake_iv", "server_handshake_iv")]
    if len(a) != 2:
        return False
    a[0].targets, a[1].targets = a[1].targets, a[0].targets
    return True


@variant("c15-initial-chacha-again", "break", ["C15", "C02"], QS, "T6", "suite-independent", "Initial keys re-derived with ChaCha20 lengths when 0x1303 is offered")
def _(mod):
    f = get_func(mod, "QuicSession.handle_packet")
    def pred(n):
        return isinstance(n, ast.If) and "Initial" in ast.unparse(n.test)
    def ed(n):
        n.orelse = [ast.If(test=parse_expr("self.tls_session.ciphersuite == b'\\x13\\x03'"), body=[parse_stmt("self.set_initial_decryptor(dcid, True)")], orelse=[])]
        return n
    return edit_first(f, pred, ed)


@variant("c15-decryptor-list-order", "break", ["C15", "C02"], QS, "T5q", "decryptor-keys:Handshake", "handshake decryptor built with client keys first")
def _(mod):
    f = get_func(mod, "QuicSession.set_tls_decryptors")
    def pred(n):
        return isinstance(n, ast.List) and len(n.elts) == 4 and "server_handshake_key" in ast.unparse(n)
    def ed(n):
        n.elts = n.elts[2:] + n.elts[:2]
        return n
    return edit_first(f, pred, ed)


@variant("c15-ku-from-old-secret", "break", ["C15", "C02"], QKG, "T6", "key_update", "updated client key derived from the previous secret")
def _(mod):
    f = get_func(mod, "key_update")
    def ed(n):
        n.value = parse_expr("HKDFExpand(hash_fun, key_length, key_info).derive(client_n)")
        return n
    return edit_first(f, is_assign_to("client_application_key"), ed)


@variant("c15-aead-flag-slot", "break", ["C15"], SES, "B4", "generate_keys", "TLS 1.0 arm passes CryptoAlgo[1] where Mode[1] belongs... and SSL3 gets Mode[0]")
def _(mod):
    f = get_func(mod, "Session.generate_keys")
    def pred(n):
        return isinstance(n, ast.Call) and ast.unparse(n.func) == "key_derivator.dev_ssl_30_keys"
    def ed(n):
        n.args[-1] = parse_expr("cipher_suite['Mode'][0]")
        return n
    return edit_first(f, pred, ed)


@variant("c15-preserve-kwargs", "preserve", ["C15"], KD, desc="rename a local in dev_tls_10_11_keys")
def _(mod):
    f = get_func(mod, "dev_tls_10_11_keys")
    return rename_local(f, "logging_string", "msg")


# ------------------------------------------------------------------ C17
@variant("c17-missing-field", "break", ["C17"], QF, "T8", "ResetStreamFrame:layout", "RESET_STREAM without the final size")
def _(mod):
    f = get_func(mod, "ResetStreamFrame.__init__")
    ok = edit_first(f, is_assign_to("self.final_size"), lambda n: None)
    # remove the last length advance too
    augs = [n for n in ast.walk(f) if isinstance(n, ast.AugAssign)]
    last = augs[-1]
    return edit_first(f, lambda n: n is last, lambda n: None) and ok


@variant("c17-fields-swapped", "break", ["C17"], QF, "T8", "MaxStreamDataFrame:layout", "MAX_STREAM_DATA reads the limit before the stream id")
def _(mod):
    f = get_func(mod, "MaxStreamDataFrame.__init__")
    a = [n for n in ast.walk(f) if isinstance(n, ast.Assign) and ast.unparse(n.targets[0]) in ("self.stream_id", "self.maximum_stream_data")]
    a[0].targets, a[1].targets = a[1].targets, a[0].targets
    return True


@variant("c17-token-size", "break", ["C17", "C02"], QF, "T8", "NewConnectionIdFrame:layout", "stateless reset token taken as 8 bytes")
def _(mod):
    f = get_func(mod, "NewConnectionIdFrame.__init__")
    n = 0
    for c in ast.walk(f):
        if isinstance(c, ast.Constant) and c.value == 16:
            c.value = 8
            n += 1
    return n == 2


@variant("c17-index-not-advanced", "break", ["C17"], QF, "T8", "CryptoFrame:layout", "CRYPTO length read from the offset position (index not advanced)")
def _(mod):
    f = get_func(mod, "CryptoFrame.__init__")
    return edit_first(f, is_assign_to("index"), lambda n: parse_stmt("index = 1"))


@variant("c17-registry-key-lost", "break", ["C17"], QF, "T8", "types:StreamFrame", "STREAM type 0x0f dropped from the registry")
def _(mod):
    d = _dict_assign(mod, "frame_type")
    for k in d.keys:
        if len(k.elts) == 8:
            k.elts = k.elts[:7]
            return True


@variant("c17-stream-len-bit", "break", ["C17", "C02"], QF, "T8", "StreamFrame:layout", "STREAM data length ignored: data runs to the end of the packet even with LEN set")
def _(mod):
    f = get_func(mod, "StreamFrame.__init__")
    def pred(n):
        return isinstance(n, ast.AugAssign) and ast.unparse(n) == "self.length += self.data_length"
    return edit_first(f, pred, lambda n: parse_stmt("self.length = len(payload)"))


@variant("c17-preserve-rename-index", "preserve", ["C17"], QF, desc="rename the cursor snapshot local")
def _(mod):
    f = get_func(mod, "AckFrame.__init__")
    return rename_local(f, "index", "pos")


@variant("c17-preserve-temp", "preserve", ["C17"], QF, desc="introduce a temporary for the varint slice end")
def _(mod):
    f = get_func(mod, "MaxDataFrame.__init__")
    def ed(n):
        return [parse_stmt("end = self.length"), parse_stmt("self.maximum_data = decode_variable_length_int(payload[1:end])")]
    return edit_first(f, is_assign_to("self.maximum_data"), ed)


# ------------------------------------------------------------------ rules added after the seeded rounds
@variant("c01-etm-mac-after-decrypt", "break", ["C01"], DEC, "A5", "mac-position", "encrypt-then-MAC: MAC no longer removed from the ciphertext in the TLS 1.1/1.2 CBC method")
def _(mod):
    f = get_func(mod, "Decryptor.decrypt_tls12_block_cipher")
    def pred(n):
        return isinstance(n, ast.If) and ast.unparse(n.test) == "self.encrypt_then_mac"
    return edit_first(f, pred, lambda n: None)


@variant("c01-overlap-first-only", "break", ["C01", "C07"], SES, "FS", "packet_ranges", "record attributed to the first overlapping packet only")
def _(mod):
    f = get_func(mod, "Session.extract_server_buf")
    def pred(n):
        return isinstance(n, ast.Expr) and ast.unparse(n) == "metadata.append(packet_range[2])"
    def ed(n):
        return [n, ast.Break()]
    return edit_first(f, pred, ed)


@variant("c15-secret-scan-break", "break", ["C15"], KD, "FS", "secret_list", "TLS 1.3 secret scan stops after the first application secret")
def _(mod):
    f = get_func(mod, "dev_tls_13_keys")
    def pred(n):
        return isinstance(n, ast.Assign) and ast.unparse(n.targets[0]) == "client_application_iv"
    def ed(n):
        return [n, ast.Break()]
    return edit_first(f, pred, ed)


@variant("c02-remove-while-iterating", "break", ["C02"], QTP, "ITER", "mutates-iterated", "CRYPTO buffer iterated directly again while frames are removed")
def _(mod):
    f = get_func(mod, "QuicTlsSession.update_session")
    def pred(n):
        return isinstance(n, ast.For) and isinstance(n.iter, ast.Call) and ast.unparse(n.iter.func) == "list"
    def ed(n):
        n.iter = n.iter.args[0]
        return n
    return edit_first(f, pred, ed)


@variant("c03-reset-rebinds-sets", "break", ["C03", "C02", "C04"], QS, "KIND", "attribute-kinds", "Retry handling calls reset(), which re-creates the CID sets as lists")
def _(mod):
    f = get_func(mod, "QuicSession.handle_quic_packet")
    def pred(n):
        return isinstance(n, ast.If) and "RETRY" in ast.unparse(n.test)
    def ed(n):
        n.body = [parse_stmt("self.reset()")]
        return n
    return edit_first(f, pred, ed)


@variant("c11-udp-zero-rule-dropped", "break", ["C11"], CHK, "UDPZ", "zero-is-ones", "RFC 768 zero→0xffff mapping removed")
def _(mod):
    f = get_func(mod, "calculate_checksum_udp")
    def pred(n):
        return isinstance(n, ast.If) and "calculated_checksum ==" in ast.unparse(n.test)
    return edit_first(f, pred, lambda n: None)


@variant("c09-dsb-only-without-file", "break", ["C09"], MAIN, "E2b", "dsb-branch", "DSB secrets used only when no -s file is given")
def _(mod):
    f = get_func(mod, "run")
    def pred(n):
        return isinstance(n, ast.Expr) and "get_keys_from_string" in ast.unparse(n)
    def ed(n):
        return ast.If(test=parse_expr("args.sslkeylog is None"), body=[n], orelse=[])
    return edit_first(f, pred, ed)


@variant("c04-secret-scan-break", "break", ["C04", "C09"], SES, "D7", "full-scan", "secret scan stops at the first foreign line after a match")
def _(mod):
    f = get_func(mod, "Session.find_session_secrets")
    def pred(n):
        return isinstance(n, ast.If) and "client_random" in ast.unparse(n.test)
    def ed(n):
        n.orelse = [ast.If(test=parse_expr("secrets"), body=[ast.Break()], orelse=[])]
        return n
    return edit_first(f, pred, ed)


@variant("c16-spaces-reset-on-retry", "break", ["C16", "C02"], QS, "PNS", "callers", "Retry re-initialises the largest-packet-number tables")
def _(mod):
    f = get_func(mod, "QuicSession.handle_quic_packet")
    def pred(n):
        return isinstance(n, ast.If) and "RETRY" in ast.unparse(n.test)
    def ed(n):
        n.body.append(parse_stmt("self.set_packet_number_spaces()"))
        return n
    return edit_first(f, pred, ed)


@variant("c12-dsb-always-le", "break", ["C12", "C09"], DSB, "E3", "block-class:PCAPNG_BT_DSB", "DSB always parsed little-endian")
def _(mod):
    f = get_func(mod, "Reader.__iter__")
    def pred(n):
        return isinstance(n, ast.IfExp) and "DecryptionSecretBlockLE" in ast.unparse(n.body)
    return edit_first(f, pred, lambda n: n.body)


@variant("c10-preserve-flag-spelling", "preserve", ["C10"], OB, desc="`keep_original_ports is False` written as `not keep_original_ports`")
def _(mod):
    f = get_func(mod, "OutputBuilder.__init__")
    def pred(n):
        return isinstance(n, ast.If) and "keep_original_ports" in ast.unparse(n.test)
    def ed(n):
        n.test = parse_expr("not keep_original_ports")
        return n
    return edit_first(f, pred, ed)


@variant("c05-preserve-notin", "preserve", ["C05", "C01"], SES, desc="dedupe written as `if seq not in seen: record; buffer` instead of an early return")
def _(mod):
    f = get_func(mod, "Session.handle_packet")
    top = next(n for n in f.body if isinstance(n, ast.If) and "server_ip" in ast.unparse(n.test))
    done = 0
    for arm in (top.body, top.orelse):
        guard = next((n for n in arm if isinstance(n, ast.If) and " in self.seen_packets_" in ast.unparse(n.test)), None)
        if guard is None:
            continue
        i = arm.index(guard)
        rest = arm[i + 1:]
        new = ast.If(test=ast.Compare(left=guard.test.left, ops=[ast.NotIn()], comparators=guard.test.comparators), body=rest, orelse=[])
        arm[i:] = [new]
        done += 1
    return done == 2


# ------------------------------------------------------------------ round-5 rules
@variant("c18-reset-from-alias", "break", ["C18"], MAIN, "D6r", "server_ports:reinit", "module list reset from an alias of itself")
def _(mod):
    for i, st in enumerate(mod.body):
        if isinstance(st, ast.Assign) and ast.unparse(st.targets[0]) == "server_ports":
            mod.body[i:i + 1] = [parse_stmt("DEFAULT_SERVER_PORTS = [443, 44330]"), parse_stmt("server_ports = DEFAULT_SERVER_PORTS")]
            break
    else:
        return False
    f = get_func(mod, "run")
    def pred(n):
        return isinstance(n, ast.Assign) and ast.unparse(n.targets[0]) == "server_ports[:]"
    def ed(n):
        n.value = parse_expr("DEFAULT_SERVER_PORTS")
        return n
    return edit_first(f, pred, ed)


@variant("c18-preserve-reset-from-tuple", "preserve", ["C18"], MAIN, desc="module list reset from an immutable module constant")
def _(mod):
    for i, st in enumerate(mod.body):
        if isinstance(st, ast.Assign) and ast.unparse(st.targets[0]) == "server_ports":
            mod.body[i:i + 1] = [parse_stmt("DEFAULT_SERVER_PORTS = (443, 44330)"), parse_stmt("server_ports = list(DEFAULT_SERVER_PORTS)")]
            break
    else:
        return False
    f = get_func(mod, "run")
    def pred(n):
        return isinstance(n, ast.Assign) and ast.unparse(n.targets[0]) == "server_ports[:]"
    def ed(n):
        n.value = parse_expr("DEFAULT_SERVER_PORTS")
        return n
    return edit_first(f, pred, ed)


@variant("c18-outfile-not-truncated", "break", ["C18", "C06"], MAIN, "D6o", "outfile-truncated", "output opened through os.open without O_TRUNC")
def _(mod):
    f = get_func(mod, "run")
    def pred(n):
        return isinstance(n, ast.Assign) and "args.outfile" in ast.unparse(n.value) and "open" in ast.unparse(n.value)
    def ed(n):
        n.value = parse_expr("os.fdopen(os.open(args.outfile, os.O_WRONLY | os.O_CREAT, 0o600), 'wb')")
        return n
    ok = edit_first(f, pred, ed)
    mod.body.insert(0, parse_stmt("import os"))
    return ok


@variant("c18-outfile-append", "break", ["C18"], MAIN, "D6o", "outfile-truncated", "output opened in append mode")
def _(mod):
    f = get_func(mod, "run")
    def pred(n):
        return isinstance(n, ast.Assign) and "args.outfile" in ast.unparse(n.value) and "open" in ast.unparse(n.value)
    def ed(n):
        n.value = parse_expr("open(args.outfile, 'ab')")
        return n
    return edit_first(f, pred, ed)


@variant("c05-chained-buffer-init", "break", ["C05", "C01", "C08"], SES, "D6a", "", "two direction buffers share one list through a chained assignment")
def _(mod):
    f = get_func(mod, "Session.__init__")
    def ed(n):
        return parse_stmt("self.server_packet_buffer = self.client_packet_buffer = []")
    ok = edit_first(f, is_assign_to("self.server_packet_buffer"), ed)
    return ok and edit_first(f, is_assign_to("self.client_packet_buffer"), lambda n: None)


@variant("c08-extract-only-when-full", "break", ["C08", "C01", "C05"], SES, "CAUS", "server-extract", "server records extracted only once several packets are buffered")
def _(mod):
    f = get_func(mod, "Session.get_tls_records")
    def pred(n):
        return isinstance(n, ast.Expr) and ast.unparse(n) == "self.extract_server_buf()"
    def ed(n):
        return ast.If(test=parse_expr("len(self.server_packet_buffer) > 1"), body=[n], orelse=[])
    return edit_first(f, pred, ed)


@variant("c02-new-data-flag-dropped", "break", ["C02", "C15"], QS, "QHS", "new-data-flag", "decryptors installed on every CRYPTO frame, not only on new handshake data")
def _(mod):
    f = get_func(mod, "QuicSession.handle_crypto_frame")
    def pred(n):
        return isinstance(n, ast.If) and ast.unparse(n.test) == "self.tls_session.new_data"
    def ed(n):
        n.test = parse_expr("True")
        return n
    return edit_first(f, pred, ed)


@variant("c06-snaplen-too-small", "break", ["C06"], MAIN, "D3", "writer", "writer announces a snaplen smaller than the largest frame it writes")
def _(mod):
    f = get_func(mod, "run")
    def pred(n):
        return isinstance(n, ast.Call) and ast.unparse(n.func) == "dpkt.pcapng.Writer"
    def ed(n):
        for k in n.keywords:
            if k.arg == "snaplen":
                k.value = ast.Constant(1500)
        return n
    return edit_first(f, pred, ed)


@variant("c15-master-secret-64-bytes", "break", ["C15"], KD, "T6", "length-48", "TLS 1.2 master secret from RSA lines assembled as p1 + p2[:16] (64 bytes with SHA-384)")
def _(mod):
    f = get_func(mod, "gen_master_secret_tls_12")
    def ed(n):
        n.value = parse_expr("p1 + p2[:16]")
        return n
    return edit_first(f, is_assign_to("master_secret"), ed)


@variant("c15-master-secret-hash-not-passed", "break", ["C15"], SES, "T6", "master-secret-hash", "generate_keys no longer hands the suite hash to the master-secret PRF")
def _(mod):
    f = get_func(mod, "Session.generate_keys")
    def pred(n):
        return isinstance(n, ast.Call) and ast.unparse(n.func).endswith("gen_master_secret_tls_12")
    def ed(n):
        n.args = n.args[:3]
        return n
    return edit_first(f, pred, ed)


@variant("c15-master-secret-one-hmac-sha256", "break", ["C15"], KD, "T6", "hash-selection", "one of the four HMACs of the master-secret PRF is pinned to SHA-256")
def _(mod):
    f = get_func(mod, "gen_master_secret_tls_12")
    def pred(n):
        return isinstance(n, ast.Call) and ast.unparse(n.func) == "hmac.HMAC"
    def ed(n):
        n.args[1] = parse_expr("hashes.SHA256()")
        return n
    return edit_first(f, pred, ed, nth=3)


@variant("c05-seq-sort-absolute", "break", ["C05"], SES, "D9s", "seq-sort-absolute", "buffered segments sorted by absolute sequence number again")
def _(mod):
    f = get_func(mod, "Session.extract_client_buf")
    def pred(n):
        return isinstance(n, ast.Call) and isinstance(n.func, ast.Attribute) and n.func.attr == "sort"
    def ed(n):
        n.keywords[0].value = parse_expr("lambda x: x.seq")
        return n
    return edit_first(f, pred, ed)


@variant("c05-seq-sort-unsigned-distance", "break", ["C05"], SES, "D9s", "seq-sort-base", "sort key is the unsigned distance to the first buffered segment")
def _(mod):
    f = get_func(mod, "Session.extract_server_buf")
    def pred(n):
        return isinstance(n, ast.Call) and isinstance(n.func, ast.Attribute) and n.func.attr == "sort"
    def ed(n):
        n.keywords[0].value = parse_expr("lambda x: (x.seq - base) & 0xFFFFFFFF")
        return n
    return edit_first(f, pred, ed)


@variant("c05-seq-compare-unreduced", "break", ["C05"], SES, "D9s", "seq-add-unreduced", "contiguity test without reduction modulo 2^32")
def _(mod):
    f = get_func(mod, "Session.extract_server_buf")
    def pred(n):
        return isinstance(n, ast.Compare) and ".seq" in ast.unparse(n) and isinstance(n.left, ast.BinOp) and isinstance(n.left.op, ast.BitAnd)
    def ed(n):
        n.left = n.left.left
        return n
    return edit_first(f, pred, ed)


@variant("c05-preserve-seq-mod-spelling", "preserve", ["C05"], SES, desc="wrap arithmetic spelled with % 2**32 and a signed key `… % 2**32 - 2**31` (both directions)")
def _(mod):
    done = 0
    for fn in ("Session.extract_server_buf", "Session.extract_client_buf"):
        f = get_func(mod, fn)
        def pred(n):
            return isinstance(n, ast.Call) and isinstance(n.func, ast.Attribute) and n.func.attr == "sort"
        def ed(n):
            n.keywords[0].value = parse_expr("lambda x: (x.seq - base + 2 ** 31) % 2 ** 32 - 2 ** 31")
            return n
        ok = edit_first(f, pred, ed)
        def pred2(n):
            return isinstance(n, ast.Compare) and ".seq" in ast.unparse(n) and isinstance(n.left, ast.BinOp) and isinstance(n.left.op, ast.BitAnd)
        def ed2(n):
            n.left = ast.BinOp(left=n.left.left, op=ast.Mod(), right=parse_expr("2 ** 32"))
            return n
        done += bool(ok and edit_first(f, pred2, ed2))
    return done == 2


# ------------------------------------------------------------------ round-6 rules (additive slips)
DSBF = "tlexport/dpkt_dsb.py"


@variant("c01-early-return-before-keystream", "break", ["C01"], DEC, "GI", "new-condition", "stream cipher: new early return before the keystream is advanced")
def _(mod):
    f = get_func(mod, "Decryptor.decrypt_generic_stream_cipher")
    def pred(n):
        return isinstance(n, ast.Assign) and "cipher.update" in ast.unparse(n.value)
    def ed(n):
        return [ast.If(test=parse_expr("len(record.binary) <= self.mac_length"), body=[parse_stmt("return b''")], orelse=[]), n]
    return edit_first(f, pred, ed)


@variant("c16-flip-resets-largest", "break", ["C16", "C02"], QS, "WSI", "new-writes", "key-phase flip resets the 1-RTT largest packet number")
def _(mod):
    f = get_func(mod, "QuicSession.check_key_epoch")
    def pred(n):
        return isinstance(n, ast.AugAssign) and ast.unparse(n.target) == "self.epoch_server"
    def ed(n):
        return [n, parse_stmt("self.packet_number_server[PACKET_TYPE_MAP[QuicPacketType.RTT_1]] = 0")]
    return edit_first(f, pred, ed)


@variant("c02-hoisted-ciphersuite", "break", ["C02"], QS, "STALE", "hoisted-read", "negotiated suite read once before the coalesced-packet loop")
def _(mod):
    f = get_func(mod, "QuicSession.handle_packet")
    loop = next((n for n in ast.walk(f) if isinstance(n, ast.While)), None)
    if loop is None:
        return False
    done = False
    for n in ast.walk(loop):
        if isinstance(n, ast.keyword) and n.arg == "ciphersuite" and ast.unparse(n.value) == "self.tls_session.ciphersuite":
            n.value = ast.Name("ciphersuite", ast.Load())
            done = True
    if not done:
        return False
    for lst in (f.body,):
        i = lst.index(loop) if loop in lst else None
        if i is None:
            return False
        lst.insert(i, parse_stmt("ciphersuite = self.tls_session.ciphersuite"))
    return True


@variant("c03-dispatch-to-last-session", "break", ["C03", "C04", "C02"], MAIN, "D7b", "unmatched-dispatch", "unmatched short-header datagrams handed to the most recent QUIC session")
def _(mod):
    f = get_func(mod, "handle_quic_packet")
    last = f.body[-1]
    if not isinstance(last, ast.If):
        return False
    last.orelse = [ast.If(test=parse_expr("quic_sessions"), body=[parse_stmt("quic_sessions[-1].handle_packet(packet, dcid, quic_version)")], orelse=[])]
    return True


@variant("c09-no-session-without-keys", "break", ["C09", "C04"], MAIN, "A6c", "session-creation-extra-condition", "no TLS session is created while the key list is empty")
def _(mod):
    f = get_func(mod, "handle_packet")
    def pred(n):
        return isinstance(n, ast.Expr) and "sessions.append(Session(" in ast.unparse(n)
    def ed(n):
        return ast.If(test=parse_expr("len(keylog) != 0"), body=[n], orelse=[])
    return edit_first(f, pred, ed)


@variant("c06-writer-linktype-from-input", "break", ["C06"], MAIN, "D3", "writer", "output announces the input's link type")
def _(mod):
    f = get_func(mod, "run")
    def pred(n):
        return isinstance(n, ast.Call) and ast.unparse(n.func) == "dpkt.pcapng.Writer"
    def ed(n):
        n.keywords.append(ast.keyword(arg="linktype", value=parse_expr("pcap_reader.datalink()")))
        return n
    return edit_first(f, pred, ed)


@variant("c18-abspath-in-output", "break", ["C18"], MAIN, "D6b", "nondeterminism", "absolute input path computed in run()")
def _(mod):
    f = get_func(mod, "run")
    def pred(n):
        return isinstance(n, ast.Assign) and "dpkt.pcapng.Writer" in ast.unparse(n.value)
    def ed(n):
        return [parse_stmt("note = os.path.abspath(args.infile)"), n, parse_stmt("file.write(note.encode())")]
    ok = edit_first(f, pred, ed)
    mod.body.insert(0, parse_stmt("import os"))
    return ok


@variant("c18-preserve-abspath-logged", "preserve", ["C18"], MAIN, desc="absolute input path only written to the log")
def _(mod):
    f = get_func(mod, "run")
    def pred(n):
        return isinstance(n, ast.Assign) and "dpkt.pcapng.Writer" in ast.unparse(n.value)
    def ed(n):
        return [parse_stmt("logging.info('reading %s', os.path.abspath(args.infile))"), n]
    ok = edit_first(f, pred, ed)
    mod.body.insert(0, parse_stmt("import os"))
    return ok


@variant("c12-reader-trims-frames", "break", ["C12", "C07"], DSBF, "T9p", "yield-shape", "pcapng reader trims the captured bytes")
def _(mod):
    f = get_func(mod, "Reader.__iter__")
    def pred(n):
        return isinstance(n, ast.Yield) and "epb.pkt_data" in ast.unparse(n)
    def ed(n):
        n.value.elts[1] = parse_expr("epb.pkt_data[:-4]")
        return n
    return edit_first(f, pred, ed)


@variant("c08-raise-after-packet-loop", "break", ["C08"], SES, "A1r", "escape-outside-loop", "diagnostic after the packet loop indexes the reassembly buffer")
def _(mod):
    f = get_func(mod, "Session.get_tls_records")
    f.body.append(ast.If(test=parse_expr("len(self.server_packet_buffer) > 0"), body=[parse_stmt("missing = self.server_packet_buffer[1].seq")], orelse=[]))
    return True


@variant("c16-extra-window-arm", "break", ["C16"], QS, "E1", "arms", "additional first arm in the packet-number window decision")
def _(mod):
    f = get_func(mod, "QuicSession.get_full_packet_number")
    def pred(n):
        return isinstance(n, ast.If) and "candidate_pkn" in ast.unparse(n.test) and "pkn_hwindow" in ast.unparse(n.test)
    def ed(n):
        return ast.If(test=parse_expr("largest_pkn < pkn_hwindow"), body=[parse_stmt("out_pkn = truncated_pkn")], orelse=[n])
    return edit_first(f, pred, ed)


@variant("c18-shared-level-templates", "break", ["C18", "C02"], QTP, "D6a", "shared-template-elements", "CRYPTO buffers initialised by shallow copies of a module-level template")
def _(mod):
    mod.body.insert(_first_def(mod), parse_stmt("LEVEL_FRAMES = {QuicPacketType.INITIAL: [], QuicPacketType.RTT_O: [], QuicPacketType.RTT_1: [], QuicPacketType.HANDSHAKE: []}"))
    f = get_func(mod, "QuicTlsSession.__init__")
    n = 0
    for st in ast.walk(f):
        if isinstance(st, (ast.Assign, ast.AnnAssign)) and "frame_buffer" in ast.unparse(st.targets[0] if isinstance(st, ast.Assign) else st.target):
            st.value = parse_expr("dict(LEVEL_FRAMES)")
            n += 1
    return n == 2


def _first_def(mod):
    for i, st in enumerate(mod.body):
        if isinstance(st, (ast.ClassDef, ast.FunctionDef)):
            return i
    return len(mod.body)


@variant("c16-preserve-extract-helper", "preserve", ["C16", "C02", "C15"], QS, desc="epoch bookkeeping of check_key_epoch moved into a new helper method")
def _(mod):
    cls = next(n for n in mod.body if isinstance(n, ast.ClassDef) and n.name == "QuicSession")
    f = get_func(mod, "QuicSession.check_key_epoch")
    top = f.body[0]
    if not isinstance(top, ast.If):
        return False
    helper = ast.parse("def _advance_epoch(self, key_phase_bit, isserver):\n    pass").body[0]
    helper.body = [top]
    f.body[0] = parse_stmt("self._advance_epoch(key_phase_bit, isserver)")
    cls.body.append(helper)
    return True


@variant("c01-preserve-guard-respelled", "preserve", ["C01", "C03"], SES, desc="fail-closed gate re-spelled: nested ifs instead of `and`")
def _(mod):
    f = get_func(mod, "Session.handle_tls_record")
    def pred(n):
        return isinstance(n, ast.If) and isinstance(n.test, ast.BoolOp) and isinstance(n.test.op, ast.And) and len(n.test.values) == 2 and not n.orelse
    def ed(n):
        a, b = n.test.values
        return ast.If(test=a, body=[ast.If(test=b, body=n.body, orelse=[])], orelse=[])
    return edit_first(f, pred, ed)


@variant("c18-preserve-class-constant-table", "preserve", ["C18", "C04", "C01"], SES, desc="a read-only lookup table added at class level")
def _(mod):
    for st in mod.body:
        if isinstance(st, ast.ClassDef) and st.name == "Session":
            st.body.insert(0, parse_stmt("RECORD_NAMES = {20: 'ccs', 21: 'alert', 22: 'handshake', 23: 'data'}"))
            f = get_func(mod, "Session.handle_tls_record")
            f.body.insert(0, parse_stmt("logging.debug(self.RECORD_NAMES.get(record.record_type, '?'))"))
            return True

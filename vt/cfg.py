"""M3 — statement-level control-flow graph with dominators, post-dominators, edge dominance.

Node kinds
  entry / exit / raise      synthetic
  stmt                      simple statement (ast.stmt)
  if / while                test node (ast.If / ast.While; the evaluated expression is .test)
  for                       iterator node (ast.For; evaluates .iter, binds .target on label 'T')
  match                     subject evaluation (ast.Match)
  case                      one case pattern+guard (ast.match_case); 'T' enters the body, 'F' tries the next
  with                      context entry (ast.With)
  except                    handler entry (ast.ExceptHandler)

Edge labels: None (sequential), 'T', 'F', 'exc' (exceptional, from a node inside a try body to a handler
or to the function's raise exit; also used for explicit ``raise``), 'back' is not used: loop back edges
are ordinary edges to the loop header.
"""
from __future__ import annotations

import ast
from typing import Dict, List, Optional, Set, Tuple

from .core import src


class Node:
    __slots__ = ("id", "kind", "ast", "loops", "tries")

    def __init__(self, id: int, kind: str, node: Optional[ast.AST]):
        self.id = id
        self.kind = kind
        self.ast = node
        self.loops: Tuple[int, ...] = ()  # ids of enclosing loop headers, innermost last
        self.tries: Tuple[ast.Try, ...] = ()  # enclosing try statements whose *body* contains the node

    @property
    def lineno(self) -> int:
        return getattr(self.ast, "lineno", 0)

    def expr(self) -> Optional[ast.AST]:
        """The expression / statement evaluated *at* this node."""
        a = self.ast
        if self.kind in ("if", "while"):
            return a.test
        if self.kind == "for":
            return a.iter
        if self.kind == "match":
            return a.subject
        if self.kind == "case":
            return a.guard
        if self.kind == "with":
            return a  # items evaluated here
        if self.kind == "except":
            return a.type
        return a

    def __repr__(self):
        return f"<{self.id}:{self.kind}:{src(self.ast, 50) if self.ast is not None else ''}>"


def is_wildcard_case(c: ast.match_case) -> bool:
    p = c.pattern
    return c.guard is None and isinstance(p, ast.MatchAs) and p.pattern is None


def handler_catches_all(h: ast.ExceptHandler) -> bool:
    if h.type is None:
        return True
    names = []
    t = h.type
    elts = t.elts if isinstance(t, ast.Tuple) else [t]
    for e in elts:
        if isinstance(e, ast.Name):
            names.append(e.id)
        elif isinstance(e, ast.Attribute):
            names.append(e.attr)
    return any(n in ("Exception", "BaseException") for n in names)


def handler_reraises(h: ast.ExceptHandler) -> bool:
    """True when the handler body unconditionally ends in a bare/explicit raise at top level."""
    for st in h.body:
        if isinstance(st, ast.Raise):
            return True
    return False


class CFG:
    def __init__(self, fn: ast.FunctionDef):
        self.fn = fn
        self.nodes: List[Node] = []
        self.succ: Dict[int, List[Tuple[int, Optional[str]]]] = {}
        self.pred: Dict[int, List[Tuple[int, Optional[str]]]] = {}
        self.by_ast: Dict[int, int] = {}  # id(ast node) -> node id
        self.entry = self._new("entry", None).id
        self.exit = self._new("exit", None).id
        self.raise_exit = self._new("raise", None).id
        self._loop_stack: List[Tuple[int, list]] = []  # (header id, break frontier)
        self._try_stack: List[ast.Try] = []
        self._handler_entries: Dict[int, List[int]] = {}  # id(Try) -> handler node ids
        front = self._block(fn.body, [(self.entry, None)])
        for p, lab in front:
            self._edge(p, self.exit, lab)
        self._dom_cache: Dict[bool, Dict[int, Set[int]]] = {}
        self._pdom_cache: Optional[Dict[int, Set[int]]] = None

    # ------------------------------------------------------------ construction
    def _new(self, kind: str, node: Optional[ast.AST]) -> Node:
        n = Node(len(self.nodes), kind, node)
        n.loops = tuple(h for h, _ in getattr(self, "_loop_stack", []))
        n.tries = tuple(getattr(self, "_try_stack", []))
        self.nodes.append(n)
        self.succ[n.id] = []
        self.pred[n.id] = []
        if node is not None:
            self.by_ast.setdefault(id(node), n.id)
        return n

    def _edge(self, a: int, b: int, lab: Optional[str]) -> None:
        if (b, lab) not in self.succ[a]:
            self.succ[a].append((b, lab))
            self.pred[b].append((a, lab))

    def _connect(self, front, nid: int) -> None:
        for p, lab in front:
            self._edge(p, nid, lab)

    def _exc_edges(self, nid: int) -> None:
        """Exceptional edges from node nid according to the current try stack."""
        for t in reversed(self._try_stack):
            hs = self._handler_entries.get(id(t), [])
            for h in hs:
                self._edge(nid, h, "exc")
            if any(handler_catches_all(self.nodes[h].ast) for h in hs):
                return
            if t.finalbody:
                pass  # finally bodies are rare here; treated as transparent for exceptional flow
        self._edge(nid, self.raise_exit, "exc")

    def _block(self, stmts: List[ast.stmt], front):
        for st in stmts:
            front = self._stmt(st, front)
        return front

    def _stmt(self, st: ast.stmt, front):
        if isinstance(st, ast.If):
            n = self._new("if", st)
            self._connect(front, n.id)
            self._exc_edges(n.id)
            f1 = self._block(st.body, [(n.id, "T")])
            f2 = self._block(st.orelse, [(n.id, "F")]) if st.orelse else [(n.id, "F")]
            return f1 + f2
        if isinstance(st, ast.While):
            n = self._new("while", st)
            self._connect(front, n.id)
            self._exc_edges(n.id)
            brk: list = []
            self._loop_stack.append((n.id, brk))
            fb = self._block(st.body, [(n.id, "T")])
            self._loop_stack.pop()
            self._connect(fb, n.id)
            const_true = isinstance(st.test, ast.Constant) and bool(st.test.value) is True
            out = []
            if not const_true:
                out = self._block(st.orelse, [(n.id, "F")]) if st.orelse else [(n.id, "F")]
            return out + brk
        if isinstance(st, (ast.For, ast.AsyncFor)):
            n = self._new("for", st)
            self._connect(front, n.id)
            self._exc_edges(n.id)
            brk = []
            self._loop_stack.append((n.id, brk))
            fb = self._block(st.body, [(n.id, "T")])
            self._loop_stack.pop()
            self._connect(fb, n.id)
            out = self._block(st.orelse, [(n.id, "F")]) if st.orelse else [(n.id, "F")]
            return out + brk
        if isinstance(st, ast.Match):
            n = self._new("match", st)
            self._connect(front, n.id)
            self._exc_edges(n.id)
            cur = [(n.id, None)]
            out = []
            for c in st.cases:
                cn = self._new("case", c)
                self._connect(cur, cn.id)
                self._exc_edges(cn.id)
                out += self._block(c.body, [(cn.id, "T")])
                if is_wildcard_case(c):
                    cur = []
                    break
                cur = [(cn.id, "F")]
            return out + cur
        if isinstance(st, (ast.With, ast.AsyncWith)):
            n = self._new("with", st)
            self._connect(front, n.id)
            self._exc_edges(n.id)
            return self._block(st.body, [(n.id, None)])
        if isinstance(st, ast.Try) or st.__class__.__name__ == "TryStar":
            # handler entries are created first so that body nodes can point at them
            hs = []
            for h in st.handlers:
                hn = self._new("except", h)
                hs.append(hn.id)
            self._handler_entries[id(st)] = hs
            self._try_stack.append(st)
            fb = self._block(st.body, front)
            self._try_stack.pop()
            if st.orelse:
                fb = self._block(st.orelse, fb)
            out = list(fb)
            for hid, h in zip(hs, st.handlers):
                # nodes of handler bodies are outside this try's body (tries tuple captured at creation)
                self.nodes[hid].tries = tuple(self._try_stack)
                out += self._block(h.body, [(hid, None)])
            if st.finalbody:
                out = self._block(st.finalbody, out)
            return out
        # simple statements
        n = self._new("stmt", st)
        self._connect(front, n.id)
        if isinstance(st, ast.Return):
            self._exc_edges(n.id)
            self._edge(n.id, self.exit, None)
            return []
        if isinstance(st, ast.Raise):
            self._exc_edges(n.id)
            return []
        if isinstance(st, ast.Break):
            if self._loop_stack:
                self._loop_stack[-1][1].append((n.id, None))
            return []
        if isinstance(st, ast.Continue):
            if self._loop_stack:
                self._edge(n.id, self._loop_stack[-1][0], None)
            return []
        if not isinstance(st, (ast.Pass, ast.Global, ast.Nonlocal, ast.FunctionDef, ast.ClassDef)):
            self._exc_edges(n.id)
        return [(n.id, None)]

    # ------------------------------------------------------------ queries
    def node_of(self, a: ast.AST) -> Optional[int]:
        """CFG node of a statement, or of the statement enclosing an expression."""
        from .core import parent
        n = a
        while n is not None:
            if id(n) in self.by_ast:
                nid = self.by_ast[id(n)]
                node = self.nodes[nid]
                # an expression inside the *body* of a compound statement maps to its own stmt first,
                # so reaching a compound node here means `a` is part of its header expression.
                return nid
            n = parent(n)
        return None

    def successors(self, n: int, exc: bool = False):
        return [s for s, lab in self.succ[n] if exc or lab != "exc"]

    def predecessors(self, n: int, exc: bool = False):
        return [p for p, lab in self.pred[n] if exc or lab != "exc"]

    def reachable_from(self, start: int, exc: bool = False, avoid_nodes: Set[int] = frozenset(),
                       avoid_edges: Set[Tuple[int, int, Optional[str]]] = frozenset()) -> Set[int]:
        seen = set()
        work = [start]
        while work:
            n = work.pop()
            if n in seen or n in avoid_nodes:
                continue
            seen.add(n)
            for s, lab in self.succ[n]:
                if lab == "exc" and not exc:
                    continue
                if (n, s, lab) in avoid_edges:
                    continue
                work.append(s)
        return seen

    def live_nodes(self, exc: bool = True) -> Set[int]:
        return self.reachable_from(self.entry, exc=exc)

    def dominators(self, exc: bool = False) -> Dict[int, Set[int]]:
        if exc in self._dom_cache:
            return self._dom_cache[exc]
        live = self.reachable_from(self.entry, exc=exc)
        dom = {n: set(live) for n in live}
        dom[self.entry] = {self.entry}
        changed = True
        order = sorted(live)
        while changed:
            changed = False
            for n in order:
                if n == self.entry:
                    continue
                ps = [p for p in self.predecessors(n, exc) if p in live]
                new = set.intersection(*(dom[p] for p in ps)) if ps else set()
                new = new | {n}
                if new != dom[n]:
                    dom[n] = new
                    changed = True
        self._dom_cache[exc] = dom
        return dom

    def dominates(self, a: int, b: int, exc: bool = False) -> bool:
        d = self.dominators(exc)
        if not exc and (b not in d or a not in d):
            # nodes that live only in exception handlers are reachable through exceptional edges only
            d = self.dominators(True)
        return b in d and a in d[b]

    def postdominators(self) -> Dict[int, Set[int]]:
        """Post-dominators w.r.t. the normal exit over non-exceptional edges."""
        if self._pdom_cache is not None:
            return self._pdom_cache
        # nodes that can reach exit
        rev_live = set()
        work = [self.exit]
        while work:
            n = work.pop()
            if n in rev_live:
                continue
            rev_live.add(n)
            work.extend(self.predecessors(n, False))
        pd = {n: set(rev_live) for n in rev_live}
        pd[self.exit] = {self.exit}
        changed = True
        order = sorted(rev_live, reverse=True)
        while changed:
            changed = False
            for n in order:
                if n == self.exit:
                    continue
                ss = [s for s in self.successors(n, False) if s in rev_live]
                new = set.intersection(*(pd[s] for s in ss)) if ss else set()
                new = new | {n}
                if new != pd[n]:
                    pd[n] = new
                    changed = True
        self._pdom_cache = pd
        return pd

    def postdominates(self, a: int, b: int) -> bool:
        pd = self.postdominators()
        return b in pd and a in pd[b]

    def branch_edges(self) -> List[Tuple[int, int, str]]:
        out = []
        for n in self.nodes:
            if n.kind in ("if", "while", "for", "case"):
                for s, lab in self.succ[n.id]:
                    if lab in ("T", "F"):
                        out.append((n.id, s, lab))
        return out

    def conditions_at(self, target: int, exc: bool = False) -> List[Tuple[int, str]]:
        """Branch outcomes (branch node id, 'T'|'F') that hold on *every* path from entry to target
        (edge dominance): removing the edge makes target unreachable."""
        out = []
        if target not in self.reachable_from(self.entry, exc=exc):
            return out
        for b, s, lab in self.branch_edges():
            if b == target and self.nodes[b].kind != "while" and self.nodes[b].kind != "for":
                continue
            r = self.reachable_from(self.entry, exc=exc, avoid_edges={(b, s, lab)})
            if target not in r:
                out.append((b, lab))
        return out

    def facts_at(self, target: int, exc: bool = False) -> List[Tuple[ast.AST, bool]]:
        """Atomic conditions (expr, truth) that hold on every path to `target`: branch outcomes of if/while tests with
        leading `not` stripped, conjunctions split when true, disjunctions split when false."""
        out: List[Tuple[ast.AST, bool]] = []
        for b, lab in self.conditions_at(target, exc):
            node = self.nodes[b]
            if node.kind not in ("if", "while"):
                continue
            out.extend(split_fact(node.ast.test, lab == "T"))
        return out

    def always_passes_through(self, start: int, goal_pred, stop: Optional[int] = None, exc: bool = False) -> bool:
        """Every non-exceptional path from `start` to `stop` (default: normal exit) meets a node n with goal_pred(n).
        (start itself is not tested.)"""
        stop = self.exit if stop is None else stop
        blockers = {n.id for n in self.nodes if goal_pred(n)}
        seen = set()
        work = [s for s in self.successors(start, exc)]
        while work:
            n = work.pop()
            if n in seen:
                continue
            seen.add(n)
            if n in blockers:
                continue
            if n == stop:
                return False
            work.extend(self.successors(n, exc))
        return True

    def paths_exist(self, a: int, b: int, avoid: Set[int] = frozenset(), exc: bool = False) -> bool:
        if a == b:
            return True
        seen = set()
        work = list(self.successors(a, exc))
        while work:
            n = work.pop()
            if n in seen or n in avoid:
                continue
            if n == b:
                return True
            seen.add(n)
            work.extend(self.successors(n, exc))
        return False

    def loop_body_nodes(self, header: int) -> Set[int]:
        return {n.id for n in self.nodes if header in n.loops}

    def stmt_nodes(self):
        return [n for n in self.nodes if n.kind not in ("entry", "exit", "raise")]


def split_fact(e: ast.AST, truth: bool) -> List[Tuple[ast.AST, bool]]:
    if isinstance(e, ast.UnaryOp) and isinstance(e.op, ast.Not):
        return split_fact(e.operand, not truth)
    if isinstance(e, ast.BoolOp):
        if isinstance(e.op, ast.And) and truth:
            return [f for v in e.values for f in split_fact(v, True)]
        if isinstance(e.op, ast.Or) and not truth:
            return [f for v in e.values for f in split_fact(v, False)]
    return [(e, truth)]


def fact_holds(facts, texts, truth: bool) -> bool:
    """Is one of the source texts among the facts with the given truth value?"""
    texts = {texts} if isinstance(texts, str) else set(texts)
    return any(src(e) in texts and t is truth for e, t in facts)


_cfg_cache: Dict[int, CFG] = {}


def cfg_of(fn: ast.FunctionDef) -> CFG:
    k = id(fn)
    if k not in _cfg_cache:
        _cfg_cache[k] = CFG(fn)
    return _cfg_cache[k]

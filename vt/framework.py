"""M8/M9 — findings, known-findings file, rule results, evidence writer, output protocol."""
from __future__ import annotations

import json
import os
import sys
import time
from dataclasses import dataclass, field, asdict
from typing import Any, Callable, Dict, List, Optional

VERIF = os.path.dirname(os.path.dirname(os.path.abspath(__file__)))
KNOWN_FILE = os.path.join(VERIF, "known_findings.json")
EVIDENCE_DIR = os.path.join(VERIF, "evidence")
REPORT_DIR = os.path.join(VERIF, "reports")


@dataclass
class Finding:
    rule: str
    construct: str  # module:qualname:role — never a line number
    message: str
    where: str = ""  # file:line, for the reader only
    witness: List[str] = field(default_factory=list)

    def key(self):
        return (self.rule, self.construct)


@dataclass
class RuleResult:
    rule: str
    title: str = ""
    instances: int = 0  # anchors / sites examined
    obligations: int = 0
    discharged: int = 0
    findings: List[Finding] = field(default_factory=list)
    samples: List[Any] = field(default_factory=list)
    notes: List[str] = field(default_factory=list)
    floor: int = 0  # hand-confirmed minimum number of anchor instances (0 = no floor)

    def ob(self, ok: bool, finding: Optional[Finding] = None) -> bool:
        """Record one obligation."""
        self.obligations += 1
        if ok:
            self.discharged += 1
        elif finding is not None:
            self.findings.append(finding)
        return ok

    def sample(self, s: Any, cap: int = 6) -> None:
        if len(self.samples) < cap:
            self.samples.append(s)


def load_known() -> List[dict]:
    if not os.path.exists(KNOWN_FILE):
        return []
    with open(KNOWN_FILE) as fh:
        data = json.load(fh)
    return data.get("findings", [])


def is_known(known: List[dict], prop: str, f: Finding) -> Optional[dict]:
    for k in known:
        if k.get("status") != "known":
            continue
        if k.get("property") == prop and k.get("rule") == f.rule and k.get("construct") == f.construct:
            return k
    return None


def write_evidence(prop: str, tier: str, level: str, results: List[RuleResult], violations: int,
                   known_hits: int, wall: float, tree_info: dict, explanation: str,
                   assumptions: List[str], trusted_base: List[str], extra: Optional[dict] = None) -> str:
    os.makedirs(EVIDENCE_DIR, exist_ok=True)
    obligations = sum(r.obligations for r in results)
    discharged = sum(r.discharged for r in results)
    instances = sum(r.instances for r in results)
    samples = []
    for r in results:
        for s in r.samples[:4]:
            samples.append({"rule": r.rule, "case": s})
    cov = {
        "explanation": explanation,
        "obligations": obligations,
        "discharged": discharged,
        "evaluations": max(1, instances),
        "distinct_nontrivial": max(0, obligations),
        "rule": "one evaluation = one anchored construct (function, call site, table row, path) examined by a rule; "
                "one obligation = one rule instance on one construct; distinct by construct key",
        "samples": samples or [{"rule": "none", "case": "no sample"}],
        "checker_cmd": f"python3 -m vt.check {prop} --tier {tier}",
        "trusted_base": trusted_base,
        "exhaustive": True,
        "rules": [
            {"rule": r.rule, "title": r.title, "instances": r.instances, "obligations": r.obligations,
             "discharged": r.discharged, "findings": len(r.findings), "floor": r.floor, "notes": r.notes}
            for r in results
        ],
        "analysed": tree_info,
        "known_findings_reported": known_hits,
    }
    if extra:
        cov.update(extra)
    ev = {
        "property_id": prop,
        "tier": tier,
        "seed": int(os.environ.get("VERIF_SEED", "0") or 0),
        "level": level,
        "coverage": cov,
        "assumptions": assumptions,
        "wall_s": round(wall, 3),
        "violations": violations,
    }
    path = os.path.join(EVIDENCE_DIR, f"{prop}.json")
    tmp = path + ".tmp"
    with open(tmp, "w") as fh:
        json.dump(ev, fh, indent=1, default=str)
    os.replace(tmp, path)
    return path


def write_report(prop: str, k: int, f: Finding, tier: str) -> str:
    os.makedirs(REPORT_DIR, exist_ok=True)
    path = os.path.join(REPORT_DIR, f"{prop}-{k}.json")
    with open(path, "w") as fh:
        json.dump({"property": prop, "tier": tier, "rule": f.rule, "construct": f.construct,
                   "message": f.message, "where": f.where, "witness": f.witness}, fh, indent=1)
    return path

"""Generic behaviour-preserving edit sweep (thorough tier and hand tool): one edit per variant — rename a local, swap the arms of an
if/else (negated test), `x op= e` -> `x = x op e`, insert a logging call, swap `==` operands, `range(0, n)` -> `range(n)`, hoist a
call argument into a temporary, swap the operands of a two-operand and/or, flatten `else` after return, add an unused local —
applied to every function of the selected files; every variant is analysed in memory and must raise no new finding."""
import ast, os, sys, json, multiprocessing as mp
from .core import Tree, REPO, AnalysisError
from .selftest import swap_if_else

ALL_KINDS = ["rename", "swapif", "log", "augassign", "swapeq", "range0", "temp", "swapand", "elsereturn", "noop", "cmpflip", "noteq", "nestif", "guardcont",
             "nameconst", "lenzero", "ifexp", "tupleassign", "swapstmt", "returnelse", "kwargs", "extract", "renameparam", "renamemethod", "renameattr", "fromhex", "libkw"]
EXTRA_KINDS = []  # hand tool only until silent
KINDS = list(ALL_KINDS)
def functions(mod):
    for n in ast.walk(mod):
        if isinstance(n, ast.FunctionDef):
            yield n


def gen_variants(files=None, kinds=None):
    global KINDS
    KINDS = list(kinds or ALL_KINDS)
    t = Tree()
    out = []
    for m in t.modules.values():
        if m.short in ("log", "about", "key", "quic.udp_output_builder"):
            continue
        if files is not None and m.relpath not in files:
            continue
        mod = ast.parse(m.src)
        fns = list(functions(mod))
        for fi, fn in enumerate(fns):
            if "rename" in KINDS:
                params = {a.arg for a in fn.args.args + fn.args.kwonlyargs}
                locs = []
                for n in ast.walk(fn):
                    if isinstance(n, ast.Name) and isinstance(n.ctx, ast.Store) and n.id not in params and n.id not in locs:
                        locs.append(n.id)
                globs = {x for n in ast.walk(fn) if isinstance(n, ast.Global) for x in n.names}
                for name in locs:
                    if name in globs:
                        continue
                    out.append((m.relpath, "rename", fi, name))
            if "swapif" in KINDS:
                k = 0
                for n in ast.walk(fn):
                    if isinstance(n, ast.If) and n.orelse and not (len(n.orelse) == 1 and isinstance(n.orelse[0], ast.If)):
                        out.append((m.relpath, "swapif", fi, k))
                        k += 1
            if "log" in KINDS:
                out.append((m.relpath, "log", fi, 0))
            if "swapand" in KINDS:
                k = 0
                for n in ast.walk(fn):
                    if isinstance(n, ast.BoolOp) and len(n.values) == 2 and all(isinstance(v, (ast.Compare, ast.Name, ast.Attribute)) for v in n.values):
                        out.append((m.relpath, "swapand", fi, k))
                        k += 1
            if "elsereturn" in KINDS:
                k = 0
                for n in ast.walk(fn):
                    if isinstance(n, ast.If) and n.orelse and not (len(n.orelse) == 1 and isinstance(n.orelse[0], ast.If)) and n.body and isinstance(n.body[-1], (ast.Return, ast.Continue)):
                        out.append((m.relpath, "elsereturn", fi, k))
                        k += 1
            if "noop" in KINDS:
                out.append((m.relpath, "noop", fi, 0))
            if "swapeq" in KINDS:
                k = 0
                for n in ast.walk(fn):
                    if isinstance(n, ast.Compare) and len(n.ops) == 1 and isinstance(n.ops[0], (ast.Eq, ast.NotEq)):
                        out.append((m.relpath, "swapeq", fi, k))
                        k += 1
            if "range0" in KINDS:
                k = 0
                for n in ast.walk(fn):
                    if isinstance(n, ast.Call) and isinstance(n.func, ast.Name) and n.func.id == "range" and len(n.args) == 2 and isinstance(n.args[0], ast.Constant) and n.args[0].value == 0:
                        out.append((m.relpath, "range0", fi, k))
                        k += 1
            if "temp" in KINDS:
                k = 0
                for n in ast.walk(fn):
                    if isinstance(n, ast.Assign) and isinstance(n.value, ast.Call) and n.value.args and not isinstance(n.value.args[0], (ast.Constant, ast.Name, ast.Starred)):
                        out.append((m.relpath, "temp", fi, k))
                        k += 1
            if "augassign" in KINDS:
                k = 0
                for n in ast.walk(fn):
                    if isinstance(n, ast.AugAssign) and isinstance(n.target, (ast.Name, ast.Attribute)):
                        out.append((m.relpath, "augassign", fi, k))
                        k += 1
            if "cmpflip" in KINDS:
                k = 0
                for n in ast.walk(fn):
                    if isinstance(n, ast.Compare) and len(n.ops) == 1 and isinstance(n.ops[0], (ast.Lt, ast.LtE, ast.Gt, ast.GtE)):
                        out.append((m.relpath, "cmpflip", fi, k))
                        k += 1
            if "noteq" in KINDS:
                k = 0
                for n in ast.walk(fn):
                    if isinstance(n, ast.Compare) and len(n.ops) == 1 and isinstance(n.ops[0], ast.NotEq):
                        out.append((m.relpath, "noteq", fi, k))
                        k += 1
            if "nestif" in KINDS:
                k = 0
                for n in ast.walk(fn):
                    if _nestable(n) or _splittable(n):
                        out.append((m.relpath, "nestif", fi, k))
                        k += 1
            if "guardcont" in KINDS:
                k = 0
                for n in ast.walk(fn):
                    if isinstance(n, (ast.For, ast.While)) and n.body and isinstance(n.body[-1], ast.If) and not n.body[-1].orelse and not n.orelse:
                        out.append((m.relpath, "guardcont", fi, k))
                        k += 1
            if "nameconst" in KINDS:
                k = 0
                _mark_patterns(fn)
                for n in ast.walk(fn):
                    if _nameable(n):
                        out.append((m.relpath, "nameconst", fi, k))
                        k += 1
            if "lenzero" in KINDS:
                k = 0
                for n in ast.walk(fn):
                    if isinstance(n, (ast.If, ast.While)) and _lenzero(n.test) is not None:
                        out.append((m.relpath, "lenzero", fi, k))
                        k += 1
            if "ifexp" in KINDS:
                k = 0
                for n in ast.walk(fn):
                    if _ifexp_able(n):
                        out.append((m.relpath, "ifexp", fi, k))
                        k += 1
            if "tupleassign" in KINDS:
                k = 0
                for p in ast.walk(fn):
                    for fld in ("body", "orelse", "finalbody"):
                        lst = getattr(p, fld, None)
                        if isinstance(lst, list):
                            for i in range(len(lst) - 1):
                                if _tuple_able(lst[i], lst[i + 1]):
                                    out.append((m.relpath, "tupleassign", fi, k))
                                    k += 1
            if "swapstmt" in KINDS:
                k = 0
                for p in ast.walk(fn):
                    for fld in ("body", "orelse", "finalbody"):
                        lst = getattr(p, fld, None)
                        if isinstance(lst, list):
                            for i in range(len(lst) - 1):
                                if _swappable(lst[i], lst[i + 1]):
                                    out.append((m.relpath, "swapstmt", fi, k))
                                    k += 1
            if "returnelse" in KINDS:
                k = 0
                for p in ast.walk(fn):
                    for fld in ("body", "orelse", "finalbody"):
                        lst = getattr(p, fld, None)
                        if isinstance(lst, list):
                            for i in range(len(lst) - 1):
                                if _returnelse_able(lst[i]):
                                    out.append((m.relpath, "returnelse", fi, k))
                                    k += 1
            if "kwargs" in KINDS:
                k = 0
                for n in ast.walk(fn):
                    if isinstance(n, ast.Call) and _kwargs_able(n, t, m):
                        out.append((m.relpath, "kwargs", fi, k))
                        k += 1
            if "fromhex" in KINDS:
                k = 0
                for n in ast.walk(fn):
                    if _is_fromhex(n):
                        out.append((m.relpath, "fromhex", fi, k))
                        k += 1
            if "libkw" in KINDS:
                k = 0
                for n in ast.walk(fn):
                    if _is_byteorder_call(n):
                        out.append((m.relpath, "libkw", fi, k))
                        k += 1
            if "renamemethod" in KINDS and not fn.name.startswith("__"):
                out.append((m.relpath, "renamemethod", fi, fn.name))
            if "renameparam" in KINDS:
                if not (fn.args.vararg or fn.args.kwarg) and not any(isinstance(x, (ast.FunctionDef, ast.Lambda)) for b in fn.body for x in ast.walk(b)):
                    for a in fn.args.args:
                        if a.arg not in ("self", "cls"):
                            out.append((m.relpath, "renameparam", fi, a.arg))
            if "extract" in KINDS:
                for k in range(len(_extractable(fn))):
                    out.append((m.relpath, "extract", fi, k))
    if "renameattr" in KINDS:
        seen = set()
        for m in t.modules.values():
            if files is not None and m.relpath not in files:
                continue
            for c in m.classes.values():
                init = c.methods.get("__init__")
                if init is None:
                    continue
                for n in ast.walk(init.node):
                    if isinstance(n, ast.Attribute) and isinstance(n.value, ast.Name) and n.value.id == "self" and isinstance(n.ctx, ast.Store) and (c.name, n.attr) not in seen:
                        seen.add((c.name, n.attr))
                        out.append((m.relpath, "renameattr", c.name, n.attr))
    return out


def apply_treewide(v):
    """rename a method / function (definition and every reference) or an instance attribute everywhere in the package; returns {relpath: source}"""
    rel, kind, where, name = v
    import glob as _g
    new = name + "_rn"
    paths = sorted(_g.glob(os.path.join(REPO, "tlexport", "**", "*.py"), recursive=True))
    mods = {os.path.relpath(p, REPO): ast.parse(open(p).read()) for p in paths}
    idents = set()
    for mm in mods.values():
        for x in ast.walk(mm):
            if isinstance(x, ast.Name):
                idents.add(x.id)
            elif isinstance(x, ast.Attribute):
                idents.add(x.attr)
    if new in idents:
        return None
    if kind == "renamemethod":
        # only when the name denotes one definition in the whole package (otherwise a consistent rename is not a single refactoring)
        defs = [x for mm in mods.values() for x in ast.walk(mm) if isinstance(x, (ast.FunctionDef, ast.ClassDef)) and x.name == name]
        if len(defs) != 1:
            return None
        # names that also denote an attribute of library objects (e.g. `.decrypt`, `.update`, `.build`) cannot be renamed blindly
        for mm in mods.values():
            for x in ast.walk(mm):
                if isinstance(x, ast.keyword) and x.arg == name:
                    return None
    changed = {}
    for r_, mm in mods.items():
        touched = False
        for x in ast.walk(mm):
            if kind == "renamemethod":
                if isinstance(x, ast.FunctionDef) and x.name == name:
                    x.name = new; touched = True
                elif isinstance(x, ast.Name) and x.id == name:
                    x.id = new; touched = True
                elif isinstance(x, ast.Attribute) and x.attr == name:
                    x.attr = new; touched = True
                elif isinstance(x, ast.alias) and x.name == name:
                    x.name = new; touched = True
            else:
                if isinstance(x, ast.Attribute) and x.attr == name:
                    x.attr = new; touched = True
        if touched:
            changed[r_] = ast.unparse(mm)
    if not changed:
        return None
    return changed, name


def _extractable(fn):
    """indices of top-level compound statements of fn that can be moved into a helper with the same variable names"""
    out = []
    params = [a.arg for a in fn.args.args]
    for i, st in enumerate(fn.body):
        if not isinstance(st, (ast.If, ast.For, ast.While)):
            continue
        if any(isinstance(x, (ast.Return, ast.Yield, ast.YieldFrom, ast.Global, ast.Nonlocal, ast.FunctionDef, ast.Lambda)) for x in ast.walk(st)):
            continue
        # break / continue must belong to loops inside st
        def jumps_out(node, depth):
            for c in ast.iter_child_nodes(node):
                if isinstance(c, (ast.Break, ast.Continue)) and depth == 0:
                    return True
                if jumps_out(c, depth + (1 if isinstance(c, (ast.For, ast.While)) else 0)):
                    return True
            return False
        if jumps_out(st, 1 if isinstance(st, (ast.For, ast.While)) else 0):
            continue
        stored = {x.id for x in ast.walk(st) if isinstance(x, ast.Name) and isinstance(x.ctx, ast.Store)}
        after = {x.id for s2 in fn.body[i + 1:] for x in ast.walk(s2) if isinstance(x, ast.Name)}
        if stored & after:
            continue
        before = set(params) | {x.id for s2 in fn.body[:i] for x in ast.walk(s2) if isinstance(x, ast.Name) and isinstance(x.ctx, ast.Store)}
        if stored & before:
            continue  # rebinding of an outer local would be lost
        out.append(i)
    return out


def _is_fromhex(n):
    return isinstance(n, ast.Call) and isinstance(n.func, ast.Attribute) and n.func.attr == "fromhex" and isinstance(n.func.value, ast.Name) and n.func.value.id in ("bytes", "bytearray") \
        and len(n.args) == 1 and isinstance(n.args[0], ast.Constant) and isinstance(n.args[0].value, str) and n.func.value.id == "bytes"


def _is_byteorder_call(n):
    return isinstance(n, ast.Call) and isinstance(n.func, ast.Attribute) and n.func.attr in ("from_bytes", "to_bytes") and not n.keywords \
        and n.args and isinstance(n.args[-1], ast.Constant) and n.args[-1].value in ("big", "little")


def _swappable(a, b):
    if not (isinstance(a, ast.Assign) and isinstance(b, ast.Assign) and len(a.targets) == 1 and len(b.targets) == 1):
        return False
    ta, tb = a.targets[0], b.targets[0]
    if not (isinstance(ta, ast.Name) and isinstance(tb, ast.Name)) or ta.id == tb.id:
        return False
    if any(isinstance(x, (ast.Call, ast.Await, ast.NamedExpr, ast.Subscript)) for v in (a.value, b.value) for x in ast.walk(v)):
        return False
    na = {x.id for x in ast.walk(a.value) if isinstance(x, ast.Name)}
    nb = {x.id for x in ast.walk(b.value) if isinstance(x, ast.Name)}
    return ta.id not in nb and tb.id not in na


def _returnelse_able(n):
    return isinstance(n, ast.If) and not n.orelse and n.body and isinstance(n.body[-1], (ast.Return, ast.Continue, ast.Raise))


_PARAMS = {}


def _kwargs_able(call, tree, mod):
    """positional call of a repo function / constructor whose parameter names are known: resolved by simple name (module function or class __init__)."""
    if call.keywords or not call.args or any(isinstance(a, ast.Starred) for a in call.args):
        return False
    name = call.func.id if isinstance(call.func, ast.Name) else (call.func.attr if isinstance(call.func, ast.Attribute) else None)
    if name is None:
        return False
    if not _PARAMS:
        for mm in tree.modules.values():
            for qn, f in mm.functions.items():
                ps = [a.arg for a in f.node.args.args]
                if f.node.args.vararg or f.node.args.posonlyargs:
                    continue
                short = qn.split(".")[-1]
                key = qn.split(".")[0] if short == "__init__" else short
                if short == "__init__" or (ps and ps[0] == "self"):
                    ps = ps[1:]
                _PARAMS.setdefault(key, []).append(ps)
    cands = _PARAMS.get(name)
    if not cands or len({tuple(c) for c in cands}) != 1:
        return False
    return len(call.args) <= len(cands[0]) and len(call.args) >= 2


def _mark_patterns(fn):
    for n in ast.walk(fn):
        if isinstance(n, ast.match_case):
            for x in ast.walk(n.pattern):
                x._in_pattern = True


def _nameable(n):
    # (a constant inside a `case` pattern cannot be named: a bare name there is a capture pattern)
    return isinstance(n, ast.Constant) and not getattr(n, "_in_pattern", False) and ((isinstance(n.value, int) and not isinstance(n.value, bool) and n.value > 2) or (isinstance(n.value, bytes) and len(n.value) >= 1))


def _lenzero(t):
    """`len(E) == 0` -> ('not', E); `len(E) != 0` / `len(E) > 0` -> ('pos', E)"""
    if isinstance(t, ast.Compare) and len(t.ops) == 1 and isinstance(t.left, ast.Call) and isinstance(t.left.func, ast.Name) and t.left.func.id == "len" \
            and len(t.left.args) == 1 and isinstance(t.comparators[0], ast.Constant) and t.comparators[0].value == 0:
        if isinstance(t.ops[0], ast.Eq):
            return ("not", t.left.args[0])
        if isinstance(t.ops[0], (ast.NotEq, ast.Gt)):
            return ("pos", t.left.args[0])
    return None


def _ifexp_able(n):
    return isinstance(n, ast.If) and len(n.body) == 1 and len(n.orelse) == 1 and isinstance(n.body[0], ast.Assign) and isinstance(n.orelse[0], ast.Assign) \
        and len(n.body[0].targets) == 1 and len(n.orelse[0].targets) == 1 and ast.dump(n.body[0].targets[0]) == ast.dump(n.orelse[0].targets[0]) \
        and isinstance(n.body[0].targets[0], (ast.Name, ast.Attribute))


def _tuple_able(a, b):
    if not (isinstance(a, ast.Assign) and isinstance(b, ast.Assign) and len(a.targets) == 1 and len(b.targets) == 1):
        return False
    ta, tb = a.targets[0], b.targets[0]
    if not (isinstance(ta, ast.Name) and isinstance(tb, ast.Name)) or ta.id == tb.id:
        return False
    # independent: b's value does not read a's target, and both values are call-free (no side-effect order change)
    if any(isinstance(x, ast.Name) and x.id == ta.id for x in ast.walk(b.value)):
        return False
    if any(isinstance(x, (ast.Call, ast.Await, ast.NamedExpr)) for v in (a.value, b.value) for x in ast.walk(v)):
        return False
    return True


def _nestable(n):
    # if a: (if b: X)  with no else on either -> if a and b: X
    return isinstance(n, ast.If) and not n.orelse and len(n.body) == 1 and isinstance(n.body[0], ast.If) and not n.body[0].orelse \
        and not isinstance(n.test, ast.BoolOp) and not isinstance(n.body[0].test, ast.BoolOp)


def _splittable(n):
    # if a and b: X (no else) -> if a: if b: X
    return isinstance(n, ast.If) and not n.orelse and isinstance(n.test, ast.BoolOp) and isinstance(n.test.op, ast.And) and len(n.test.values) == 2


def apply(v):
    rel, kind, fi, arg = v
    src = open(os.path.join(REPO, rel)).read()
    mod = ast.parse(src)
    fn = list(functions(mod))[fi]
    if kind == "rename":
        # do not rename if nested function shares the name as a parameter, keep it simple
        for n in ast.walk(fn):
            if isinstance(n, ast.Name) and n.id == arg:
                n.id = arg + "_rn"
            elif isinstance(n, ast.arg) and n.arg == arg:
                return None
    elif kind == "swapif":
        k = 0
        for n in ast.walk(fn):
            if isinstance(n, ast.If) and n.orelse and not (len(n.orelse) == 1 and isinstance(n.orelse[0], ast.If)):
                if k == arg:
                    new = swap_if_else(n)
                    n.test, n.body, n.orelse = new.test, new.body, new.orelse
                    break
                k += 1
    elif kind == "log":
        idx = 1 if (fn.body and isinstance(fn.body[0], ast.Expr) and isinstance(fn.body[0].value, ast.Constant)) else 0
        fn.body.insert(idx, ast.parse("logging.debug('enter')").body[0])
        if "import logging" not in src:
            mod.body.insert(0, ast.parse("import logging").body[0])
    elif kind == "swapand":
        k = 0
        for n in ast.walk(fn):
            if isinstance(n, ast.BoolOp) and len(n.values) == 2 and all(isinstance(v, (ast.Compare, ast.Name, ast.Attribute)) for v in n.values):
                if k == arg:
                    n.values.reverse()
                    break
                k += 1
    elif kind == "elsereturn":
        k = 0
        done = False
        for p in ast.walk(fn):
            for fld in ("body", "orelse", "finalbody"):
                lst = getattr(p, fld, None)
                if not isinstance(lst, list):
                    continue
                for i, n in enumerate(lst):
                    if isinstance(n, ast.If) and n.orelse and not (len(n.orelse) == 1 and isinstance(n.orelse[0], ast.If)) and n.body and isinstance(n.body[-1], (ast.Return, ast.Continue)):
                        if k == arg and not done:
                            tail = n.orelse
                            n.orelse = []
                            lst[i + 1:i + 1] = tail
                            done = True
                        k += 1
                if done:
                    break
            if done:
                break
    elif kind == "noop":
        idx = 1 if (fn.body and isinstance(fn.body[0], ast.Expr) and isinstance(fn.body[0].value, ast.Constant)) else 0
        fn.body.insert(idx, ast.parse("unused_marker = 0").body[0])
    elif kind == "swapeq":
        k = 0
        for n in ast.walk(fn):
            if isinstance(n, ast.Compare) and len(n.ops) == 1 and isinstance(n.ops[0], (ast.Eq, ast.NotEq)):
                if k == arg:
                    n.left, n.comparators[0] = n.comparators[0], n.left
                    break
                k += 1
    elif kind == "range0":
        k = 0
        for n in ast.walk(fn):
            if isinstance(n, ast.Call) and isinstance(n.func, ast.Name) and n.func.id == "range" and len(n.args) == 2 and isinstance(n.args[0], ast.Constant) and n.args[0].value == 0:
                if k == arg:
                    n.args = n.args[1:]
                    break
                k += 1
    elif kind == "temp":
        k = 0
        for n in ast.walk(fn):
            if isinstance(n, ast.Assign) and isinstance(n.value, ast.Call) and n.value.args and not isinstance(n.value.args[0], (ast.Constant, ast.Name, ast.Starred)):
                if k == arg:
                    tmp = ast.Assign(targets=[ast.Name("tmp_arg", ast.Store())], value=n.value.args[0])
                    n.value.args[0] = ast.Name("tmp_arg", ast.Load())
                    for p in ast.walk(fn):
                        for fld in ("body", "orelse", "finalbody"):
                            lst = getattr(p, fld, None)
                            if isinstance(lst, list) and n in lst:
                                lst.insert(lst.index(n), tmp)
                                break
                    break
                k += 1
    elif kind == "augassign":
        k = 0
        for n in ast.walk(fn):
            if isinstance(n, ast.AugAssign) and isinstance(n.target, (ast.Name, ast.Attribute)):
                if k == arg:
                    import copy
                    load = copy.deepcopy(n.target)
                    for x in ast.walk(load):
                        if hasattr(x, "ctx"):
                            x.ctx = ast.Load()
                    newst = ast.Assign(targets=[n.target], value=ast.BinOp(left=load, op=n.op, right=n.value))
                    # replace in parent: brute force
                    for p in ast.walk(fn):
                        for fld in ("body", "orelse", "finalbody"):
                            lst = getattr(p, fld, None)
                            if isinstance(lst, list) and n in lst:
                                lst[lst.index(n)] = newst
                    break
                k += 1
    elif kind == "cmpflip":
        k = 0
        flip = {ast.Lt: ast.Gt, ast.Gt: ast.Lt, ast.LtE: ast.GtE, ast.GtE: ast.LtE}
        for n in ast.walk(fn):
            if isinstance(n, ast.Compare) and len(n.ops) == 1 and isinstance(n.ops[0], (ast.Lt, ast.LtE, ast.Gt, ast.GtE)):
                if k == arg:
                    n.left, n.comparators[0] = n.comparators[0], n.left
                    n.ops = [flip[type(n.ops[0])]()]
                    break
                k += 1
    elif kind == "noteq":
        k = 0
        for n in ast.walk(fn):
            if isinstance(n, ast.Compare) and len(n.ops) == 1 and isinstance(n.ops[0], ast.NotEq):
                if k == arg:
                    inner = ast.Compare(left=n.left, ops=[ast.Eq()], comparators=n.comparators)
                    _replace_node(fn, n, ast.UnaryOp(op=ast.Not(), operand=inner))
                    break
                k += 1
    elif kind == "nestif":
        k = 0
        for n in ast.walk(fn):
            if _nestable(n) or _splittable(n):
                if k == arg:
                    if _nestable(n):
                        inner = n.body[0]
                        n.test = ast.BoolOp(op=ast.And(), values=[n.test, inner.test])
                        n.body = inner.body
                    else:
                        a, b = n.test.values
                        n.test = a
                        n.body = [ast.If(test=b, body=n.body, orelse=[])]
                    break
                k += 1
    elif kind == "guardcont":
        k = 0
        for n in ast.walk(fn):
            if isinstance(n, (ast.For, ast.While)) and n.body and isinstance(n.body[-1], ast.If) and not n.body[-1].orelse and not n.orelse:
                if k == arg:
                    last = n.body[-1]
                    guard = ast.If(test=ast.UnaryOp(op=ast.Not(), operand=last.test), body=[ast.Continue()], orelse=[])
                    n.body[-1:] = [guard] + last.body
                    break
                k += 1
    elif kind == "nameconst":
        k = 0
        _mark_patterns(fn)
        for n in ast.walk(fn):
            if _nameable(n):
                if k == arg:
                    cname = "CONST_%s" % (format(n.value, "X") if isinstance(n.value, int) else n.value.hex().upper())
                    mod.body.insert(_after_imports(mod), ast.Assign(targets=[ast.Name(cname, ast.Store())], value=ast.Constant(n.value)))
                    _replace_node(fn, n, ast.Name(cname, ast.Load()))
                    break
                k += 1
    elif kind == "lenzero":
        k = 0
        for n in ast.walk(fn):
            if isinstance(n, (ast.If, ast.While)) and _lenzero(n.test) is not None:
                if k == arg:
                    how, e = _lenzero(n.test)
                    n.test = ast.UnaryOp(op=ast.Not(), operand=e) if how == "not" else e
                    break
                k += 1
    elif kind == "ifexp":
        k = 0
        for n in ast.walk(fn):
            if _ifexp_able(n):
                if k == arg:
                    new = ast.Assign(targets=[n.body[0].targets[0]], value=ast.IfExp(test=n.test, body=n.body[0].value, orelse=n.orelse[0].value))
                    _replace_node(fn, n, new)
                    break
                k += 1
    elif kind == "tupleassign":
        k = 0
        done = False
        for p in ast.walk(fn):
            for fld in ("body", "orelse", "finalbody"):
                lst = getattr(p, fld, None)
                if isinstance(lst, list) and not done:
                    for i in range(len(lst) - 1):
                        if _tuple_able(lst[i], lst[i + 1]):
                            if k == arg:
                                a, b = lst[i], lst[i + 1]
                                new = ast.Assign(targets=[ast.Tuple(elts=[a.targets[0], b.targets[0]], ctx=ast.Store())], value=ast.Tuple(elts=[a.value, b.value], ctx=ast.Load()))
                                lst[i:i + 2] = [new]
                                done = True
                                break
                            k += 1
    elif kind == "swapstmt":
        k = 0
        done = False
        for p in ast.walk(fn):
            for fld in ("body", "orelse", "finalbody"):
                lst = getattr(p, fld, None)
                if isinstance(lst, list) and not done:
                    for i in range(len(lst) - 1):
                        if _swappable(lst[i], lst[i + 1]):
                            if k == arg:
                                lst[i], lst[i + 1] = lst[i + 1], lst[i]
                                done = True
                                break
                            k += 1
    elif kind == "returnelse":
        k = 0
        done = False
        for p in ast.walk(fn):
            for fld in ("body", "orelse", "finalbody"):
                lst = getattr(p, fld, None)
                if isinstance(lst, list) and not done:
                    for i in range(len(lst) - 1):
                        if _returnelse_able(lst[i]):
                            if k == arg:
                                lst[i].orelse = lst[i + 1:]
                                del lst[i + 1:]
                                done = True
                                break
                            k += 1
    elif kind == "kwargs":
        k = 0
        t = Tree()
        m = next(mm for mm in t.modules.values() if mm.relpath == rel)
        for n in ast.walk(fn):
            if isinstance(n, ast.Call) and _kwargs_able(n, t, m):
                if k == arg:
                    name = n.func.id if isinstance(n.func, ast.Name) else n.func.attr
                    ps = _PARAMS[name][0]
                    # keep the first argument positional, pass the others by keyword
                    n.keywords = [ast.keyword(arg=ps[i], value=a) for i, a in enumerate(n.args) if i >= 1]
                    n.args = n.args[:1]
                    break
                k += 1
    elif kind == "renameparam":
        new = arg + "_p"
        if any(isinstance(x, ast.Name) and x.id == new for x in ast.walk(fn)):
            return None
        # callers that pass this parameter by keyword (anywhere in the repo) make the rename a cross-file edit: skip those
        import glob as _g
        for path in _g.glob(os.path.join(REPO, "tlexport", "**", "*.py"), recursive=True):
            for n in ast.walk(ast.parse(open(path).read())):
                if isinstance(n, ast.Call) and any(k.arg == arg for k in n.keywords):
                    nm = n.func.id if isinstance(n.func, ast.Name) else (n.func.attr if isinstance(n.func, ast.Attribute) else None)
                    if nm in (fn.name,) or fn.name == "__init__":
                        return None
        for a in fn.args.args:
            if a.arg == arg:
                a.arg = new
        for x in ast.walk(fn):
            if isinstance(x, ast.Name) and x.id == arg:
                x.id = new
    elif kind == "extract":
        idx = _extractable(fn)
        if arg >= len(idx):
            return None
        i = idx[arg]
        st = fn.body[i]
        params = [a.arg for a in fn.args.args]
        before = set(params) | {x.id for s2 in fn.body[:i] for x in ast.walk(s2) if isinstance(x, ast.Name) and isinstance(x.ctx, ast.Store)}
        loads = []
        for x in ast.walk(st):
            if isinstance(x, ast.Name) and isinstance(x.ctx, ast.Load) and x.id in before and x.id not in loads and x.id != "self":
                loads.append(x.id)
        is_method = bool(params) and params[0] == "self"
        hname = "_extracted_part"
        args = (["self"] if is_method else []) + loads
        helper = ast.parse(f"def {hname}({', '.join(args)}):\n    pass").body[0]
        helper.body = [st]
        call = ast.parse((f"self.{hname}(" if is_method else f"{hname}(") + ", ".join(loads) + ")").body[0]
        fn.body[i] = call
        # put the helper next to fn (same class body or module)
        placed = False
        for p in ast.walk(mod):
            lst = getattr(p, "body", None)
            if isinstance(lst, list) and fn in lst:
                lst.insert(lst.index(fn) + 1, helper)
                placed = True
                break
        if not placed:
            return None
    elif kind == "fromhex":
        k = 0
        for n in ast.walk(fn):
            if _is_fromhex(n):
                if k == arg:
                    _replace_node(fn, n, ast.Constant(bytes.fromhex(n.args[0].value)))
                    break
                k += 1
    elif kind == "libkw":
        k = 0
        for n in ast.walk(fn):
            if _is_byteorder_call(n):
                if k == arg:
                    n.keywords = [ast.keyword(arg="byteorder", value=n.args[-1])]
                    n.args = n.args[:-1]
                    break
                k += 1
    ast.fix_missing_locations(mod)
    return ast.unparse(mod), fn.name


def _after_imports(mod):
    i = 0
    for j, st in enumerate(mod.body):
        if isinstance(st, (ast.Import, ast.ImportFrom)) or (j == 0 and isinstance(st, ast.Expr) and isinstance(st.value, ast.Constant)):
            i = j + 1
    return i


def _replace_node(root, old, new):
    for p in ast.walk(root):
        for fld, val in ast.iter_fields(p):
            if val is old:
                setattr(p, fld, new)
                return True
            if isinstance(val, list):
                for i, x in enumerate(val):
                    if x is old:
                        val[i] = new
                        return True
    return False



_base = {}


def _work(args):
    v, props = args
    from .check import run_property
    if v[1] in ("renamemethod", "renameattr"):
        r = apply_treewide(v)
        if r is None:
            return (v, None, [])
        overrides, fname = r
    else:
        r = apply(v)
        if r is None:
            return (v, None, [])
        new_src, fname = r
        overrides = {v[0]: new_src}
    try:
        for rel_, src_ in overrides.items():
            compile(src_, rel_, "exec")
    except SyntaxError:
        return (v, fname, [])
    tree = Tree(overrides=overrides)
    new = []
    for p in props:
        if p not in _base:
            c, res, viol, known = run_property(p, "quick", quiet=True, write=False, tree=Tree(), controls=False)
            _base[p] = {(f.rule, f.construct) for f in viol + [k[0] for k in known]}
        try:
            c, res, viol, known = run_property(p, "quick", quiet=True, write=False, tree=tree, controls=False)
            for f in viol + [k[0] for k in known]:
                if (f.rule, f.construct) not in _base[p]:
                    new.append((p, f.rule, f.construct))
        except AnalysisError as e:
            new.append((p, "ANALYSIS-ERROR", str(e)[:120]))
        except Exception as e:
            new.append((p, "CRASH", f"{type(e).__name__}: {e}"[:120]))
    return (v, fname, new)


def anchored_files(prop: str):
    path = os.path.join(os.path.dirname(os.path.dirname(os.path.abspath(__file__))), "properties.jsonl")
    for line in open(path):
        p = json.loads(line)
        if p["id"] == prop:
            return set(p["anchors"]["files"])
    return None


def run_sweep(prop: str, jobs: int = 16) -> dict:
    files = anchored_files(prop)
    vs = gen_variants(files=files)
    total = len(vs)
    cap = int(os.environ.get("VT_SWEEP_CAP", "360"))
    if total > cap:
        # deterministic, kind-stratified subsample (the hand tool tools/preserve_sweep.py runs all of them)
        by_kind = {}
        for v in vs:
            by_kind.setdefault(v[1], []).append(v)
        share = max(4, cap // max(1, len(by_kind)))
        vs = []
        for k in sorted(by_kind):
            lst = by_kind[k]
            step = max(1, len(lst) // share)
            vs.extend(lst[::step][:share])
    with mp.Pool(min(jobs, os.cpu_count() or 1)) as pool:
        results = pool.map(_work, [(v, [prop]) for v in vs], chunksize=4)
    bad = [(v, fname, new) for v, fname, new in results if new]
    kinds = {}
    for v, fname, new in results:
        kinds[v[1]] = kinds.get(v[1], 0) + 1
    if bad:
        msg = "; ".join(f"{v[0]}:{fname}:{v[1]}#{v[3]} -> {new[0][1]} {new[0][2]}" for v, fname, new in bad[:6])
        raise AnalysisError(f"generic preserve sweep: {len(bad)} of {len(results)} behaviour-preserving variants raised new findings: {msg}")
    return {"behaviour_preserving_variants": len(results), "silent": len(results), "generated": total, "by_kind": kinds, "files": sorted(files or [])}


# ------------------------------------------------------------------ behaviour-changing probes (evidence of sensitivity, not a verdict)
PROBE_OPS = ["role-token", "cmp-flip", "const-pm1", "drop-effect"]


def gen_probes(files, limit_per_op: int, seed: int):
    import random
    rnd = random.Random(seed)
    t = Tree()
    allv = {op: [] for op in PROBE_OPS}
    for m in t.modules.values():
        if files is not None and m.relpath not in files:
            continue
        mod = ast.parse(m.src)
        fns = list(functions(mod))
        for fi, fn in enumerate(fns):
            k = {op: 0 for op in PROBE_OPS}
            for n in ast.walk(fn):
                if isinstance(n, ast.Attribute) and any(tok in n.attr.split("_") for tok in ("server", "client")):
                    allv["role-token"].append((m.relpath, "role-token", fi, k["role-token"]))
                    k["role-token"] += 1
                if isinstance(n, ast.Compare) and len(n.ops) == 1 and isinstance(n.ops[0], (ast.Lt, ast.LtE, ast.Gt, ast.GtE, ast.Eq, ast.NotEq)):
                    allv["cmp-flip"].append((m.relpath, "cmp-flip", fi, k["cmp-flip"]))
                    k["cmp-flip"] += 1
                if isinstance(n, ast.Constant) and isinstance(n.value, int) and not isinstance(n.value, bool) and 0 <= n.value <= 64:
                    allv["const-pm1"].append((m.relpath, "const-pm1", fi, k["const-pm1"]))
                    k["const-pm1"] += 1
                if isinstance(n, ast.AugAssign) or (isinstance(n, ast.Expr) and isinstance(n.value, ast.Call) and isinstance(n.value.func, ast.Attribute)
                                                   and n.value.func.attr in ("append", "extend", "add", "clear", "update")):
                    allv["drop-effect"].append((m.relpath, "drop-effect", fi, k["drop-effect"]))
                    k["drop-effect"] += 1
    out = []
    for op in PROBE_OPS:
        lst = allv[op]
        rnd.shuffle(lst)
        out.extend(lst[:limit_per_op])
    return out


def apply_probe(v):
    rel, kind, fi, arg = v
    srctext = open(os.path.join(REPO, rel)).read()
    mod = ast.parse(srctext)
    fn = list(functions(mod))[fi]
    k = 0
    for n in ast.walk(fn):
        if kind == "role-token" and isinstance(n, ast.Attribute) and any(tok in n.attr.split("_") for tok in ("server", "client")):
            if k == arg:
                n.attr = "_".join({"server": "client", "client": "server"}.get(t, t) for t in n.attr.split("_"))
                break
            k += 1
        elif kind == "cmp-flip" and isinstance(n, ast.Compare) and len(n.ops) == 1 and isinstance(n.ops[0], (ast.Lt, ast.LtE, ast.Gt, ast.GtE, ast.Eq, ast.NotEq)):
            if k == arg:
                flip = {ast.Lt: ast.LtE, ast.LtE: ast.Lt, ast.Gt: ast.GtE, ast.GtE: ast.Gt, ast.Eq: ast.NotEq, ast.NotEq: ast.Eq}
                n.ops = [flip[type(n.ops[0])]()]
                break
            k += 1
        elif kind == "const-pm1" and isinstance(n, ast.Constant) and isinstance(n.value, int) and not isinstance(n.value, bool) and 0 <= n.value <= 64:
            if k == arg:
                n.value = n.value + 1
                break
            k += 1
        elif kind == "drop-effect" and (isinstance(n, ast.AugAssign) or (isinstance(n, ast.Expr) and isinstance(n.value, ast.Call) and isinstance(n.value.func, ast.Attribute)
                                                                          and n.value.func.attr in ("append", "extend", "add", "clear", "update"))):
            if k == arg:
                for p in ast.walk(fn):
                    for fld in ("body", "orelse", "finalbody"):
                        lst = getattr(p, fld, None)
                        if isinstance(lst, list) and n in lst:
                            lst[lst.index(n)] = ast.Pass()
                break
            k += 1
    ast.fix_missing_locations(mod)
    return ast.unparse(mod), fn.name




def _probe_work(args):
    v, prop = args
    from .check import run_property
    try:
        new_src, fname = apply_probe(v)
        compile(new_src, v[0], "exec")
    except Exception:
        return (v, None)
    tree = Tree(overrides={v[0]: new_src})
    if prop not in _base:
        c, res, viol, known = run_property(prop, "quick", quiet=True, write=False, tree=Tree(), controls=False)
        _base[prop] = {(f.rule, f.construct) for f in viol + [k[0] for k in known]}
    try:
        c, res, viol, known = run_property(prop, "quick", quiet=True, write=False, tree=tree, controls=False)
        new = [(f.rule, f.construct) for f in viol + [k[0] for k in known] if (f.rule, f.construct) not in _base[prop]]
        return (v, "reported" if new else "silent")
    except AnalysisError:
        return (v, "analysis-error")
    except Exception:
        return (v, "crash")


def run_probes(prop: str, limit_per_op: int = 40, jobs: int = 16) -> dict:
    """Single-token behaviour-changing probes in the anchored files: how many does the property's check report?
    Not a verdict (a probe need not violate the property, e.g. a role swap inside a logging call); reported as evidence of sensitivity."""
    files = anchored_files(prop)
    seed = int(os.environ.get("VERIF_SEED", "0") or 0)
    vs = gen_probes(files, limit_per_op, seed)
    with mp.Pool(min(jobs, os.cpu_count() or 1)) as pool:
        results = pool.map(_probe_work, [(v, prop) for v in vs], chunksize=4)
    out = {}
    for v, res in results:
        if res is None:
            continue
        d = out.setdefault(v[1], {"reported": 0, "silent": 0, "analysis-error": 0, "crash": 0})
        d[res] += 1
    return out

"""Property table: which rules decide which clauses of which property."""
from __future__ import annotations

from functools import partial

from .rules import mirror, tables, keylog, checksum, pcapng, pkn, cli, state, meta, tcp, escape, progress, tls, output, quic, kdf, frames, guards

TRUSTED = ["CPython ast parser", "the CFG / dataflow / normaliser / guard evaluator of vt/",
           "frozen reference tables under /verif/ref and in vt/rules (IANA registry copy, RFC layouts, labels)",
           "library behaviour of cryptography, scapy, dpkt, argparse"]


def _level_other(results, violations, known):
    return "other"


PROPS = {}


def prop(id, rules, explanation, assumptions, controls=(), level=_level_other):
    PROPS[id] = {"rules": rules, "explanation": explanation, "assumptions": list(assumptions), "trusted_base": TRUSTED,
                 "controls": list(controls), "level": level}


def B1_for(*mods):
    return partial(mirror.rule_B1, modules=list(mods))


def _anchored(pid):
    import json, os
    path = os.path.join(os.path.dirname(os.path.dirname(os.path.abspath(__file__))), "properties.jsonl")
    for line in open(path):
        d = json.loads(line)
        if d["id"] == pid:
            return sorted(f for f in d["anchors"]["files"] if f.endswith(".py"))
    return []


T = "tlexport/"
Q = "tlexport/quic/"
GI_SCOPE = {
    "C01": [(T + "session.py", None), (T + "decryptor.py", None), (T + "key_derivator.py", None), (T + "cipher_suite_parser.py", None), (T + "output_builder.py", None),
            (T + "main.py", "handle_packet|run"), (T + "packet.py", None), (T + "tlsrecord.py", None)],
    "C02": [(Q + "quic_session.py", None), (Q + "quic_dissector.py", None), (Q + "quic_output_builder.py", None), (Q + "quic_tls_parser.py", None), (Q + "quic_frame.py", None),
            (Q + "quic_key_generation.py", None), (Q + "quic_decryptor.py", None), (Q + "quic_packet.py", None), (Q + "quic_decode.py", None), (T + "main.py", "handle_quic_packet|run")],
    "C03": [(T + "main.py", "handle_packet|handle_quic_packet|run")],
    "C04": [(T + "main.py", "handle_packet|handle_quic_packet|run"), (T + "session.py", "matches_session|set_client_and_server_ports|find_session_secrets|__init__"),
            (Q + "quic_session.py", "matches_session_.*|set_server_client_address|packet_isserver|set_tls_decryptors|__init__"), (T + "keylog_reader.py", None)],
    "C05": [(T + "session.py", "handle_packet|get_tls_records|extract_.*_buf"), (T + "main.py", "handle_packet|run")],
    "C06": [(T + "output_builder.py", None), (Q + "quic_output_builder.py", None), (Q + "quic_session.py", "build_output"), (T + "main.py", "run|handle_packet"),
            (T + "session.py", "extract_.*_buf|decrypt|handle_packet")],
    "C07": [(T + "session.py", "handle_tls_record|extract_.*_buf|set_client_and_server_ports|get_tls_records"), (T + "output_builder.py", None), (Q + "quic_output_builder.py", None),
            (T + "packet.py", None), (T + "dpkt_dsb.py", "__init__|__iter__"), (Q + "quic_session.py", "handle_frame|handle_crypto_frame|build_output|set_server_client_address|handle_packet")],
    "C08": [(T + "session.py", "get_tls_records|extract_.*_buf|handle_tls_record|handle_packet|decrypt"), (T + "main.py", "handle_packet|handle_quic_packet|run"),
            (Q + "quic_session.py", "handle_packet|handle_quic_packet|handle_frame|handle_crypto_frame|build_output"), (Q + "quic_output_builder.py", None),
            (T + "output_builder.py", None)],
    "C09": [(T + "keylog_reader.py", None), (T + "dpkt_dsb.py", "__init__|__iter__"), (T + "main.py", "handle_packet|handle_quic_packet|run"), (T + "packet.py", None),
            (T + "session.py", "find_session_secrets|generate_keys"), (Q + "quic_session.py", "set_tls_decryptors")],
    "C10": [(T + "main.py", None), (T + "output_builder.py", "__init__"), (Q + "quic_output_builder.py", "__init__"), (T + "session.py", "set_client_and_server_ports"),
            (Q + "quic_session.py", "set_server_client_address")],
    "C11": [(T + "checksums.py", None), (T + "main.py", "run")],
    "C12": [(T + "dpkt_dsb.py", "__init__|__iter__"), (T + "main.py", "run")],
    "C13": [(T + "session.py", "handle_tls_record|handle_tls_.*_record|handle_alert|handle_decrypted_.*|handle_handshake_finished|generate_keys|handle_tls_.*_hello|decrypt"), (Q + "quic_output_builder.py", "build"), (Q + "quic_session.py", "handle_frame|handle_crypto_frame"),
            (T + "main.py", "run")],
    "C14": [(T + "cipher_suite_parser.py", None)],
    "C15": [(T + "key_derivator.py", None), (T + "session.py", "generate_keys"), (T + "decryptor.py", "parse_keys|__init__|update_keys"), (Q + "quic_key_generation.py", None),
            (Q + "quic_session.py", "set_tls_decryptors|set_initial_decryptor|check_key_epoch|handle_crypto_frame|handle_packet"), (Q + "quic_decryptor.py", "__init__")],
    "C16": [(Q + "quic_session.py", "get_full_packet_number|decrypt_packet|set_packet_number_spaces|check_key_epoch"), (Q + "quic_dissector.py", "remove_header_protection|extract_quic_packet")],
    "C17": [(Q + "quic_frame.py", None), (Q + "quic_decode.py", None)],
    "C18": [(T + "main.py", "run"), (Q + "quic_output_builder.py", None), (T + "output_builder.py", None)],
}


def GI_for(pid):
    f = partial(guards.rule_GI, scope=GI_SCOPE[pid])
    f.__name__ = "rule_GI"
    return f


def STALE_for(pid):
    f = partial(guards.rule_STALE, scope=GI_SCOPE[pid])
    f.__name__ = "rule_STALE"
    return f


def LDI_for(pid):
    f = partial(guards.rule_LDI, scope=GI_SCOPE[pid])
    f.__name__ = "rule_LDI"
    return f


def LSI_for(pid):
    f = partial(guards.rule_LSI, scope=GI_SCOPE[pid])
    f.__name__ = "rule_LSI"
    return f


def HI_for(pid):
    f = partial(guards.rule_HI, scope=GI_SCOPE[pid])
    f.__name__ = "rule_HI"
    return f


def WSI_for(pid):
    f = partial(guards.rule_WSI, scope=GI_SCOPE[pid])
    f.__name__ = "rule_WSI"
    return f


def B2_for(*mods):
    return partial(mirror.rule_B2, pairs=list(mods))


prop("C01",
     lambda tier: [tables.rule_T1, GI_for("C01"), WSI_for("C01"), LDI_for("C01"), LSI_for("C01"), HI_for("C01"), STALE_for("C01"), tls.rule_A5, B1_for("decryptor", "session"), tables.rule_T4, tables.rule_T3_classes, tables.rule_T3_iv, tls.rule_types, tls.rule_A4, tls.rule_PAD,
                   tls.rule_T10, tls.rule_D1, output.rule_A8, tcp.rule_tls_causality, output.rule_T7_split, output.rule_A7, B2_for("output_builder", "session"),
                   tcp.rule_framing, tcp.rule_A9, tcp.rule_full_scans, tcp.rule_A6a, output.rule_packet_fields, kdf.rule_T5_tls, kdf.rule_B4, state.rule_D6_ownership, escape.rule_A1_records],
     "Decides the necessary structure of per-record state and dispatch: sequence number read/increment pairing, CBC residue chaining from ciphertext, RC4 contexts "
     "created once, key switch at Finished assigning key+IV+seq of one direction (A5); direction arms are mirror images (B1); decrypt() dispatch equals the record "
     "protection of every valid (version, bulk) pair, by finite-domain guard evaluation (T4); parser/decryptor/IV-length tables agree (T3); record / handshake type "
     "constants (T4t); fail-closed gate (A4); TLS 1.3 padding strip (PAD); ClientHello/ServerHello layouts by symbolic cursor and version decision vs the enum (T10); "
     "only decrypt results reach the payload (D1); records appended and consumed in processing order, every packet buffered and extracted unconditionally (A8, CAUS); "
     "framing / dedupe / full scans (FR, A9, A6a, FS); a fault in one released record stays inside the record loop, so every released record is handled exactly once and the release list is cleared (A1r); Packet field binding (PKT); key names and argument roles (T5t, B4); state ownership (D6a); builder order and "
     "re-split (A7, T7s, B2). Does not decide AEAD/CBC/RC4 arithmetic inside "
     "the cryptography library nor MAC/padding lengths (unit tests cover those at sequence number 0).",
     ["cryptography's AEAD / CBC / ARC4 implementations"], controls=["c01-drop-seq-increment"])

prop("C02",
     lambda tier: [kdf.rule_B4, pkn.rule_E1, GI_for("C02"), WSI_for("C02"), LDI_for("C02"), LSI_for("C02"), HI_for("C02"), STALE_for("C02"), frames.rule_varint, quic.rule_D8, quic.rule_T5_quic, quic.rule_T9_aad, quic.rule_T9_hp, quic.rule_epoch, quic.rule_D7b, quic.rule_frame_attrs,
                   B1_for("quic.quic_session", "quic.quic_dissector", "quic.quic_decryptor", "quic.quic_tls_parser", "quic.quic_output_builder"),
                   pkn.rule_pn_spaces, progress.rule_A2, quic.rule_itermut, frames.rule_T8, state.rule_attr_kinds, tcp.rule_full_scans, quic.rule_crypto_reassembly, kdf.rule_T6_quic, quic.rule_quic_handshake_state, state.rule_D6_ownership],
     "Decides: output grouping merges frames only within one input datagram and emits closed groups with their own time/direction (D8); key-name agreement producer → "
     "dissector/session with role and epoch, list positions of QuicDecryptor keys, decryptor per packet type (T5q); AAD = header in wire order per header form, nonce "
     "construction (T9a); header-protection constants (T9h); key-phase epoch rule (EPO); connection-ID matching only on non-empty IDs, CID learning (D7b); frame "
     "attributes and STREAM/CRYPTO type sets agree between registry, session and builder (A3f); direction arms mirror (B1); packet-number spaces (PNS); coalesced-"
     "packet loop progress (A2); CRYPTO reassembly per direction and space: sort by offset, consume contiguous frames, advance by length (CRY), no removal from a list "
     "while it is iterated (ITER); TLS decryptors rebuilt only on new handshake data, Retry discards derived keys, Initial keys from the first DCID (QHS); full scans "
     "without break/skip (FS); container kinds of instance attributes stable (KIND); QUIC key-derivation call sites (T6). Does not decide header-protection / AEAD "
     "arithmetic nor key-phase history semantics.",
     ["cryptography's AEAD implementations; struct.unpack_from semantics"], controls=["c02-merge-without-ts"])

prop("C03",
     lambda tier: [tables.rule_T2, tables.rule_T4, tls.rule_A5, pcapng.rule_T9_pcapng, GI_for("C03"), WSI_for("C03"), LDI_for("C03"), LSI_for("C03"), HI_for("C03"), STALE_for("C03"), escape.rule_A1, escape.rule_A1_records, escape.rule_A1_quic_packets, quic.rule_itermut, progress.rule_A2, tls.rule_A4, tls.rule_D1, state.rule_D6_ownership,
                   tcp.rule_framing, B2_for("session"), state.rule_attr_kinds, mirror.rule_B3_match, quic.rule_D7b],
     "Decides 'never makes the run fail' as an interprocedural may-raise analysis: every site of classes S1–S6 (raise, index/key lookup, non-total external call, "
     "possibly-unbound local, attribute not set by every constructor path, data-dependent division) reachable from an iteration of run()'s capture loop or "
     "finalisation loops is covered by a handler inside that iteration (A1), per record for TLS (A1r), the dissector absorbs its own faults (A1q); every data-driven "
     "loop makes progress (A2); 'never ciphertext or invented bytes' as gate dominance (A4) and payload provenance (D1); 'never changes other flows' as state "
     "ownership (D6a). Does not decide that the victim's output is a prefix of the true plaintext under wrong secrets, nor time/memory blow-up, nor exceptions "
     "outside S1–S6 (MemoryError, RecursionError).",
     ["the whitelist of total callables printed in vt/rules/escape.py"], controls=["c03-narrow-handler"])

prop("C04",
     lambda tier: [keylog.rule_E2_pipeline, checksum.rule_A6b, cli.rule_D4, GI_for("C04"), WSI_for("C04"), LDI_for("C04"), LSI_for("C04"), HI_for("C04"), STALE_for("C04"), state.rule_D6_ownership, mirror.rule_B3_match, keylog.rule_D7, quic.rule_D7b, cli.rule_A6c, mirror.rule_B3_bind, escape.rule_A1,
                   state.rule_attr_kinds, output.rule_packet_fields, kdf.rule_B4],
     "Decides: per-flow classes keep all state on the instance — no class-level mutable attributes, mutable defaults, global writes, shared key list never mutated by "
     "flow code (D6a); both match predicates test the full 4-tuple in both orientations (B3); secrets are selected by client-random equality on normalised case (D7); "
     "QUIC datagrams are matched by non-empty connection ID, else by 4-tuple (D7b); session creation gate and role binding (A6c, B3b). Together: a packet can only "
     "touch the state of the one object it matched and a match needs a discriminating key. Does not decide first-match order effects or QUIC migration.",
     ["none beyond the trusted base"], controls=["c04-drop-port-conjunct"])

prop("C05",
     lambda tier: [checksum.rule_udp_zero, checksum.rule_pseudo_header, output.rule_packet_fields, checksum.rule_fold_bound, GI_for("C05"), WSI_for("C05"), LDI_for("C05"), LSI_for("C05"), HI_for("C05"), STALE_for("C05"), tcp.rule_A9, tcp.rule_A6a, tcp.rule_framing, tcp.rule_tls_causality, B2_for("session"), B1_for("session"),
                   tcp.rule_D9_seq, tcp.rule_expected_seq, state.rule_D6_ownership],
     "Decides the structural necessary conditions of segmentation-independence: per-direction duplicate suppression pairing (A9), empty segments "
     "never reach the dedupe (A6a), framing loops make progress and release records only when whole (loop-replay lemma), record slice and buffer "
     "clearing (FR), single in-order pass (CAUS), server/client twins are mirror images (B1/B2), sequence arithmetic modular (D9s) and "
     "expected-sequence state (XSEQ). Does not decide equality of exported streams over all cut-point sets / permutations.",
     ["dpkt delivers tcp.seq / tcp.data as parsed"], controls=["c05-dedupe-wrong-list"])

prop("C06",
     lambda tier: [tls.rule_D1, GI_for("C06"), WSI_for("C06"), LDI_for("C06"), LSI_for("C06"), HI_for("C06"), tcp.rule_framing, output.rule_D3, output.rule_A7, output.rule_T7_split, B2_for("output_builder"), output.rule_A8, escape.rule_A1, tcp.rule_full_scans],
     "Decides: everything that reaches the writer is an Ether/IP(v4|v6 per session)/TCP|UDP[/Raw] composition without length/checksum overrides, empty sessions "
     "contribute nothing, writer loop shape (D3); handshake before data, SYN/SYN-ACK/ACK numbers, per-part seq/ack bookkeeping order (A7); record re-split telescopes "
     "from 0 to the end with ts[i] per part (T7s); data builders mirror (B2); channels append-only (A8); finalisation loops contained (A1). Does not decide that "
     "scapy / dpkt emit correct lengths, checksums and block structure.",
     ["scapy packet building; dpkt.pcapng.Writer"], controls=["c06-ack-before-increment"])

prop("C07",
     lambda tier: [pcapng.rule_E3, GI_for("C07"), WSI_for("C07"), LDI_for("C07"), LSI_for("C07"), HI_for("C07"), tls.rule_D1, output.rule_D2, tcp.rule_framing, mirror.rule_B3_bind, B2_for("output_builder", "session"), B1_for("quic.quic_output_builder", "output_builder"),
                   quic.rule_D8, output.rule_D3, mirror.rule_B3_match, output.rule_A7, tcp.rule_full_scans, pcapng.rule_T9_pcapng, cli.rule_D4, output.rule_packet_fields],
     "Decides: timestamps flow without arithmetic from the reader's (ts, buf) pair through Packet.timestamp / record.metadata resp. QuicPacket.ts to the emitted "
     "(frame, ts) pairs; handshake time = first record's first packet (D2); a record is attributed to exactly the packets overlapping its byte range (FR overlap); "
     "role binding from the first packet (B3b); address/port/MAC orientation per arm (B1/B2, A7 sender check); QUIC group time and direction travel together (D8); IP "
     "version follows the session (D3). Does not decide dpkt's float rounding of timestamps.",
     ["dpkt timestamp conversion"], controls=["c07-handshake-time-last"])

prop("C08",
     lambda tier: [frames.rule_T8, keylog.rule_E2_pipeline, GI_for("C08"), WSI_for("C08"), LDI_for("C08"), LSI_for("C08"), HI_for("C08"), STALE_for("C08"), tcp.rule_tls_causality, output.rule_A8, tcp.rule_framing, escape.rule_A1_records, quic.rule_D8, output.rule_A7, output.rule_T7_split,
                   B2_for("output_builder", "session"), escape.rule_A1, tcp.rule_full_scans, state.rule_D6_ownership, tcp.rule_A9, tls.rule_D1, quic.rule_frame_attrs],
     "Decided as the classical argument for online algorithms — every stage is causal, append-only and a left fold, hence the export of a prefix is a prefix of the "
     "export — each premise being a structural obligation: single in-order pass without look-ahead (CAUS), append-only channels consumed in order (A8), records released "
     "only when whole and buffers cleared (FR + loop-replay lemma), a fault in record i cannot discard output of records < i (A1r), QUIC groups closed exactly at "
     "datagram boundaries (D8), builder is a running-sum fold with the handshake once before the first record (A7). Does not decide determinism (C18) nor key-log blocks "
     "located after the cut.",
     ["C18 (determinism) assumed"], controls=["c08-lookahead"])

prop("C09",
     lambda tier: [state.rule_D6_ownership, kdf.rule_T6, GI_for("C09"), WSI_for("C09"), LDI_for("C09"), LSI_for("C09"), HI_for("C09"), keylog.rule_E2_grammar, keylog.rule_E2_pipeline, keylog.rule_E2_cli, keylog.rule_D7, pcapng.rule_T9_pcapng, tcp.rule_full_scans, pcapng.rule_E3, state.rule_D6_nondet],
     "Decides: the key-log line pattern (parsed with re._parser) admits both hex cases and every label literal the consumers compare against, rejects "
     "comments/blank lines (E2a); CR is removed before splitting, file and DSB secrets share one parser and one Key construction site, DSB payloads are "
     "ingested under ts == -1 before any dispatch, the TLS secret lookup is reachable only from finalisation (E2b); -s defaults to None (E2c); secrets are "
     "selected by client-random equality on normalised case (D7); DSB block layout / marker agreement (T9p). Does not decide byte identity across delivery variants.",
     ["dpkt's block classes parse option lists correctly"], controls=["c09-label-too-long"])

prop("C10",
     lambda tier: [state.rule_D6_ownership, tcp.rule_full_scans, mirror.rule_B3_match, GI_for("C10"), WSI_for("C10"), LDI_for("C10"), LSI_for("C10"), HI_for("C10"), cli.rule_D4, cli.rule_A6c, mirror.rule_B3_bind, state.rule_D6_reinit, output.rule_A7, B2_for("output_builder"), quic.rule_D8],
     "Decides that configuration reaches every site: option table, int conversions, -m ⇒ keep_original_ports False, every server-port rewrite in both "
     "builders is control-dependent on that flag and the flag's provenance at every construction site is args.keep_original_ports, mapped/default port "
     "choice, client port never written (D4); Session creation dominated by the server-port membership test (A6c); the side whose port is a server port "
     "becomes the server (B3b).", ["argparse semantics"], controls=["c10-rewrite-unconditional"])

prop("C11",
     lambda tier: [GI_for("C11"), WSI_for("C11"), LDI_for("C11"), LSI_for("C11"), HI_for("C11"), checksum.rule_fold_bound, checksum.rule_pseudo_header, checksum.rule_A3_packet, checksum.rule_A6b, B2_for("checksums"), checksum.rule_udp_zero],
     "Decides: fold loop exits only with a 16-bit value and folds with >>16/&0xFFFF (FOLD); pseudo-header field order/widths for IPv4/IPv6 and "
     "checksum-field offsets TCP 16:18 / UDP 6:8 (T9c); every Packet attribute a routine reads exists in all Packet variants its call-site guard admits "
     "(A3); dispatch dominated by the verdict, verdict True without -c (A6b); TCP/UDP twins mirror (B2); a computed UDP checksum of zero is compared as 0xffff, in "
     "the UDP routine only (UDPZ). Does not decide the arithmetic identity itself.", ["dpkt exposes ip.p / ip.nxt / tcp.sum / udp.sum as parsed"], controls=["c11-fold-off-by-one"])

prop("C12",
     lambda tier: [GI_for("C12"), WSI_for("C12"), LDI_for("C12"), LSI_for("C12"), HI_for("C12"), output.rule_D2, pcapng.rule_E3, pcapng.rule_T9_pcapng, tcp.rule_full_scans, keylog.rule_E2_pipeline],
     "Decides: every byte-order-dependent choice in the pcapng reader is `XLE if le else X` / '<'+f / '>'+f with the same X / f, the flag is set from the "
     "matching magic, block type ↔ block class agreement (E3); if_tsresol decoding constants, identical EPB/PB timestamp expression, unconditional block "
     "consumption before type dispatch (unknown blocks skipped), reader selection by -l (T9p). Does not decide dpkt's own classes.",
     ["dpkt.pcapng / dpkt.pcap block classes"], controls=["c12-swap-le-class"])

prop("C13",
     lambda tier: [tcp.rule_full_scans, GI_for("C13"), WSI_for("C13"), LDI_for("C13"), LSI_for("C13"), HI_for("C13"), meta.rule_D5, quic.rule_D8, quic.rule_frame_attrs, output.rule_A8],
     "Decides the effect set of the metadata switch: every statement control-dependent on it (post-dominator based edge dominance) only appends to the output "
     "channel (TLS) or selects CRYPTO/VN bytes (QUIC); application-record handlers, alert/handshake handling and the STREAM selection are not control-dependent "
     "on it; metadata records are appended verbatim; the switch's provenance is args.metadata.", ["none beyond the trusted base"],
     controls=["c13-stream-under-meta"])

prop("C14",
     lambda tier: [kdf.rule_T6, kdf.rule_T7_keyblock, quic.rule_T9_hp, kdf.rule_B4, GI_for("C14"), WSI_for("C14"), LDI_for("C14"), LSI_for("C14"), HI_for("C14"), tables.rule_T1, tables.rule_T2, tables.rule_T3_classes],
     "Static decision of the suite table: (T1) each of the code-point rows of the dict literal equals the IANA row of an independent "
     "registry copy; (T2) the 12-line resolver loop is read structurally (first-match in sub-table order, defaults, AES→GCM/CCM fix-up, "
     "MAC default) and every table name is resolved under exactly those semantics from the ordered literal sub-tables and compared "
     "with an independent grammar-based name parser (bulk class, AEAD flag, key length, MAC/PRF hash, tag length); code points outside "
     "the table are rejected because the lookup is an exact-key subscript whose miss path returns None and the caller returns on None; "
     "(T3a) every bulk class the table produces has a decryptor class and a block size. "
     "Decides all 65 536 code points given the stated loop semantics; does not execute the resolver.",
     ["the registry copy (scapy + openssl + RFC rows) and the checker's name grammar are correct"],
     controls=["c14-sha-before-sha256"])

prop("C15",
     lambda tier: [tls.rule_types, keylog.rule_E2_pipeline, GI_for("C15"), WSI_for("C15"), LDI_for("C15"), LSI_for("C15"), HI_for("C15"), STALE_for("C15"), kdf.rule_T6, kdf.rule_T7_keyblock, kdf.rule_T5_tls, quic.rule_T5_quic, kdf.rule_B4, tables.rule_T3_iv, quic.rule_T9_hp, tcp.rule_full_scans, quic.rule_epoch, quic.rule_quic_handshake_state],
     "Decides: every HKDF-Expand call site (TLS 1.3: 8, QUIC: 18 + Initial 6 + key update 6) derives the key/iv/hp of the role and epoch of the key-log label it is "
     "guarded by, with the RFC label bytes, declared lengths and output lengths; Initial keys independent of the negotiated suite; PRF labels, seed orders per purpose "
     "and PRF hash selection (T6); key block partitioned into consecutive gap-free slices MAC_c, MAC_s, key_c, key_s, IV_c, IV_s, by polynomial normal forms (T7k); "
     "key-name and list-position agreement producer → consumer (T5t, T5q); argument roles at the wiring call sites of generate_keys / set_tls_decryptors and no "
     "swapped same-named arguments anywhere (B4); implicit-IV lengths per cipher (T3b). Does not decide HMAC / HKDF arithmetic (library; unit vectors cover one point "
     "per function).",
     ["cryptography's HKDF / HMAC / hash implementations"], controls=["c15-swap-randoms"])

prop("C16",
     lambda tier: [quic.rule_D7b, quic.rule_T9_aad, GI_for("C16"), WSI_for("C16"), LDI_for("C16"), LSI_for("C16"), HI_for("C16"), STALE_for("C16"), pkn.rule_E1, pkn.rule_D9_pkn, pkn.rule_pn_spaces, B1_for("quic.quic_session"), quic.rule_T9_hp],
     "Decides that get_full_packet_number *is* RFC 9000 A.3: the function is reduced by forward substitution to a decision tree over (largest, truncated, "
     "encoded length) and compared, in a linear/bitwise normal form, with the appendix (E1); integer-exact arithmetic (D9); per-direction tables, "
     "0-RTT/1-RTT share a space (PNS); direction arms mirror (B1). Does not decide histories (largest is updated before authentication).",
     ["the normaliser's rewrite rules (commutativity, x<<k = x*2^k, 2^e//2 = 2^(e-1))"], controls=["c16-le-to-lt"])

prop("C17",
     lambda tier: [GI_for("C17"), WSI_for("C17"), LDI_for("C17"), LSI_for("C17"), HI_for("C17"), STALE_for("C17"), frames.rule_T8, frames.rule_varint, progress.rule_A2, escape.rule_A1_quic_packets],
     "Decides: registry keys are disjoint and cover RFC 9000 §19 types 0x00–0x1e and RFC 9221 0x30/0x31 with the right classes; for each of the 20 field-carrying "
     "classes and each type-bit path a symbolic cursor walk of the constructor shows every field is read exactly at the cursor, varint length/decoding paired, byte "
     "strings sized by their own length field (or rest of packet), and the frame length equals the end of the last field — compared with the RFC layout table (T8); "
     "varint decoder and PADDING run shape (VARINT); every frame advances the parser by ≥ 1 byte, the ACK range loop consumes input (A2); parse faults surface as "
     "exceptions that the per-packet handler absorbs (A1q). Trusted: the transcription of the RFC layouts in vt/rules/frames.py.",
     ["RFC 9000 §19 / RFC 9221 §4 layout table in the checker"], controls=["c17-missing-field"])

prop("C18",
     lambda tier: [GI_for("C18"), WSI_for("C18"), LDI_for("C18"), LSI_for("C18"), HI_for("C18"), state.rule_D6_reinit, state.rule_D6_nondet, state.rule_D6_paths, state.rule_D6_ownership, state.rule_D6_outfile, output.rule_A8, state.rule_attr_kinds, cli.rule_D4],
     "Decides the absence of nondeterminism sources in the code reachable from run(): no hash/id/random/time/env/cwd calls, no order-sensitive iteration "
     "over sets (D6b), no cwd-relative implicit input (D6c), every module-level mutable object run() mutates is re-initialised by run() before use (D6r), "
     "reset from a fresh value and not from an alias of the mutated object (D6r), no shared mutable class/module state in flow classes (D6a), the output path is opened "
     "truncating so nothing of an earlier run's file survives (D6o), channels append-only (A8), attribute container kinds stable (KIND). Does not decide determinism of "
     "scapy/dpkt/cryptography internals.",
     ["scapy uses fixed IP id / no timestamps; dpkt's writer adds no host or time options"], controls=["c18-time-call"])

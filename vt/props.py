"""Property table: which rules decide which clauses of which property."""
from __future__ import annotations

from .rules import mirror, tables

TRUSTED = ["CPython ast parser", "the normaliser / guard evaluator of vt/", "frozen reference tables under /verif/ref and in vt/rules",
           "library behaviour of cryptography, scapy, dpkt, argparse"]


def _level_other(results, violations, known):
    return "other"


def _level_prooflike(results, violations, known):
    return "other"


PROPS = {}


def prop(id, rules, explanation, assumptions, controls=(), level=_level_other):
    PROPS[id] = {"rules": rules, "explanation": explanation, "assumptions": list(assumptions), "trusted_base": TRUSTED,
                 "controls": list(controls), "level": level}


prop("C14",
     lambda tier: [tables.rule_T1, tables.rule_T2, tables.rule_T3_classes],
     "Static decision of the suite table: (T1) each of the code-point rows of the dict literal equals the IANA row of an independent "
     "registry copy; (T2) the 12-line resolver loop is read structurally (first-match in sub-table order, defaults, AES→GCM/CCM fix-up, "
     "MAC default) and every table name is resolved under exactly those semantics from the ordered literal sub-tables and compared "
     "with an independent grammar-based name parser (bulk class, AEAD flag, key length, MAC/PRF hash, tag length); code points outside "
     "the table are rejected because the lookup is an exact-key subscript whose miss path returns None and the caller returns on None; "
     "(T3) every bulk class the table produces has a decryptor class, a block size and an implicit-IV length. "
     "Decides all 65 536 code points given the stated loop semantics; does not execute the resolver.",
     ["the registry copy (scapy + openssl + RFC rows) and the checker's name grammar are correct"],
     controls=["c14-sha-before-sha256"])

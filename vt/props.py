"""Property table: which rules decide which clauses of which property."""
from __future__ import annotations

from functools import partial

from .rules import mirror, tables, keylog, checksum, pcapng, pkn, cli, state, meta, tcp

TRUSTED = ["CPython ast parser", "the CFG / dataflow / normaliser / guard evaluator of vt/",
           "frozen reference tables under /verif/ref and in vt/rules (IANA registry copy, RFC layouts, labels)",
           "library behaviour of cryptography, scapy, dpkt, argparse"]


def _level_other(results, violations, known):
    return "other"


PROPS = {}


def prop(id, rules, explanation, assumptions, controls=(), level=_level_other):
    PROPS[id] = {"rules": rules, "explanation": explanation, "assumptions": list(assumptions), "trusted_base": TRUSTED,
                 "controls": list(controls), "level": level}


def B1_for(*mods):
    return partial(mirror.rule_B1, modules=list(mods))


def B2_for(*mods):
    return partial(mirror.rule_B2, pairs=list(mods))


prop("C05",
     lambda tier: [tcp.rule_A9, tcp.rule_A6a, tcp.rule_framing, tcp.rule_tls_causality, B2_for("session"), B1_for("session"),
                   tcp.rule_D9_seq, tcp.rule_expected_seq],
     "Decides the structural necessary conditions of segmentation-independence: per-direction duplicate suppression pairing (A9), empty segments "
     "never reach the dedupe (A6a), framing loops make progress and release records only when whole (loop-replay lemma), record slice and buffer "
     "clearing (FR), single in-order pass (CAUS), server/client twins are mirror images (B1/B2), sequence arithmetic modular (D9s) and "
     "expected-sequence state (XSEQ). Does not decide equality of exported streams over all cut-point sets / permutations.",
     ["dpkt delivers tcp.seq / tcp.data as parsed"], controls=["c05-dedupe-wrong-list"])

prop("C09",
     lambda tier: [keylog.rule_E2_grammar, keylog.rule_E2_pipeline, keylog.rule_E2_cli, keylog.rule_D7, pcapng.rule_T9_pcapng],
     "Decides: the key-log line pattern (parsed with re._parser) admits both hex cases and every label literal the consumers compare against, rejects "
     "comments/blank lines (E2a); CR is removed before splitting, file and DSB secrets share one parser and one Key construction site, DSB payloads are "
     "ingested under ts == -1 before any dispatch, the TLS secret lookup is reachable only from finalisation (E2b); -s defaults to None (E2c); secrets are "
     "selected by client-random equality on normalised case (D7); DSB block layout / marker agreement (T9p). Does not decide byte identity across delivery variants.",
     ["dpkt's block classes parse option lists correctly"], controls=["c09-label-too-long"])

prop("C10",
     lambda tier: [cli.rule_D4, cli.rule_A6c, mirror.rule_B3_bind],
     "Decides that configuration reaches every site: option table, int conversions, -m ⇒ keep_original_ports False, every server-port rewrite in both "
     "builders is control-dependent on that flag and the flag's provenance at every construction site is args.keep_original_ports, mapped/default port "
     "choice, client port never written (D4); Session creation dominated by the server-port membership test (A6c); the side whose port is a server port "
     "becomes the server (B3b).", ["argparse semantics"], controls=["c10-rewrite-unconditional"])

prop("C11",
     lambda tier: [checksum.rule_fold_bound, checksum.rule_pseudo_header, checksum.rule_A3_packet, checksum.rule_A6b, B2_for("checksums")],
     "Decides: fold loop exits only with a 16-bit value and folds with >>16/&0xFFFF (FOLD); pseudo-header field order/widths for IPv4/IPv6 and "
     "checksum-field offsets TCP 16:18 / UDP 6:8 (T9c); every Packet attribute a routine reads exists in all Packet variants its call-site guard admits "
     "(A3); dispatch dominated by the verdict, verdict True without -c (A6b); TCP/UDP twins mirror (B2). Does not decide the arithmetic identity itself "
     "nor the UDP 0x0000/0xFFFF special case.", ["dpkt exposes ip.p / ip.nxt / tcp.sum / udp.sum as parsed"], controls=["c11-fold-off-by-one"])

prop("C12",
     lambda tier: [pcapng.rule_E3, pcapng.rule_T9_pcapng],
     "Decides: every byte-order-dependent choice in the pcapng reader is `XLE if le else X` / '<'+f / '>'+f with the same X / f, the flag is set from the "
     "matching magic, block type ↔ block class agreement (E3); if_tsresol decoding constants, identical EPB/PB timestamp expression, unconditional block "
     "consumption before type dispatch (unknown blocks skipped), reader selection by -l (T9p). Does not decide dpkt's own classes.",
     ["dpkt.pcapng / dpkt.pcap block classes"], controls=["c12-swap-le-class"])

prop("C13",
     lambda tier: [meta.rule_D5],
     "Decides the effect set of the metadata switch: every statement control-dependent on it (post-dominator based edge dominance) only appends to the output "
     "channel (TLS) or selects CRYPTO/VN bytes (QUIC); application-record handlers, alert/handshake handling and the STREAM selection are not control-dependent "
     "on it; metadata records are appended verbatim; the switch's provenance is args.metadata.", ["none beyond the trusted base"],
     controls=["c13-stream-under-meta"])

prop("C14",
     lambda tier: [tables.rule_T1, tables.rule_T2, tables.rule_T3_classes],
     "Static decision of the suite table: (T1) each of the code-point rows of the dict literal equals the IANA row of an independent "
     "registry copy; (T2) the 12-line resolver loop is read structurally (first-match in sub-table order, defaults, AES→GCM/CCM fix-up, "
     "MAC default) and every table name is resolved under exactly those semantics from the ordered literal sub-tables and compared "
     "with an independent grammar-based name parser (bulk class, AEAD flag, key length, MAC/PRF hash, tag length); code points outside "
     "the table are rejected because the lookup is an exact-key subscript whose miss path returns None and the caller returns on None; "
     "(T3a) every bulk class the table produces has a decryptor class and a block size. "
     "Decides all 65 536 code points given the stated loop semantics; does not execute the resolver.",
     ["the registry copy (scapy + openssl + RFC rows) and the checker's name grammar are correct"],
     controls=["c14-sha-before-sha256"])

prop("C16",
     lambda tier: [pkn.rule_E1, pkn.rule_D9_pkn, pkn.rule_pn_spaces, B1_for("quic.quic_session")],
     "Decides that get_full_packet_number *is* RFC 9000 A.3: the function is reduced by forward substitution to a decision tree over (largest, truncated, "
     "encoded length) and compared, in a linear/bitwise normal form, with the appendix (E1); integer-exact arithmetic (D9); per-direction tables, "
     "0-RTT/1-RTT share a space (PNS); direction arms mirror (B1). Does not decide histories (largest is updated before authentication).",
     ["the normaliser's rewrite rules (commutativity, x<<k = x*2^k, 2^e//2 = 2^(e-1))"], controls=["c16-le-to-lt"])

prop("C18",
     lambda tier: [state.rule_D6_reinit, state.rule_D6_nondet, state.rule_D6_paths, state.rule_D6_ownership],
     "Decides the absence of nondeterminism sources in the code reachable from run(): no hash/id/random/time/env/cwd calls, no order-sensitive iteration "
     "over sets (D6b), no cwd-relative implicit input (D6c), every module-level mutable object run() mutates is re-initialised by run() before use (D6r), "
     "no shared mutable class/module state in flow classes (D6a). Does not decide determinism of scapy/dpkt/cryptography internals.",
     ["scapy uses fixed IP id / no timestamps; dpkt's writer adds no host or time options"], controls=["c18-time-call"])

"""M4 — resolved call graph with light receiver typing.

Resolution of a call `f(...)`:
  (a) plain / imported name            -> repo function, repo class (constructor -> __init__), or external qualified name
  (b) self.m()                         -> method in the enclosing class' MRO
  (c) x.m() with typed receiver        -> parameter / local annotation, `x = Cls(...)`, `self.attr` typed from __init__-style
                                          assignments or `self.attr: Cls` annotations, loop variable over `list[Cls]`
  (d) super().m()                      -> base class method
  (e) registry dispatch                -> `frame_type.get(k)(...)` -> __init__ of every class that is a value of the dict literal
  (f) untyped receiver                 -> if exactly one repo class defines m: that; if several: all of them (conservative, flagged)
Everything else is kept as external / unknown with its textual callee.
"""
from __future__ import annotations

import ast
from dataclasses import dataclass, field
from typing import Dict, List, Optional, Set, Tuple, Union

from .core import Tree, Func, Class, Module, dotted, body_walk, src

BUILTIN_METHODS = {
    "append", "extend", "insert", "pop", "remove", "clear", "sort", "reverse", "index", "count", "copy",
    "keys", "values", "items", "get", "update", "setdefault", "add", "discard",
    "hex", "lower", "upper", "split", "replace", "join", "encode", "decode", "format", "startswith", "endswith", "strip",
    "to_bytes", "from_bytes", "fromhex", "read", "seek", "close", "write", "fileno",
}


@dataclass
class CallSite:
    node: ast.Call
    caller: Func
    callees: List[Func] = field(default_factory=list)
    external: Optional[str] = None  # qualified or textual callee when not a repo function
    kind: str = "repo"  # repo | external | unknown | ambiguous
    ctor_of: Optional[Class] = None


class TypeEnv:
    """name -> Class or ('list', Class) for one function."""

    def __init__(self, cg: "CallGraph", f: Func):
        self.cg = cg
        self.f = f
        self.t: Dict[str, object] = {}
        tree, m = cg.tree, f.module
        if f.cls is not None and f.params and f.params[0] in ("self",):
            self.t["self"] = f.cls
        a = f.node.args
        for arg in a.posonlyargs + a.args + a.kwonlyargs:
            if arg.annotation is not None:
                ty = cg.type_of_annotation(m, arg.annotation)
                if ty is not None:
                    self.t[arg.arg] = ty
        for n in body_walk(f.node):
            if isinstance(n, ast.AnnAssign) and isinstance(n.target, ast.Name):
                ty = cg.type_of_annotation(m, n.annotation)
                if ty is not None:
                    self.t[n.target.id] = ty
            elif isinstance(n, ast.Assign) and len(n.targets) == 1 and isinstance(n.targets[0], ast.Name):
                ty = self.type_of_expr(n.value)
                if ty is not None and n.targets[0].id not in self.t:
                    self.t[n.targets[0].id] = ty
        for n in body_walk(f.node):
            if isinstance(n, ast.For) and isinstance(n.target, ast.Name):
                ity = self.type_of_expr(n.iter)
                if isinstance(ity, tuple) and ity[0] == "list" and n.target.id not in self.t:
                    self.t[n.target.id] = ity[1]

    def type_of_expr(self, e: ast.AST):
        cg = self.cg
        m = self.f.module
        if isinstance(e, ast.Name):
            if e.id in self.t:
                return self.t[e.id]
            return None
        if isinstance(e, ast.Attribute):
            base = self.type_of_expr(e.value)
            if isinstance(base, Class):
                return cg.attr_type(base, e.attr)
            return None
        if isinstance(e, ast.Call):
            ent = cg.tree.resolve_expr(m, e.func)
            if isinstance(ent, Class):
                return ent
            # cast(Cls, x)
            if isinstance(e.func, ast.Name) and e.func.id == "cast" and e.args:
                ent = cg.tree.resolve_expr(m, e.args[0])
                if isinstance(ent, Class):
                    return ent
            return None
        if isinstance(e, ast.Subscript):
            base = self.type_of_expr(e.value)
            if isinstance(base, tuple) and base[0] == "list":
                return base[1]
        return None


class CallGraph:
    _cache: Dict[int, "CallGraph"] = {}

    @classmethod
    def of(cls, tree: Tree) -> "CallGraph":
        k = id(tree)
        if k not in cls._cache:
            cls._cache.clear()
            cls._cache[k] = CallGraph(tree)
        return cls._cache[k]

    def __init__(self, tree: Tree):
        self.tree = tree
        self.sites: Dict[Func, List[CallSite]] = {}
        self.by_node: Dict[int, CallSite] = {}
        self._attr_types: Dict[Tuple[str, str], object] = {}
        self.method_index: Dict[str, List[Func]] = {}
        for f in tree.all_funcs():
            if f.cls is not None:
                self.method_index.setdefault(f.name, []).append(f)
        self._infer_attr_types()
        self.envs: Dict[Func, TypeEnv] = {}
        for f in tree.all_funcs():
            self.envs[f] = TypeEnv(self, f)
        self.registry_classes = self._registry()
        for f in tree.all_funcs():
            self.sites[f] = [self._resolve(f, n) for n in body_walk(f.node) if isinstance(n, ast.Call)]
            for s in self.sites[f]:
                self.by_node[id(s.node)] = s
        # module-level code (e.g. `if __name__ == '__main__': run()`) is not part of any flow

    # ------------------------------------------------------------ typing helpers
    def type_of_annotation(self, m: Module, ann: ast.AST):
        if isinstance(ann, ast.Constant) and isinstance(ann.value, str):
            try:
                ann = ast.parse(ann.value, mode="eval").body
            except SyntaxError:
                return None
        if isinstance(ann, (ast.Name, ast.Attribute)):
            ent = self.tree.resolve_expr(m, ann)
            if isinstance(ent, Class):
                return ent
            return None
        if isinstance(ann, ast.Subscript):
            base = dotted(ann.value) or ""
            if base.split(".")[-1] in ("list", "List", "Sequence", "Iterable"):
                inner = self.type_of_annotation(m, ann.slice)
                if isinstance(inner, Class):
                    return ("list", inner)
            if base.split(".")[-1] in ("type", "Type", "Optional"):
                return self.type_of_annotation(m, ann.slice)
        if isinstance(ann, ast.BinOp) and isinstance(ann.op, ast.BitOr):
            # X | Y | Z: common base class if any
            parts = []
            n = ann
            while isinstance(n, ast.BinOp) and isinstance(n.op, ast.BitOr):
                parts.append(n.right)
                n = n.left
            parts.append(n)
            cls = [self.type_of_annotation(m, p) for p in parts]
            cls = [c for c in cls if isinstance(c, Class)]
            if cls:
                common = None
                for c in cls:
                    mro = c.mro()
                    common = mro if common is None else [x for x in common if x in mro]
                if common:
                    return common[0]
        return None

    def _infer_attr_types(self) -> None:
        for c in self.tree.all_classes():
            for f in c.methods.values():
                for n in body_walk(f.node):
                    tgt = val = ann = None
                    if isinstance(n, ast.Assign) and len(n.targets) == 1:
                        tgt, val = n.targets[0], n.value
                    elif isinstance(n, ast.AnnAssign):
                        tgt, val, ann = n.target, n.value, n.annotation
                    if not (isinstance(tgt, ast.Attribute) and isinstance(tgt.value, ast.Name) and tgt.value.id == "self"):
                        continue
                    ty = None
                    if ann is not None:
                        ty = self.type_of_annotation(c.module, ann)
                    if ty is None and isinstance(val, ast.Call):
                        ent = self.tree.resolve_expr(c.module, val.func)
                        if isinstance(ent, Class):
                            ty = ent
                    if ty is not None:
                        self._attr_types.setdefault((c.key, tgt.attr), ty)

    def attr_type(self, c: Class, attr: str):
        for k in c.mro():
            t = self._attr_types.get((k.key, attr))
            if t is not None:
                return t
        return None

    def _registry(self) -> List[Class]:
        try:
            m = self.tree.module("quic.quic_frame")
        except Exception:
            return []
        d = m.assigns.get("frame_type")
        out = []
        if isinstance(d, ast.Dict):
            for v in d.values:
                ent = self.tree.resolve_expr(m, v)
                if isinstance(ent, Class) and ent not in out:
                    out.append(ent)
        return out

    # ------------------------------------------------------------ resolution
    def _ctor(self, c: Class) -> List[Func]:
        f = c.find_method("__init__")
        return [f] if f else []

    def _resolve(self, caller: Func, call: ast.Call) -> CallSite:
        tree, m = self.tree, caller.module
        fn = call.func
        cs = CallSite(call, caller)
        env = self.envs[caller]
        # (e) registry dispatch: frame_type.get(key)(...)
        if isinstance(fn, ast.Call) and isinstance(fn.func, ast.Attribute) and fn.func.attr == "get" and dotted(fn.func.value) == "frame_type":
            for c in self.registry_classes:
                cs.callees.extend(self._ctor(c))
            cs.kind = "repo" if cs.callees else "unknown"
            cs.external = "frame_type.get(..)"
            return cs
        if isinstance(fn, ast.Subscript) and dotted(fn.value) == "frame_type":
            for c in self.registry_classes:
                cs.callees.extend(self._ctor(c))
            cs.kind = "repo" if cs.callees else "unknown"
            return cs
        # (d) super().m()
        if isinstance(fn, ast.Attribute) and isinstance(fn.value, ast.Call) and isinstance(fn.value.func, ast.Name) and fn.value.func.id == "super":
            if caller.cls is not None:
                for b in caller.cls.bases:
                    f = b.find_method(fn.attr)
                    if f:
                        cs.callees.append(f)
                        return cs
            cs.kind = "external"
            cs.external = "super()." + fn.attr
            return cs
        # (a) names
        if isinstance(fn, (ast.Name, ast.Attribute)):
            # local variable shadows? a plain Name bound locally to a value is a call of a value
            ent = tree.resolve_expr(m, fn)
            if isinstance(fn, ast.Name) and fn.id in caller.params:
                ent = None
            if isinstance(ent, Func):
                cs.callees.append(ent)
                return cs
            if isinstance(ent, Class):
                cs.callees.extend(self._ctor(ent))
                cs.ctor_of = ent
                cs.kind = "repo"
                return cs
            if isinstance(ent, str):
                cs.kind = "external"
                cs.external = ent
                return cs
        # (b)/(c) method calls
        if isinstance(fn, ast.Attribute):
            recv_t = env.type_of_expr(fn.value)
            if isinstance(recv_t, Class):
                f = recv_t.find_method(fn.attr)
                if f:
                    cs.callees.append(f)
                    return cs
                cs.kind = "external"
                cs.external = f"{recv_t.name}.{fn.attr}"
                return cs
            if isinstance(recv_t, tuple):
                cs.kind = "external"
                cs.external = f"list.{fn.attr}"
                return cs
            cands = self.method_index.get(fn.attr, [])
            if cands and fn.attr not in BUILTIN_METHODS and not fn.attr.startswith("__"):
                cs.callees.extend(cands)
                cs.kind = "repo" if len(cands) == 1 else "ambiguous"
                return cs
            cs.kind = "external"
            cs.external = (dotted(fn) or f"<expr>.{fn.attr}")
            return cs
        if isinstance(fn, ast.Name):
            cs.kind = "external"
            cs.external = fn.id
            return cs
        cs.kind = "unknown"
        cs.external = src(fn, 60)
        return cs

    # ------------------------------------------------------------ queries
    def callees(self, f: Func) -> Set[Func]:
        out: Set[Func] = set()
        for s in self.sites.get(f, []):
            out.update(s.callees)
        return out

    def reachable(self, roots: List[Func]) -> Set[Func]:
        seen: Set[Func] = set()
        work = list(roots)
        while work:
            f = work.pop()
            if f in seen:
                continue
            seen.add(f)
            work.extend(self.callees(f))
        return seen

    def path(self, roots: List[Func], target: Func) -> List[str]:
        prev: Dict[Func, Optional[Func]] = {r: None for r in roots}
        work = list(roots)
        while work:
            f = work.pop(0)
            if f == target:
                out = []
                while f is not None:
                    out.append(f.key)
                    f = prev[f]
                return list(reversed(out))
            for c in self.callees(f):
                if c not in prev:
                    prev[c] = f
                    work.append(c)
        return []

    def callers_of(self, target: Func) -> List[CallSite]:
        out = []
        for f, sites in self.sites.items():
            for s in sites:
                if target in s.callees:
                    out.append(s)
        return out

    def stats(self) -> Dict[str, int]:
        c = {"repo": 0, "external": 0, "unknown": 0, "ambiguous": 0}
        for sites in self.sites.values():
            for s in sites:
                c[s.kind] += 1
        return c

    def site(self, call: ast.Call) -> Optional[CallSite]:
        return self.by_node.get(id(call))

"""M6/M7 — constant folder and normaliser (role substitution, behaviour-free stripping, canonical dumps)."""
from __future__ import annotations

import ast
import copy
import re
from typing import Callable, Dict, Iterable, List, Optional

from .core import clone, is_behaviour_free


class NotConst(Exception):
    pass


_BINOPS = {
    ast.Add: lambda a, b: a + b,
    ast.Sub: lambda a, b: a - b,
    ast.Mult: lambda a, b: a * b,
    ast.FloorDiv: lambda a, b: a // b,
    ast.Mod: lambda a, b: a % b,
    ast.LShift: lambda a, b: a << b,
    ast.RShift: lambda a, b: a >> b,
    ast.BitOr: lambda a, b: a | b,
    ast.BitAnd: lambda a, b: a & b,
    ast.BitXor: lambda a, b: a ^ b,
    ast.Pow: lambda a, b: a ** b,
}


def fold(e: ast.AST, env: Optional[Dict[str, ast.AST]] = None, _depth: int = 0):
    """Evaluate a literal-only expression of the *analysed source* (never repo code)."""
    if _depth > 20:
        raise NotConst
    if isinstance(e, ast.Constant):
        return e.value
    if isinstance(e, ast.Name) and env and e.id in env:
        return fold(env[e.id], env, _depth + 1)
    if isinstance(e, ast.UnaryOp):
        v = fold(e.operand, env, _depth + 1)
        if isinstance(e.op, ast.USub):
            return -v
        if isinstance(e.op, ast.Invert):
            return ~v
        if isinstance(e.op, ast.Not):
            return not v
        if isinstance(e.op, ast.UAdd):
            return +v
    if isinstance(e, ast.BinOp) and type(e.op) in _BINOPS:
        a = fold(e.left, env, _depth + 1)
        b = fold(e.right, env, _depth + 1)
        try:
            if isinstance(e.op, ast.Pow) and (not isinstance(b, int) or abs(b) > 256):
                raise NotConst
            if isinstance(e.op, ast.LShift) and b > 4096:
                raise NotConst
            return _BINOPS[type(e.op)](a, b)
        except NotConst:
            raise
        except Exception:
            raise NotConst
    if isinstance(e, ast.Tuple):
        return tuple(fold(x, env, _depth + 1) for x in e.elts)
    if isinstance(e, ast.List):
        return [fold(x, env, _depth + 1) for x in e.elts]
    if isinstance(e, ast.Set):
        return frozenset(fold(x, env, _depth + 1) for x in e.elts)
    if isinstance(e, ast.Dict):
        out = {}
        for k, v in zip(e.keys, e.values):
            if k is None:
                raise NotConst
            out[fold(k, env, _depth + 1)] = fold(v, env, _depth + 1)
        return out
    if isinstance(e, ast.Call):
        f = e.func
        # int('00110000', 2) / int("ff", 16) / int(5)
        if isinstance(f, ast.Name) and f.id == "int" and 1 <= len(e.args) <= 2 and not e.keywords:
            args = [fold(a, env, _depth + 1) for a in e.args]
            try:
                return int(*args)
            except Exception:
                raise NotConst
        if isinstance(f, ast.Name) and f.id in ("bytes", "bytearray") and len(e.args) == 1 and not e.keywords:
            v = fold(e.args[0], env, _depth + 1)
            if isinstance(v, (list, tuple)) and all(isinstance(x, int) and 0 <= x < 256 for x in v):
                return bytes(v)
            if isinstance(v, (bytes, bytearray)):
                return bytes(v)
            if isinstance(v, int) and 0 <= v <= 4096:
                return bytes(v)
            raise NotConst
        # bytes.fromhex("..") / bytearray.fromhex("..")
        if (isinstance(f, ast.Attribute) and f.attr == "fromhex" and isinstance(f.value, ast.Name)
                and f.value.id in ("bytes", "bytearray") and len(e.args) == 1):
            v = fold(e.args[0], env, _depth + 1)
            if isinstance(v, str):
                try:
                    return bytes.fromhex(v)
                except ValueError:
                    raise NotConst
        # <int const>.to_bytes(n, 'big')
        if isinstance(f, ast.Attribute) and f.attr == "to_bytes" and len(e.args) >= 1:
            try:
                base = fold(f.value, env, _depth + 1)
                args = [fold(a, env, _depth + 1) for a in e.args]
                kw = {k.arg: fold(k.value, env, _depth + 1) for k in e.keywords}
                if isinstance(base, int):
                    if len(args) == 1 and "byteorder" not in kw:
                        return None if False else base.to_bytes(args[0], kw.get("byteorder", "big"))
                    return base.to_bytes(*args, **kw)
            except NotConst:
                raise
            except Exception:
                raise NotConst
        if isinstance(f, ast.Name) and f.id == "len" and len(e.args) == 1:
            v = fold(e.args[0], env, _depth + 1)
            return len(v)
    raise NotConst


def try_fold(e: ast.AST, env=None, default=None):
    try:
        return fold(e, env)
    except NotConst:
        return default
    except Exception:
        return default


# ---------------------------------------------------------------------------- stripping
class _Stripper(ast.NodeTransformer):
    def _filter(self, body: List[ast.stmt]) -> List[ast.stmt]:
        out = []
        for st in body:
            if is_behaviour_free(st):
                continue
            st = self.visit(st)
            if st is None:
                continue
            out.append(st)
        return out

    def generic_visit(self, node):
        for fld in ("body", "orelse", "finalbody"):
            if hasattr(node, fld) and isinstance(getattr(node, fld), list) and getattr(node, fld) and isinstance(getattr(node, fld)[0], ast.stmt):
                setattr(node, fld, self._filter(getattr(node, fld)))
        if isinstance(node, ast.Try):
            for h in node.handlers:
                h.body = self._filter(h.body)
        if isinstance(node, ast.Match):
            for c in node.cases:
                c.body = self._filter(c.body)
        return node


def strip_stmts(stmts: Iterable[ast.stmt]) -> List[ast.stmt]:
    """Deep copy with logging / print / docstrings / bare annotations / pass removed (recursively)."""
    stmts = [clone(s) for s in stmts]
    return _Stripper()._filter(stmts)


# ---------------------------------------------------------------------------- role substitution
def swap_tokens(word: str, pairs) -> str:
    """Token-wise swap inside an identifier / string. Tokens are split on non-alphanumerics and on
    lower→Upper camel boundaries are NOT split (the repo uses snake_case); case variants are handled."""
    table = {}
    for a, b in pairs:
        for f in (str.lower, str.upper, str.capitalize):
            table[f(a)] = f(b)
            table[f(b)] = f(a)

    def rep(m):
        t = m.group(0)
        return table.get(t, t)

    return re.sub(r"[A-Za-z0-9]+", rep, word)


class RoleSwap(ast.NodeTransformer):
    """Apply a token-wise swap to identifiers, attribute names, keyword names, parameter names and string
    constants. `prefix_pairs` are single-letter prefixes (s_/c_) swapped only as the first token."""

    def __init__(self, pairs, prefix_pairs=(), swap_bools: bool = False, extra_ident_map: Optional[Dict[str, str]] = None):
        self.pairs = list(pairs)
        self.prefix_pairs = list(prefix_pairs)
        self.swap_bools = swap_bools
        self.extra = extra_ident_map or {}

    def w(self, s: str) -> str:
        if s in self.extra:
            return self.extra[s]
        out = swap_tokens(s, self.pairs)
        for a, b in self.prefix_pairs:
            if s.startswith(a + "_"):
                return b + out[len(a):]
            if s.startswith(b + "_"):
                return a + out[len(b):]
        return out

    def visit_Name(self, node):
        node.id = self.w(node.id)
        return node

    def visit_Attribute(self, node):
        self.generic_visit(node)
        node.attr = self.w(node.attr)
        return node

    def visit_keyword(self, node):
        self.generic_visit(node)
        if node.arg:
            node.arg = self.w(node.arg)
        return node

    def visit_arg(self, node):
        node.arg = self.w(node.arg)
        return node

    def visit_Constant(self, node):
        if isinstance(node.value, str):
            node.value = self.w(node.value)
        return node

    def visit_Return(self, node):
        self.generic_visit(node)
        if self.swap_bools and isinstance(node.value, ast.Constant) and isinstance(node.value.value, bool):
            node.value.value = not node.value.value  # a returned direction flag
        return node

    def visit_Call(self, node):
        self.generic_visit(node)
        if self.swap_bools:
            # a literal direction flag handed to a callee: positional bool or `isserver=` keyword
            for a in node.args:
                if isinstance(a, ast.Constant) and isinstance(a.value, bool):
                    a.value = not a.value
            for k in node.keywords:
                if k.arg in ("isserver", "is_server") and isinstance(k.value, ast.Constant) and isinstance(k.value.value, bool):
                    k.value.value = not k.value.value
        return node


def sort_keywords(node: ast.AST) -> ast.AST:
    for n in ast.walk(node):
        if isinstance(n, ast.Call) and n.keywords and all(k.arg for k in n.keywords):
            n.keywords.sort(key=lambda k: k.arg)
    return node


def canon(node_or_list) -> str:
    """Canonical text of an AST (or list of statements): positions dropped, keyword args sorted."""
    if isinstance(node_or_list, list):
        return "\n".join(canon(n) for n in node_or_list)
    n = clone(node_or_list)
    sort_keywords(n)
    return ast.dump(n, annotate_fields=True, include_attributes=False)


def pretty(node_or_list) -> str:
    if isinstance(node_or_list, list):
        return "; ".join(pretty(n) for n in node_or_list)
    try:
        return " ".join(ast.unparse(node_or_list).split())
    except Exception:
        return type(node_or_list).__name__


def first_difference(a: List[ast.stmt], b: List[ast.stmt]) -> str:
    """Human-readable pointer at the first statement where two statement lists differ."""
    for i, (x, y) in enumerate(zip(a, b)):
        if canon(x) != canon(y):
            if type(x) is type(y) and isinstance(x, (ast.If, ast.For, ast.While, ast.With)):
                # descend for a more local report
                if canon(getattr(x, "test", None) or getattr(x, "iter", None) or x.items) != canon(getattr(y, "test", None) or getattr(y, "iter", None) or y.items):
                    return f"statement {i + 1}: header `{pretty(x).split(':')[0][:120]}` vs `{pretty(y).split(':')[0][:120]}`"
                d = first_difference(x.body, y.body)
                if d:
                    return f"statement {i + 1} body → {d}"
                d = first_difference(getattr(x, 'orelse', []), getattr(y, 'orelse', []))
                if d:
                    return f"statement {i + 1} else → {d}"
            return f"statement {i + 1}: `{pretty(x)[:200]}` vs `{pretty(y)[:200]}`"
    if len(a) != len(b):
        longer = a if len(a) > len(b) else b
        return f"statement {min(len(a), len(b)) + 1} only on one side: `{pretty(longer[min(len(a), len(b))])[:200]}`"
    return ""


def alpha_canon(fn: ast.FunctionDef, strip: bool = True) -> str:
    """Canonical text of a function body with parameters renamed p0,p1,… and locals v0,v1,… in order of first binding,
    behaviour-free statements removed: equal for alpha-equivalent bodies."""
    body = strip_stmts(fn.body) if strip else [clone(s) for s in fn.body]
    mapping = {}
    a = fn.args
    for i, arg in enumerate(a.posonlyargs + a.args + a.kwonlyargs):
        mapping[arg.arg] = f"p{i}"
    k = [0]

    def bind(name):
        if name not in mapping:
            mapping[name] = f"v{k[0]}"
            k[0] += 1
    mod = ast.Module(body=body, type_ignores=[])
    # binding order: walk statements in order, targets first
    for n in ast.walk(mod):
        if isinstance(n, ast.Name) and isinstance(n.ctx, ast.Store):
            bind(n.id)
    for n in ast.walk(mod):
        if isinstance(n, ast.Name) and n.id in mapping:
            n.id = mapping[n.id]
    return "\n".join(" ".join(ast.unparse(s).split()) for s in body)


def alpha_canon_src(source: str) -> str:
    from .canon import _Canon
    fn = _Canon().visit(ast.parse(source)).body[0]
    return alpha_canon(fn)

"""M0/M1/M2 — loader, symbols, class model.

Parses every *.py under <repo>/tlexport with ``ast`` (never imports or executes it),
builds import tables, function / class indexes and parent links.
All lookups that a rule depends on go through ``Tree.func`` / ``Tree.cls`` /
``Tree.module`` which raise ``AnchorMissing`` -> exit 2 (ANALYSIS-ERROR), never a
silent pass.
"""
from __future__ import annotations

import ast
import hashlib
import os
import sys
from dataclasses import dataclass, field
from typing import Dict, Iterable, Iterator, List, Optional, Tuple

REPO = os.environ.get("VT_REPO", "/repo")
PKG = "tlexport"


class AnalysisError(Exception):
    """The analysis itself cannot run (syntax error, vanished anchor, control not matching)."""


class AnchorMissing(AnalysisError):
    pass


@dataclass
class Func:
    module: "Module"
    qualname: str
    node: ast.FunctionDef
    cls: Optional["Class"] = None

    @property
    def name(self) -> str:
        return self.node.name

    @property
    def key(self) -> str:
        return f"{self.module.short}:{self.qualname}"

    @property
    def params(self) -> List[str]:
        a = self.node.args
        return [x.arg for x in a.posonlyargs + a.args]

    def __hash__(self):
        return hash(self.key)

    def __eq__(self, other):
        return isinstance(other, Func) and other.key == self.key

    def __repr__(self):
        return f"<Func {self.key}>"


@dataclass
class Class:
    module: "Module"
    name: str
    node: ast.ClassDef
    methods: Dict[str, Func] = field(default_factory=dict)
    base_exprs: List[ast.expr] = field(default_factory=list)
    bases: List["Class"] = field(default_factory=list)  # repo-internal bases, resolved later

    @property
    def key(self) -> str:
        return f"{self.module.short}:{self.name}"

    def mro(self) -> List["Class"]:
        out, seen = [], set()
        work = [self]
        while work:
            c = work.pop(0)
            if c.key in seen:
                continue
            seen.add(c.key)
            out.append(c)
            work.extend(c.bases)
        return out

    def find_method(self, name: str) -> Optional[Func]:
        for c in self.mro():
            if name in c.methods:
                return c.methods[name]
        return None

    def __hash__(self):
        return hash(self.key)

    def __eq__(self, other):
        return isinstance(other, Class) and other.key == self.key

    def __repr__(self):
        return f"<Class {self.key}>"


@dataclass
class Module:
    name: str  # tlexport.quic.quic_frame
    path: str
    relpath: str
    src: str
    tree: ast.Module
    sha256: str
    imports: Dict[str, str] = field(default_factory=dict)  # alias -> qualified name
    functions: Dict[str, Func] = field(default_factory=dict)  # qualname -> Func (incl. methods)
    classes: Dict[str, Class] = field(default_factory=dict)
    assigns: Dict[str, ast.expr] = field(default_factory=dict)  # module-level NAME = expr (last wins)

    @property
    def short(self) -> str:
        return self.name[len(PKG) + 1:] if self.name.startswith(PKG + ".") else self.name

    def line(self, node: ast.AST) -> str:
        return f"{self.relpath}:{getattr(node, 'lineno', 0)}"


def set_parents(tree: ast.AST) -> None:
    for node in ast.walk(tree):
        for child in ast.iter_child_nodes(node):
            if isinstance(child, (ast.expr_context, ast.operator, ast.unaryop, ast.cmpop, ast.boolop)):
                continue  # shared singletons
            child._parent = node  # type: ignore[attr-defined]


def clone(node):
    """Deep copy of an AST sub-tree that does not climb through the `_parent` link of its root."""
    import copy
    if isinstance(node, list):
        return [clone(n) for n in node]
    p = getattr(node, "_parent", None)
    memo = {id(p): None} if p is not None else {}
    return copy.deepcopy(node, memo)


def parent(node: ast.AST) -> Optional[ast.AST]:
    return getattr(node, "_parent", None)


def ancestors(node: ast.AST) -> Iterator[ast.AST]:
    p = parent(node)
    while p is not None:
        yield p
        p = parent(p)


def enclosing_stmt(node: ast.AST) -> ast.stmt:
    n = node
    while not isinstance(n, ast.stmt):
        n = parent(n)
    return n


def walk_no_nested(node: ast.AST, include_self: bool = True) -> Iterator[ast.AST]:
    """Walk a function body without descending into nested function / class / lambda bodies."""
    stack = [node] if include_self else list(ast.iter_child_nodes(node))
    first = True
    while stack:
        n = stack.pop()
        yield n
        if not first and isinstance(n, (ast.FunctionDef, ast.AsyncFunctionDef, ast.ClassDef, ast.Lambda)):
            continue
        first = False
        stack.extend(reversed(list(ast.iter_child_nodes(n))))


def body_walk(fn: ast.FunctionDef) -> Iterator[ast.AST]:
    """All nodes of a function's body (not its signature), not entering nested defs."""
    for st in fn.body:
        yield from _walk_skip_defs(st)


def _walk_skip_defs(n: ast.AST) -> Iterator[ast.AST]:
    yield n
    if isinstance(n, (ast.FunctionDef, ast.AsyncFunctionDef, ast.ClassDef)):
        return
    for c in ast.iter_child_nodes(n):
        if isinstance(c, (ast.FunctionDef, ast.AsyncFunctionDef, ast.ClassDef)):
            yield c
            continue
        yield from _walk_skip_defs(c)


class Tree:
    def __init__(self, root: str = None, overrides: Optional[Dict[str, str]] = None):
        """overrides: relpath -> source text used instead of the file on disk (in-memory variants for controls / self-test)."""
        self.root = root or REPO
        self.overrides = overrides or {}
        self.canonical = os.environ.get("VT_NO_CANON", "") == ""
        self.pkgdir = os.path.join(self.root, PKG)
        self.modules: Dict[str, Module] = {}
        self._load()
        self._index()

    # ---------------------------------------------------------------- loading
    def _load(self) -> None:
        if not os.path.isdir(self.pkgdir):
            raise AnalysisError(f"package directory {self.pkgdir} not found")
        parsed = []
        for dirpath, dirnames, filenames in os.walk(self.pkgdir):
            dirnames[:] = sorted(d for d in dirnames if d not in ("__pycache__",) and not d.startswith("."))
            for fn in sorted(filenames):
                if not fn.endswith(".py"):
                    continue
                path = os.path.join(dirpath, fn)
                rel = os.path.relpath(path, self.root)
                parts = rel[:-3].split(os.sep)
                if parts[-1] == "__init__":
                    parts = parts[:-1]
                name = ".".join(parts)
                if rel in self.overrides:
                    raw = self.overrides[rel].encode("utf-8")
                else:
                    with open(path, "rb") as fh:
                        raw = fh.read()
                try:
                    src = raw.decode("utf-8")
                    tree = ast.parse(src, filename=rel)
                except (SyntaxError, UnicodeDecodeError, ValueError) as e:
                    raise AnalysisError(f"cannot parse {rel}: {e}")
                parsed.append((name, path, rel, src, tree, raw))
        if self.canonical:
            from . import canon
            canon.align_names({rel: tree for _, _, rel, _, tree, _ in parsed})
            canon.align_params({rel: tree for _, _, rel, _, tree, _ in parsed})
            from . import canon2
            canon2.inline_class_constants_tree_wide({rel: tree for _, _, rel, _, tree, _ in parsed}, canon._ref())
            canon.SIGNATURES.clear()
            canon.SIGNATURES.update(canon.signature_table({rel: tree for _, _, rel, _, tree, _ in parsed}))
        for name, path, rel, src, tree, raw in parsed:
            if self.canonical:
                from .canon import canonicalise
                tree = canonicalise(rel, tree)
            set_parents(tree)
            self.modules[name] = Module(name, path, rel, src, tree, hashlib.sha256(raw).hexdigest())

    def _index(self) -> None:
        for m in self.modules.values():
            for st in m.tree.body:
                self._index_stmt(m, st)
            # imports anywhere at module level, including inside `with`/`try` blocks
            for n in ast.walk(m.tree):
                if isinstance(n, ast.Import):
                    for a in n.names:
                        m.imports[a.asname or a.name.split(".")[0]] = a.name if a.asname else a.name.split(".")[0]
                elif isinstance(n, ast.ImportFrom):
                    base = n.module or ""
                    if n.level:
                        pk = m.name.split(".")
                        # module m.name lives in package pk[:-1] (files) — __init__ handled as package itself
                        is_pkg = m.path.endswith("__init__.py")
                        anchor = pk if is_pkg else pk[:-1]
                        anchor = anchor[: len(anchor) - (n.level - 1)] if n.level > 1 else anchor
                        base = ".".join(anchor + ([n.module] if n.module else []))
                    for a in n.names:
                        m.imports[a.asname or a.name] = f"{base}.{a.name}" if base else a.name
        # resolve bases
        for m in self.modules.values():
            for c in m.classes.values():
                for b in c.base_exprs:
                    ent = self.resolve_expr(m, b)
                    if isinstance(ent, Class):
                        c.bases.append(ent)

    def _index_stmt(self, m: Module, st: ast.stmt) -> None:
        if isinstance(st, ast.FunctionDef):
            m.functions[st.name] = Func(m, st.name, st)
        elif isinstance(st, ast.ClassDef):
            c = Class(m, st.name, st, base_exprs=list(st.bases))
            m.classes[st.name] = c
            for s2 in st.body:
                if isinstance(s2, ast.FunctionDef):
                    f = Func(m, f"{st.name}.{s2.name}", s2, c)
                    c.methods[s2.name] = f
                    m.functions[f.qualname] = f
        elif isinstance(st, ast.Assign):
            for t in st.targets:
                if isinstance(t, ast.Name):
                    m.assigns[t.id] = st.value
        elif isinstance(st, ast.AnnAssign) and isinstance(st.target, ast.Name) and st.value is not None:
            m.assigns[st.target.id] = st.value
        elif isinstance(st, (ast.With, ast.Try, ast.If)):
            for s2 in st.body:
                self._index_stmt(m, s2)

    # ---------------------------------------------------------------- lookups
    def module(self, short: str) -> Module:
        name = short if short.startswith(PKG) else f"{PKG}.{short}"
        if name not in self.modules:
            raise AnchorMissing(f"module {name} not found")
        return self.modules[name]

    def func(self, short_mod: str, qualname: str) -> Func:
        m = self.module(short_mod)
        if qualname not in m.functions:
            raise AnchorMissing(f"function {qualname} not found in {m.relpath}")
        return m.functions[qualname]

    def cls(self, short_mod: str, name: str) -> Class:
        m = self.module(short_mod)
        if name not in m.classes:
            raise AnchorMissing(f"class {name} not found in {m.relpath}")
        return m.classes[name]

    def all_funcs(self) -> List[Func]:
        out = []
        for m in self.modules.values():
            out.extend(m.functions.values())
        return out

    def all_classes(self) -> List[Class]:
        out = []
        for m in self.modules.values():
            out.extend(m.classes.values())
        return out

    def enclosing_func(self, m: Module, node: ast.AST) -> Optional[Func]:
        for a in ancestors(node):
            if isinstance(a, ast.FunctionDef):
                for f in m.functions.values():
                    if f.node is a:
                        return f
                return None
        return None

    # ---------------------------------------------------------------- name resolution
    def resolve_qualified(self, q: str):
        """Qualified dotted name -> repo entity (Module / Func / Class / ('const', Module, name)) or the string itself."""
        parts = q.split(".")
        for i in range(len(parts), 0, -1):
            mn = ".".join(parts[:i])
            if mn in self.modules:
                m = self.modules[mn]
                rest = parts[i:]
                if not rest:
                    return m
                if len(rest) == 1:
                    if rest[0] in m.classes:
                        return m.classes[rest[0]]
                    if rest[0] in m.functions:
                        return m.functions[rest[0]]
                    if rest[0] in m.assigns:
                        return ("const", m, rest[0])
                    if rest[0] in m.imports:
                        return self.resolve_qualified(m.imports[rest[0]])
                if len(rest) == 2 and rest[0] in m.classes:
                    c = m.classes[rest[0]]
                    f = c.find_method(rest[1])
                    if f:
                        return f
                    return ("classattr", c, rest[1])
                return q
        return q

    def resolve_expr(self, m: Module, e: ast.expr):
        """Name / dotted Attribute -> repo entity, or external qualified name (str), or None."""
        q = self.qualname_of(m, e)
        if q is None:
            return None
        return self.resolve_qualified(q)

    def qualname_of(self, m: Module, e: ast.expr) -> Optional[str]:
        parts = []
        n = e
        while isinstance(n, ast.Attribute):
            parts.append(n.attr)
            n = n.value
        if not isinstance(n, ast.Name):
            return None
        parts.append(n.id)
        parts.reverse()
        head = parts[0]
        if head in m.imports:
            return ".".join([m.imports[head]] + parts[1:])
        if head in m.classes or head in m.functions or head in m.assigns:
            return ".".join([m.name] + parts)
        return None

    def digests(self) -> Dict[str, str]:
        return {m.relpath: m.sha256 for m in self.modules.values()}

    def counts(self) -> Dict[str, int]:
        return {
            "modules": len(self.modules),
            "classes": sum(len(m.classes) for m in self.modules.values()),
            "functions": sum(len(m.functions) for m in self.modules.values()),
        }


# ---------------------------------------------------------------------- small AST helpers
def is_logging_call(e: ast.AST) -> bool:
    """logging.<x>(...) / print(...) / warnings.<x>(...) expression."""
    if not isinstance(e, ast.Call):
        return False
    f = e.func
    if isinstance(f, ast.Name) and f.id == "print":
        return True
    if isinstance(f, ast.Attribute) and isinstance(f.value, ast.Name) and f.value.id in ("logging", "warnings", "logger", "log"):
        return True
    return False


def is_behaviour_free(st: ast.stmt) -> bool:
    """Statement without effect on the export: logging / print call, docstring or bare constant, bare annotation, pass."""
    if isinstance(st, ast.Expr):
        if isinstance(st.value, ast.Constant):
            return True
        if is_logging_call(st.value):
            return True
    if isinstance(st, ast.AnnAssign) and st.value is None:
        return True
    if isinstance(st, ast.Pass):
        return True
    return False


def dotted(e: ast.AST) -> Optional[str]:
    """`a.b.c` -> 'a.b.c' for Name/Attribute chains, else None."""
    parts = []
    n = e
    while isinstance(n, ast.Attribute):
        parts.append(n.attr)
        n = n.value
    if isinstance(n, ast.Name):
        parts.append(n.id)
        return ".".join(reversed(parts))
    return None


def src(node: ast.AST, limit: int = 160) -> str:
    try:
        s = ast.unparse(node)
    except Exception:
        s = type(node).__name__
    s = " ".join(s.split())
    return s if len(s) <= limit else s[: limit - 3] + "..."


def const_value(e: ast.AST):
    if isinstance(e, ast.Constant):
        return e.value
    raise ValueError


def stmts_of(fn: ast.FunctionDef) -> List[ast.stmt]:
    return [n for n in body_walk(fn) if isinstance(n, ast.stmt)]

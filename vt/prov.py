"""M5 (inter-procedural part) — backward provenance slices.

`Prov(tree).of(func, expr)` returns the set of *leaf sources* an expression's value may derive from, following
local definitions, `self.attr` assignments anywhere in the class, parameters to the matching argument of every
resolved call site, and returns of resolved repo callees. Operators on the way are recorded as flags.

Leaves:
  ('const', repr)                literal
  ('attr', 'args.X')             attribute of an untyped / external object (e.g. the argparse namespace)
  ('ext', qualified_name)        result of an external call
  ('param', func_key, name)      parameter without resolved call sites (entry point)
  ('global', module, name)       module-level name
  ('opaque', text)               anything else
Flags (set of str): 'arith', 'slice', 'index', 'call:<repo func>', 'iter', 'aug', 'cmp', 'bool'
"""
from __future__ import annotations

import ast
from typing import Dict, FrozenSet, List, Optional, Set, Tuple

from .core import Tree, Func, Class, dotted, body_walk, src
from .callgraph import CallGraph


class Prov:
    def __init__(self, tree: Tree, max_depth: int = 12):
        self.tree = tree
        self.cg = CallGraph.of(tree)
        self.max_depth = max_depth

    def of(self, f: Func, e: ast.AST) -> Tuple[Set[tuple], Set[str]]:
        leaves: Set[tuple] = set()
        flags: Set[str] = set()
        self._go(f, e, leaves, flags, set(), 0)
        return leaves, flags

    # -------------------------------------------------------------------
    def _go(self, f: Func, e: ast.AST, leaves, flags, seen, depth):
        key = (f.key, id(e))
        if key in seen:
            return
        seen.add(key)
        if depth > self.max_depth:
            leaves.add(("opaque", "depth"))
            return
        if isinstance(e, ast.Constant):
            leaves.add(("const", repr(e.value)))
            return
        if isinstance(e, ast.Name):
            self._name(f, e.id, e, leaves, flags, seen, depth)
            return
        if isinstance(e, ast.Attribute):
            d = dotted(e)
            base = e.value
            env = self.cg.envs[f]
            bt = env.type_of_expr(base)
            if isinstance(bt, Class):
                self._attr(bt, e.attr, leaves, flags, seen, depth)
                return
            if d:
                leaves.add(("attr", d))
            else:
                flags.add("attrof")
                self._go(f, base, leaves, flags, seen, depth + 1)
            return
        if isinstance(e, ast.Subscript):
            flags.add("slice" if isinstance(e.slice, ast.Slice) else "index")
            self._go(f, e.value, leaves, flags, seen, depth + 1)
            return
        if isinstance(e, (ast.BinOp,)):
            flags.add("arith")
            self._go(f, e.left, leaves, flags, seen, depth + 1)
            self._go(f, e.right, leaves, flags, seen, depth + 1)
            return
        if isinstance(e, ast.UnaryOp):
            flags.add("arith" if not isinstance(e.op, ast.Not) else "bool")
            self._go(f, e.operand, leaves, flags, seen, depth + 1)
            return
        if isinstance(e, ast.BoolOp):
            flags.add("bool")
            for v in e.values:
                self._go(f, v, leaves, flags, seen, depth + 1)
            return
        if isinstance(e, ast.Compare):
            flags.add("cmp")
            self._go(f, e.left, leaves, flags, seen, depth + 1)
            for c in e.comparators:
                self._go(f, c, leaves, flags, seen, depth + 1)
            return
        if isinstance(e, ast.IfExp):
            self._go(f, e.body, leaves, flags, seen, depth + 1)
            self._go(f, e.orelse, leaves, flags, seen, depth + 1)
            return
        if isinstance(e, (ast.Tuple, ast.List, ast.Set)):
            for x in e.elts:
                self._go(f, x, leaves, flags, seen, depth + 1)
            return
        if isinstance(e, ast.Call):
            cs = self.cg.site(e)
            if cs is not None and cs.callees and cs.kind in ("repo",):
                for callee in cs.callees:
                    if cs.ctor_of is not None:
                        leaves.add(("new", cs.ctor_of.key))
                        continue
                    flags.add(f"call:{callee.key}")
                    for n in body_walk(callee.node):
                        if isinstance(n, ast.Return) and n.value is not None:
                            self._go(callee, n.value, leaves, flags, seen, depth + 1)
                return
            name = (cs.external if cs is not None and cs.external else None) or dotted(e.func) or src(e.func, 40)
            # value-preserving wrappers: bytes(x), bytearray(x), x.__str__(), str(x), list(x)
            if name in ("bytes", "bytearray", "str", "list", "tuple") and len(e.args) == 1:
                self._go(f, e.args[0], leaves, flags, seen, depth + 1)
                return
            if isinstance(e.func, ast.Attribute) and e.func.attr in ("__str__", "copy", "encode", "decode", "lower", "upper", "hex"):
                self._go(f, e.func.value, leaves, flags, seen, depth + 1)
                return
            leaves.add(("ext", name))
            return
        leaves.add(("opaque", src(e, 50)))

    def _name(self, f: Func, name: str, at: ast.AST, leaves, flags, seen, depth):
        found = False
        for n in body_walk(f.node):
            if isinstance(n, ast.Assign):
                for t in n.targets:
                    if isinstance(t, ast.Name) and t.id == name:
                        found = True
                        self._go(f, n.value, leaves, flags, seen, depth + 1)
                    elif isinstance(t, (ast.Tuple, ast.List)):
                        for i, el in enumerate(t.elts):
                            if isinstance(el, ast.Name) and el.id == name:
                                found = True
                                flags.add("unpack")
                                self._go(f, n.value, leaves, flags, seen, depth + 1)
            elif isinstance(n, ast.AnnAssign) and isinstance(n.target, ast.Name) and n.target.id == name and n.value is not None:
                found = True
                self._go(f, n.value, leaves, flags, seen, depth + 1)
            elif isinstance(n, ast.AugAssign) and isinstance(n.target, ast.Name) and n.target.id == name:
                found = True
                flags.add("aug")
                self._go(f, n.value, leaves, flags, seen, depth + 1)
            elif isinstance(n, ast.For):
                for el in ast.walk(n.target):
                    if isinstance(el, ast.Name) and el.id == name:
                        found = True
                        flags.add("iter")
                        self._go(f, n.iter, leaves, flags, seen, depth + 1)
        if name in f.params or any(a.arg == name for a in f.node.args.kwonlyargs):
            found = True
            self._param(f, name, leaves, flags, seen, depth)
        if not found:
            m = f.module
            if name in m.assigns:
                leaves.add(("global", m.short, name))
            elif name in m.imports:
                leaves.add(("global", m.imports[name], name))
            else:
                leaves.add(("opaque", name))

    def _param(self, f: Func, name: str, leaves, flags, seen, depth):
        sites = self.cg.callers_of(f)
        if not sites:
            leaves.add(("param", f.key, name))
            return
        params = f.params
        idx = params.index(name) if name in params else None
        is_method = f.cls is not None and params and params[0] == "self"
        dflt = self._default_of(f, name)
        for cs in sites:
            call = cs.node
            arg = None
            for k in call.keywords:
                if k.arg == name:
                    arg = k.value
            if arg is None and idx is not None:
                pos = idx - 1 if (is_method and (cs.ctor_of is not None or isinstance(call.func, ast.Attribute))) else idx
                if cs.ctor_of is None and is_method and not isinstance(call.func, ast.Attribute):
                    pos = idx
                if 0 <= pos < len(call.args):
                    arg = call.args[pos]
            if arg is not None:
                self._go(cs.caller, arg, leaves, flags, seen, depth + 1)
            elif dflt is not None:
                self._go(f, dflt, leaves, flags, seen, depth + 1)
            else:
                leaves.add(("param", f.key, name))

    def _default_of(self, f: Func, name: str):
        a = f.node.args
        pos = a.posonlyargs + a.args
        n_def = len(a.defaults)
        for i, arg in enumerate(pos):
            if arg.arg == name:
                j = i - (len(pos) - n_def)
                if j >= 0:
                    return a.defaults[j]
        for arg, d in zip(a.kwonlyargs, a.kw_defaults):
            if arg.arg == name and d is not None:
                return d
        return None

    def _attr(self, c: Class, attr: str, leaves, flags, seen, depth):
        found = False
        for k in c.mro():
            for meth in k.methods.values():
                for n in body_walk(meth.node):
                    tgt = val = None
                    if isinstance(n, ast.Assign):
                        for t in n.targets:
                            if isinstance(t, ast.Attribute) and isinstance(t.value, ast.Name) and t.value.id == "self" and t.attr == attr:
                                tgt, val = t, n.value
                    elif isinstance(n, ast.AnnAssign) and n.value is not None:
                        t = n.target
                        if isinstance(t, ast.Attribute) and isinstance(t.value, ast.Name) and t.value.id == "self" and t.attr == attr:
                            tgt, val = t, n.value
                    elif isinstance(n, ast.AugAssign):
                        t = n.target
                        if isinstance(t, ast.Attribute) and isinstance(t.value, ast.Name) and t.value.id == "self" and t.attr == attr:
                            flags.add("aug")
                            tgt, val = t, n.value
                    if tgt is not None:
                        found = True
                        self._go(meth, val, leaves, flags, seen, depth + 1)
            # class-level attribute
            for st in k.node.body:
                if isinstance(st, ast.Assign) and any(isinstance(t, ast.Name) and t.id == attr for t in st.targets):
                    found = True
                    leaves.add(("const", src(st.value, 40)))
        # writes from outside the class: obj.attr = v where obj is typed as c
        for g in self.tree.all_funcs():
            if g.cls is c:
                continue
            env = self.cg.envs[g]
            for n in body_walk(g.node):
                if isinstance(n, ast.Assign):
                    for t in n.targets:
                        if isinstance(t, ast.Attribute) and t.attr == attr and not (isinstance(t.value, ast.Name) and t.value.id == "self"):
                            bt = env.type_of_expr(t.value)
                            if isinstance(bt, Class) and (bt is c or c in bt.mro() or bt in c.mro()):
                                found = True
                                self._go(g, n.value, leaves, flags, seen, depth + 1)
        if not found:
            leaves.add(("attr", f"{c.name}.{attr}"))

"""Texts for MANIFEST.json (level_claimed / level_note / technique) per property."""
NOTE = ("Trusted base: CPython's ast parser; vt's own CFG / dataflow / call-graph / normaliser / guard evaluator (validated by break and preserve "
        "variants in the thorough tier); frozen reference tables (IANA registry copy, RFC layouts, KDF labels) transcribed by hand; "
        "behaviour of cryptography, scapy, dpkt and argparse. Decides only the structural clauses named in level_claimed.text; "
        "value-level arithmetic inside library calls and equality of exported bytes over all inputs are not decided.")

TECH = {
    "C01": "per-direction cipher-state pairing on the CFG, mirror comparison of direction arms, dispatch decision table by finite-domain guard evaluation, symbolic-cursor hello layouts, payload provenance slices",
    "C02": "datagram-grouping path conditions, producer/consumer key-dictionary agreement, AAD layout tables, header-protection constants, mirror arms, epoch rule",
    "C03": "interprocedural exception-escape analysis (may-raise sites × try coverage over the resolved call graph), loop-progress analysis, fail-closed gate dominance, payload provenance",
    "C04": "state-ownership analysis of flow classes, 4-tuple orientation predicates, client-random-dominated secret selection, non-empty connection-ID match",
    "C05": "CFG dominance/pairing rules on the reassembly state machine, loop-progress and loop-replay lemma, sibling-function mirror comparison",
    "C06": "frame-provenance of everything reaching the writer, TCP conversation typestate and seq/ack def-use ordering, telescoping split of records",
    "C07": "timestamp/address provenance slices without arithmetic, canonical overlap test, orientation mirrors",
    "C08": "causality / append-only / left-fold argument discharged as structural obligations (single in-order pass, append-only channels, whole-record release, per-record fault containment)",
    "C09": "regex AST analysis (re._parser) of the key-log pattern against consumer label literals, ingestion-pipeline def-use and call-graph reachability, argparse option model",
    "C10": "argparse option model, control dependence of every port rewrite on the -m flag, interprocedural provenance of flag and port map",
    "C11": "fold-guard constant reasoning, pseudo-header layout tables, object-variant attribute definedness, dominance of dispatch by the checksum verdict",
    "C12": "byte-order pairing of conditional expressions, tsresol constants, dominance of block consumption over type dispatch",
    "C13": "control-dependence effect set of the metadata switch (edge dominance on the CFG), provenance of the switch",
    "C14": "AST table extraction + structural confirmation of resolver loop semantics + comparison with independent registry / name grammar",
    "C15": "KDF call-site table (labels, lengths, hash, secret role), telescoping key-block slices by polynomial normal form, argument-role agreement at wiring call sites",
    "C16": "forward substitution to a decision tree and normal-form equality with RFC 9000 A.3; integer-exactness lint; space-map table check",
    "C17": "symbolic-cursor layout extraction per frame class vs RFC 9000 §19 table, registry completeness, progress ≥ 1 byte per frame, varint decoder shape",
    "C18": "nondeterminism-source inventory over the call graph from run(), set-iteration order sensitivity, module-state re-initialisation dominance",
}

LEVEL_SUFFIX = (" Level 'other': static decision of the listed structural clauses (each a necessary condition of the property, evaluated on all paths of the "
                "source), not of the behavioural statement as a whole.")


def texts_for(pid, explanation):
    return {"category": "other", "level_text": explanation + LEVEL_SUFFIX, "level_note": NOTE, "technique": TECH[pid]}


NOT_APPLICABLE = {}
for _p in ():
    NOT_APPLICABLE[_p] = "framework under construction: rules for this property are not committed yet (temporary entry, will be claimed)"

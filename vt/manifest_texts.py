"""Texts for MANIFEST.json (level_claimed / level_note / technique) per property."""
NOTE = ("Trusted base: CPython's ast parser; vt's own CFG / dataflow / normaliser / guard evaluator (validated by break and preserve "
        "variants in the thorough tier); frozen reference tables (IANA registry copy, RFC layouts, KDF labels) transcribed by hand; "
        "behaviour of cryptography, scapy, dpkt and argparse. Decides only the structural clauses named in level_claimed.text; "
        "value-level arithmetic inside library calls is not decided.")

TEXTS = {
    "C14": {
        "category": "other",
        "level_text": "Decides the whole statement given the structurally confirmed semantics of the 12-line resolver loop: all table rows are "
                      "compared with an independent registry copy (T1), every name is resolved from the literal ordered sub-tables under the "
                      "first-match semantics read off the source and compared with an independent name grammar (T2), all other code points are "
                      "rejected by the exact-key lookup argument, and every producible bulk class has a decryptor class and block size (T3a). "
                      "Obligations are enumerated and discharged one by one (proof-like), reported as 'other' because the loop semantics are "
                      "confirmed by shape, not by a verified interpreter.",
        "level_note": NOTE,
        "technique": "AST table extraction + structural confirmation of resolver loop semantics + comparison with independent registry/name grammar",
    },
}

NOT_APPLICABLE = {}
NOT_APPLICABLE['C01'] = 'framework under construction: rules for this property are not committed yet (temporary entry)'
NOT_APPLICABLE['C02'] = 'framework under construction: rules for this property are not committed yet (temporary entry)'
NOT_APPLICABLE['C03'] = 'framework under construction: rules for this property are not committed yet (temporary entry)'
NOT_APPLICABLE['C04'] = 'framework under construction: rules for this property are not committed yet (temporary entry)'
NOT_APPLICABLE['C05'] = 'framework under construction: rules for this property are not committed yet (temporary entry)'
NOT_APPLICABLE['C06'] = 'framework under construction: rules for this property are not committed yet (temporary entry)'
NOT_APPLICABLE['C07'] = 'framework under construction: rules for this property are not committed yet (temporary entry)'
NOT_APPLICABLE['C08'] = 'framework under construction: rules for this property are not committed yet (temporary entry)'
NOT_APPLICABLE['C09'] = 'framework under construction: rules for this property are not committed yet (temporary entry)'
NOT_APPLICABLE['C10'] = 'framework under construction: rules for this property are not committed yet (temporary entry)'
NOT_APPLICABLE['C11'] = 'framework under construction: rules for this property are not committed yet (temporary entry)'
NOT_APPLICABLE['C12'] = 'framework under construction: rules for this property are not committed yet (temporary entry)'
NOT_APPLICABLE['C13'] = 'framework under construction: rules for this property are not committed yet (temporary entry)'
NOT_APPLICABLE['C15'] = 'framework under construction: rules for this property are not committed yet (temporary entry)'
NOT_APPLICABLE['C16'] = 'framework under construction: rules for this property are not committed yet (temporary entry)'
NOT_APPLICABLE['C17'] = 'framework under construction: rules for this property are not committed yet (temporary entry)'
NOT_APPLICABLE['C18'] = 'framework under construction: rules for this property are not committed yet (temporary entry)'

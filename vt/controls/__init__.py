"""Positive controls: in-memory break variants of the *current* tree that a rule must report on every run.
A control that stops matching makes the run fail as ANALYSIS-ERROR (exit 2) instead of passing vacuously."""
from __future__ import annotations

from typing import List

from ..core import AnalysisError


def run_controls(names: List[str]) -> dict:
    from ..selftest import VARIANTS, run_variant
    from .. import variants  # noqa: F401 (registers the catalogue)
    out = {}
    for name in names:
        v = VARIANTS.get(name)
        if v is None:
            raise AnalysisError(f"positive control {name} is not defined")
        res = run_variant(v)
        if not res["applied"]:
            raise AnalysisError(f"positive control {name}: the construct it edits was not found (anchor vanished)")
        if not res["detected"]:
            raise AnalysisError(f"positive control {name}: rule {v.rule} did not report the broken instance ({v.expect})")
        out[name] = "reported"
    return out

"""Positive controls: in-memory break variants of the *current* tree that a rule must report on every run.
They guard against vacuous passes: when the main analysis is silent and an applied control is not reported, the run
fails as ANALYSIS-ERROR (exit 2); a control whose edit site does not exist on the analysed tree is recorded as not applicable. When the main analysis already reports violations the control outcome is only recorded (a change
that breaks the very construct a control edits must surface as a VIOLATION, not as a broken check)."""
from __future__ import annotations

from typing import List, Tuple

from ..core import AnalysisError


def run_controls(names: List[str]) -> Tuple[dict, List[str]]:
    from ..selftest import VARIANTS, run_variant
    from .. import variants  # noqa: F401 (registers the catalogue)
    out = {}
    failures = []
    for name in names:
        v = VARIANTS.get(name)
        if v is None:
            raise AnalysisError(f"positive control {name} is not defined")
        try:
            res = run_variant(v, presence=True)
        except AnalysisError as e:
            out[name] = f"analysis error on the control variant: {e}"
            failures.append(f"positive control {name}: {e}")
            continue
        if not res["applied"]:
            # the control edits the source as written; on a tree where that statement is spelled differently the edit has no site. That is no
            # verdict about the tree: the rule itself ran (its anchors are guarded by AnchorMissing and the instance floors), only this
            # liveness demonstration is not available. Recorded in the evidence, not a failure (it used to end a behaviour-preserving
            # rename in exit 2).
            out[name] = "not applicable on this tree: the statement the control edits is spelled differently"
        elif not res["detected"]:
            out[name] = "not reported"
            failures.append(f"positive control {name}: rule {v.rule} did not report the broken instance ({v.expect})")
        else:
            out[name] = "reported"
    return out, failures

"""Positive controls: in-memory break variants of the *current* tree that a rule must report on every run.
They guard against vacuous passes: when the main analysis is silent and a control cannot be applied or is not reported, the run
fails as ANALYSIS-ERROR (exit 2). When the main analysis already reports violations the control outcome is only recorded (a change
that breaks the very construct a control edits must surface as a VIOLATION, not as a broken check)."""
from __future__ import annotations

from typing import List, Tuple

from ..core import AnalysisError


def run_controls(names: List[str]) -> Tuple[dict, List[str]]:
    from ..selftest import VARIANTS, run_variant
    from .. import variants  # noqa: F401 (registers the catalogue)
    out = {}
    failures = []
    for name in names:
        v = VARIANTS.get(name)
        if v is None:
            raise AnalysisError(f"positive control {name} is not defined")
        try:
            res = run_variant(v, presence=True)
        except AnalysisError as e:
            out[name] = f"analysis error on the control variant: {e}"
            failures.append(f"positive control {name}: {e}")
            continue
        if not res["applied"]:
            out[name] = "edit site not found"
            failures.append(f"positive control {name}: the construct it edits was not found (anchor vanished)")
        elif not res["detected"]:
            out[name] = "not reported"
            failures.append(f"positive control {name}: rule {v.rule} did not report the broken instance ({v.expect})")
        else:
            out[name] = "reported"
    return out, failures

"""Load-time canonicalisation of the analysed AST (semantics-preserving, applied to every module before any rule runs):

  (a) `if not C: A else: B`            ->  `if C: B else: A`           (only when the else branch is not an elif chain; likewise
      `if a != b: A else: B` -> `if a == b: B else: A`, and `is not` / `not in`)
  (b) `x = x <op> e`                   ->  `x <op>= e`                 (x a name / attribute chain, e free of side conditions on x)
  (c) local variable names             ->  the names the rules were written against, aligned by binding order
                                           (vt/ref_locals.json: per function the locals of the reference tree in order of first binding)
  (d) `b == a` / `b != a`              ->  `a == b` when the reference tree writes that comparison as `a == b`  (ref_locals.json, "=="-lists)
  (e) `range(n)`                       ->  `range(0, n)`
  (f) a *new* local (not in the reference list) that is assigned once and used once, in the very next statement, is substituted
      into that statement (undoes "introduce a temporary")

  (g) `not (a == b)` -> `a != b` (likewise is / in and their negations); `if not not c` -> `if c`
  (h) `if a: (if b: X)` with no else on either  ->  `if a and b: X`
  (i) a guard `if T: continue` at the top level of a loop body  ->  `if not T: <rest of the body>`
  (j) `b > a` -> `a < b` when the reference tree writes that comparison as `a < b` (ref_locals.json, "<"-lists)

  (k) a module-level name that the reference tree does not have, bound exactly once in the module to an int / bytes / str literal
      (possibly signed or a constant expression of such literals), is substituted by its value where it is read
      (undoes "give the magic number a name")

  (l) `a, b = x, y`  ->  `a = x; b = y`   when no later right-hand side reads an earlier target and the right-hand sides are call-free
  (m) `t = a if c else b`  <->  `if c: t = a else: t = b`   towards the form the reference tree uses for that target (ref_locals.json, "ifexp"/"ifstmt" lists)
  (n) `if E:` / `if not E:`  ->  `if len(E) != 0:` / `if len(E) == 0:`   when the reference tree spells that test with len() (E was sized there)

  (o) `f(a, y=c, x=b)` -> `f(a, b, c)` for calls of repository functions / constructors whose simple name has one signature in the whole tree and whose
      keywords fill the next positions without a gap
  (p) two adjacent, mutually independent, call-free assignments to locals are put into the order the reference tree binds those locals
  (q) `if c: …return` followed by the rest of the block  <->  `if c: …return else: rest`, towards the shape the reference tree has for that test

  (r) a function / method that the reference tree does not have, called from exactly one place as `h(a, b)` / `self.h(a, b)` (statement, or
      `x = …` with a single trailing `return e`), whose parameters are bound to plain names, is inlined at that call (undoes "extract method")

  (s) a renamed parameter (same position, same number of parameters as in the reference tree) gets its reference name back, in the body and in
      keyword arguments of calls to that function (only when capture-free and when the simple name of the function has one signature in the tree)

  (t) a renamed function / method (one definition of the reference tree is missing from its module / class, one new definition with a matching body is
      there, and the new name is unknown to the reference tree) gets its reference name back, at the definition and at every reference in the tree
  (u) a renamed instance attribute (same: one attribute of the class is missing, one unknown attribute with the same occurrence profile over the
      methods of the class is there) gets its reference name back everywhere in the tree

  (w) `t = not A or B`  ->  `t = True if not A else B` (then step m)

  (v) `x.to_bytes(n, byteorder='big')` / `int.from_bytes(b, byteorder='big')` -> positional byte order; `bytes.fromhex('0016')` of a literal -> the
      bytes literal

(c) is a pure renaming: it is applied only when it is capture-free (the reference name is not otherwise used in the function).
The rules therefore see the same program whether a developer renamed `index` to `pos`, rewrote `x += 1` as `x = x + 1` or swapped
the arms of an `if`. Line numbers are untouched.
"""
from __future__ import annotations

import ast
import difflib
import json
import os
from typing import Dict, List, Optional

_REF: Optional[Dict[str, List[str]]] = None
REF_PATH = os.path.join(os.path.dirname(os.path.abspath(__file__)), "ref_locals.json")


def _ref() -> Dict[str, List[str]]:
    global _REF
    if _REF is None:
        try:
            with open(REF_PATH) as fh:
                _REF = json.load(fh)
        except FileNotFoundError:
            _REF = {}
    return _REF


def _same(a: ast.AST, b: ast.AST) -> bool:
    return ast.dump(a) == ast.dump(b).replace("Store()", "Load()") or ast.dump(a).replace("Store()", "Load()") == ast.dump(b).replace("Store()", "Load()")


def _cmp_key(l: ast.AST, r: ast.AST) -> str:
    return ast.dump(l) + " || " + ast.dump(r)


_NEG = {ast.Eq: ast.NotEq, ast.NotEq: ast.Eq, ast.Is: ast.IsNot, ast.IsNot: ast.Is, ast.In: ast.NotIn, ast.NotIn: ast.In}
# `not a > b` is `a <= b` for the integers / lengths compared in this code base (no NaN, no partial orders)
_NEG_ORD = {ast.Lt: ast.GtE, ast.GtE: ast.Lt, ast.Gt: ast.LtE, ast.LtE: ast.Gt}
_FLIP = {ast.Lt: ast.Gt, ast.Gt: ast.Lt, ast.LtE: ast.GtE, ast.GtE: ast.LtE}


def _negate(t: ast.AST) -> ast.AST:
    """Boolean-context negation of a test, in the simplest exact form."""
    if isinstance(t, ast.UnaryOp) and isinstance(t.op, ast.Not):
        return t.operand
    if isinstance(t, ast.Compare) and len(t.ops) == 1 and type(t.ops[0]) in _NEG:
        return ast.copy_location(ast.Compare(left=t.left, ops=[_NEG[type(t.ops[0])]()], comparators=t.comparators), t)
    return ast.copy_location(ast.UnaryOp(op=ast.Not(), operand=t), t)


def _strip_double_not(t: ast.AST) -> ast.AST:
    while isinstance(t, ast.UnaryOp) and isinstance(t.op, ast.Not) and isinstance(t.operand, ast.UnaryOp) and isinstance(t.operand.op, ast.Not):
        t = t.operand.operand
    return t


def _fold_guards(body: List[ast.stmt]) -> List[ast.stmt]:
    for i, st in enumerate(body):
        if isinstance(st, ast.If) and not st.orelse and len(st.body) == 1 and isinstance(st.body[0], ast.Continue) and i < len(body) - 1:
            rest = _fold_guards(body[i + 1:])
            new = ast.copy_location(ast.If(test=_negate(st.test), body=rest, orelse=[]), st)
            return body[:i] + [_merge_nested(new)]
    return body


def _merge_nested(node: ast.If) -> ast.If:
    while not node.orelse and len(node.body) == 1 and isinstance(node.body[0], ast.If) and not node.body[0].orelse:
        inner = node.body[0]
        vals = []
        for t in (node.test, inner.test):
            if isinstance(t, ast.BoolOp) and isinstance(t.op, ast.And):
                vals.extend(t.values)
            else:
                vals.append(t)
        node.test = ast.copy_location(ast.BoolOp(op=ast.And(), values=vals), node.test)
        node.body = inner.body
    return node


class _Canon(ast.NodeTransformer):
    def visit_UnaryOp(self, node: ast.UnaryOp):
        self.generic_visit(node)
        if isinstance(node.op, ast.Not) and isinstance(node.operand, ast.Compare) and len(node.operand.ops) == 1 and type(node.operand.ops[0]) in _NEG:
            return _negate(node.operand)
        if isinstance(node.op, ast.Not) and isinstance(node.operand, ast.Compare) and len(node.operand.ops) == 1 and type(node.operand.ops[0]) in _NEG_ORD:
            c = node.operand
            return ast.copy_location(ast.Compare(left=c.left, ops=[_NEG_ORD[type(c.ops[0])]()], comparators=c.comparators), node)
        return node

    def visit_For(self, node: ast.For):
        self.generic_visit(node)
        node.body = _fold_guards(node.body)
        return node

    def visit_While(self, node: ast.While):
        self.generic_visit(node)
        node.test = _strip_double_not(node.test)
        node.body = _fold_guards(node.body)
        return node

    def visit_Call(self, node: ast.Call):
        self.generic_visit(node)
        # `signed=False` is the default of int.from_bytes / int.to_bytes: one spelling
        if isinstance(node.func, ast.Attribute) and node.func.attr in ("to_bytes", "from_bytes"):
            node.keywords = [k for k in node.keywords if not (k.arg == "signed" and isinstance(k.value, ast.Constant) and k.value.value is False)]
        if isinstance(node.func, ast.Attribute) and node.func.attr in ("to_bytes", "from_bytes") and len(node.keywords) == 1 and node.keywords[0].arg == "byteorder" \
                and len(node.args) == (1 if not (isinstance(node.func.value, ast.Name) and node.func.value.id == "int" and node.func.attr == "to_bytes") else 2):
            node.args = list(node.args) + [node.keywords[0].value]
            node.keywords = []
        if isinstance(node.func, ast.Attribute) and node.func.attr == "fromhex" and isinstance(node.func.value, ast.Name) and node.func.value.id == "bytes" \
                and len(node.args) == 1 and not node.keywords and isinstance(node.args[0], ast.Constant) and isinstance(node.args[0].value, str):
            try:
                return ast.copy_location(ast.Constant(bytes.fromhex(node.args[0].value)), node)
            except ValueError:
                pass
        if isinstance(node.func, ast.Name) and node.func.id == "isinstance" and len(node.args) == 2 and not node.keywords and isinstance(node.args[1], ast.Tuple) \
                and len(node.args[1].elts) >= 2 and isinstance(node.args[0], (ast.Name, ast.Attribute)):
            import copy as _copy
            return ast.copy_location(ast.BoolOp(op=ast.Or(), values=[ast.copy_location(ast.Call(func=ast.Name("isinstance", ast.Load()), args=[_copy.deepcopy(node.args[0]), e], keywords=[]), node)
                                                                     for e in node.args[1].elts]), node)
        if isinstance(node.func, ast.Name) and node.func.id == "range" and len(node.args) == 1 and not node.keywords:
            node.args = [ast.copy_location(ast.Constant(0), node.args[0]), node.args[0]]
        return node

    def visit_If(self, node: ast.If):
        self.generic_visit(node)
        node.test = _strip_double_not(node.test)
        node = _merge_nested(node)
        t = node.test
        if node.orelse and not (len(node.orelse) == 1 and isinstance(node.orelse[0], ast.If)):
            if isinstance(t, ast.UnaryOp) and isinstance(t.op, ast.Not):
                node.test = t.operand
                node.body, node.orelse = node.orelse, node.body
            elif isinstance(t, ast.Compare) and len(t.ops) == 1 and isinstance(t.ops[0], (ast.NotEq, ast.IsNot, ast.NotIn)):
                # one canonical polarity for a two-armed if: positive operator first (`not a == b` and `a != b` are the same test)
                node.test = _negate(t)
                node.body, node.orelse = node.orelse, node.body
        return node

    def visit_Assign(self, node: ast.Assign):
        self.generic_visit(node)
        # (w) `t = not A or B` is `t = True if not A else B` (`not A` evaluates to the constant True exactly when it is taken); step (m)
        # then brings it to the if-statement / conditional-expression shape of the reference tree
        v = node.value
        if len(node.targets) == 1 and isinstance(node.targets[0], (ast.Name, ast.Attribute)) and isinstance(v, ast.BoolOp) and isinstance(v.op, ast.Or) \
                and len(v.values) == 2 and isinstance(v.values[0], ast.UnaryOp) and isinstance(v.values[0].op, ast.Not):
            node.value = ast.copy_location(ast.IfExp(test=v.values[0], body=ast.copy_location(ast.Constant(True), v), orelse=v.values[1]), v)
            return node
        if len(node.targets) == 1 and isinstance(node.targets[0], (ast.Name, ast.Attribute)) and isinstance(node.value, ast.BinOp):
            tgt = node.targets[0]
            if _same(node.value.left, tgt) and isinstance(node.value.op, (ast.Add, ast.Sub, ast.Mult, ast.FloorDiv, ast.LShift, ast.RShift, ast.BitOr, ast.BitAnd, ast.BitXor)):
                # do not rewrite when the right operand mentions the target itself in a way that changes evaluation (x = x + f(x) is fine too)
                new = ast.AugAssign(target=tgt, op=node.value.op, value=node.value.right)
                return ast.copy_location(new, node)
        return node


def binding_order(fn: ast.FunctionDef) -> List[str]:
    """Local names of fn (not parameters) in source order of their first binding; nested defs excluded."""
    params = {a.arg for a in fn.args.posonlyargs + fn.args.args + fn.args.kwonlyargs}
    if fn.args.vararg:
        params.add(fn.args.vararg.arg)
    if fn.args.kwarg:
        params.add(fn.args.kwarg.arg)
    stores = []

    def walk(n):
        for c in ast.iter_child_nodes(n):
            if isinstance(c, (ast.FunctionDef, ast.AsyncFunctionDef, ast.ClassDef)):
                continue
            if isinstance(c, ast.Name) and isinstance(c.ctx, ast.Store):
                stores.append(c)
            if isinstance(c, ast.ExceptHandler) and c.name:
                pass
            walk(c)
    walk(fn)
    stores.sort(key=lambda x: (x.lineno, x.col_offset))
    out = []
    globs = {x for n in ast.walk(fn) if isinstance(n, (ast.Global, ast.Nonlocal)) for x in n.names}
    for s in stores:
        if s.id in params or s.id in globs or s.id in out:
            continue
        out.append(s.id)
    return out


def _rename(fn: ast.FunctionDef, mapping: Dict[str, str]) -> None:
    def walk(n):
        for c in ast.iter_child_nodes(n):
            if isinstance(c, (ast.FunctionDef, ast.AsyncFunctionDef, ast.ClassDef)):
                continue
            if isinstance(c, ast.Name) and c.id in mapping:
                c.id = mapping[c.id]
            walk(c)
    walk(fn)


def all_names(fn: ast.FunctionDef) -> set:
    return {n.id for n in ast.walk(fn) if isinstance(n, ast.Name)} | {a.arg for a in ast.walk(fn) if isinstance(a, ast.arg)}


def _inline_new_temps(fn: ast.FunctionDef, want: List[str]) -> None:
    """(f): new single-use temporaries consumed by the next statement are substituted back."""
    changed = True
    rounds = 0
    while changed and rounds < 8:
        changed = False
        rounds += 1
        counts_store: Dict[str, int] = {}
        counts_load: Dict[str, int] = {}
        for n in ast.walk(fn):
            if isinstance(n, ast.Name):
                if isinstance(n.ctx, ast.Store):
                    counts_store[n.id] = counts_store.get(n.id, 0) + 1
                else:
                    counts_load[n.id] = counts_load.get(n.id, 0) + 1
        for parent_node in ast.walk(fn):
            for fld in ("body", "orelse", "finalbody"):
                lst = getattr(parent_node, fld, None)
                if not isinstance(lst, list):
                    continue
                for i, st in enumerate(lst[:-1]):
                    if isinstance(st, ast.Assign) and len(st.targets) == 1 and isinstance(st.targets[0], ast.Name):
                        nm = st.targets[0].id
                        if nm in want or counts_store.get(nm) != 1 or counts_load.get(nm) != 1:
                            continue
                        nxt = lst[i + 1]
                        uses = [x for x in ast.walk(nxt) if isinstance(x, ast.Name) and x.id == nm and isinstance(x.ctx, ast.Load)]
                        if len(uses) != 1:
                            continue
                        # do not substitute into nested statement bodies of compound statements (only header expressions / simple statements)
                        if isinstance(nxt, (ast.For, ast.While, ast.If, ast.With, ast.Try, ast.FunctionDef, ast.ClassDef, ast.Match)):
                            hdr = getattr(nxt, "test", None) or getattr(nxt, "iter", None)
                            if hdr is None or not any(x is uses[0] for x in ast.walk(hdr)):
                                continue
                        val = st.value

                        class Sub(ast.NodeTransformer):
                            def visit_Name(self, node):
                                if node is uses[0]:
                                    return val
                                return node
                        lst[i + 1] = Sub().visit(nxt)
                        del lst[i]
                        changed = True
                        break
                if changed:
                    break
            if changed:
                break


def _drop_dead_constants(fn: ast.FunctionDef, want: List[str]) -> None:
    """`x = <constant>` for a new local x that is never read: no effect."""
    loads = {n.id for n in ast.walk(fn) if isinstance(n, ast.Name) and isinstance(n.ctx, ast.Load)}
    for parent_node in ast.walk(fn):
        for fld in ("body", "orelse", "finalbody"):
            lst = getattr(parent_node, fld, None)
            if not isinstance(lst, list):
                continue
            keep = []
            for st in lst:
                if isinstance(st, ast.Assign) and len(st.targets) == 1 and isinstance(st.targets[0], ast.Name) and isinstance(st.value, ast.Constant) \
                        and st.targets[0].id not in loads and st.targets[0].id not in want:
                    continue
                keep.append(st)
            if len(keep) != len(lst) and keep:
                lst[:] = keep


def _orient_boolops(fn: ast.FunctionDef, ref_bool: Dict[str, List[str]]) -> None:
    for n in ast.walk(fn):
        if isinstance(n, ast.BoolOp) and len(n.values) >= 2:
            dumps = [ast.dump(v) for v in n.values]
            key = type(n.op).__name__ + "|" + "|".join(sorted(dumps))
            want = ref_bool.get(key)
            if want and want != dumps and sorted(want) == sorted(dumps):
                by = {}
                for d, v in zip(dumps, n.values):
                    by.setdefault(d, []).append(v)
                n.values = [by[d].pop(0) for d in want]


def _orient_compares(fn: ast.FunctionDef, ref_cmp: List[str]) -> None:
    refset = set(ref_cmp)
    for n in ast.walk(fn):
        if isinstance(n, ast.Compare) and len(n.ops) == 1 and isinstance(n.ops[0], (ast.Eq, ast.NotEq)):
            l, r = n.left, n.comparators[0]
            if _cmp_key(l, r) not in refset and _cmp_key(r, l) in refset:
                n.left, n.comparators[0] = r, l


def _lt_key(op: ast.AST, l: ast.AST, r: ast.AST) -> str:
    return type(op).__name__ + "|" + ast.dump(l) + " || " + ast.dump(r)


def _orient_order_compares(fn: ast.FunctionDef, ref_lt: List[str]) -> None:
    refset = set(ref_lt)
    for n in ast.walk(fn):
        if isinstance(n, ast.Compare) and len(n.ops) == 1 and type(n.ops[0]) in _FLIP:
            l, r, op = n.left, n.comparators[0], n.ops[0]
            if _lt_key(op, l, r) not in refset and _lt_key(_FLIP[type(op)](), r, l) in refset:
                n.left, n.comparators[0], n.ops = r, l, [_FLIP[type(op)]()]


def normalise_locals(relpath: str, tree: ast.Module) -> int:
    ref = _ref()
    done = 0

    def visit(body, prefix):
        nonlocal done
        for st in body:
            if isinstance(st, ast.ClassDef):
                visit(st.body, prefix + st.name + ".")
            elif isinstance(st, ast.FunctionDef):
                key = f"{relpath}::{prefix}{st.name}"
                want = ref.get(key)
                if want is not None:
                    if (key + "::iters") in ref:
                        from . import canon2
                        canon2.with_tail_temps(st, want)
                        canon2.unmerge_aliases(st, want)
                        canon2.loop_shapes(st, ref[key + "::iters"], ref.get(key + "::booltgt", []))
                        canon2.while_shapes(st, ref.get(key + "::while", []))
                        canon2.inline_pure_temps(st, want)
                    _drop_dead_constants(st, want)
                    for _round in range(3):
                        have = binding_order(st)
                        if have == want:
                            break
                        mapping = {}
                        sm = difflib.SequenceMatcher(a=have, b=want, autojunk=False)
                        for tag, i1, i2, j1, j2 in sm.get_opcodes():
                            if tag == "replace" and (i2 - i1) == (j2 - j1):
                                for k in range(i2 - i1):
                                    mapping[have[i1 + k]] = want[j1 + k]
                        names = all_names(st)
                        safe = {}
                        for old, new in mapping.items():
                            if new in names or new in safe.values() or old in want:
                                continue  # would capture another variable
                            safe[old] = new
                        if safe:
                            _rename(st, safe)
                            done += 1
                        before = ast.dump(st)
                        _inline_new_temps(st, want)
                        if not safe and ast.dump(st) == before:
                            break
                rc = ref.get(key + "::==")
                if rc:
                    _orient_compares(st, rc)
                rl = ref.get(key + "::<")
                if rl:
                    _orient_order_compares(st, rl)
                if (key + "::ifexp") in ref or (key + "::ifstmt") in ref:
                    _orient_ifexp(st, ref.get(key + "::ifexp", []), ref.get(key + "::ifstmt", []))
                rn = ref.get(key + "::len")
                if rn:
                    _orient_len_tests(st, rn)
                re_ = ref.get(key + "::else")
                if re_:
                    _orient_else_shapes(st, re_)
                rp = ref.get(key + "::order")
                if rp:
                    _order_independent_assigns(st, rp)
                rcs = ref.get(key + "::calls")
                if rcs and SIGNATURES:
                    _orient_calls(st, SIGNATURES, rcs)
                rb = ref.get(key + "::bool")
                if rb:
                    _orient_boolops(st, rb)
            elif isinstance(st, (ast.With, ast.Try, ast.If)):
                visit(st.body, prefix)
    visit(tree.body, "")
    return done


def _const_value(e: ast.AST):
    try:
        v = ast.literal_eval(e)
    except Exception:
        try:
            v = eval(compile(ast.Expression(e), "<const>", "eval"), {"__builtins__": {}}, {}) if all(
                isinstance(x, (ast.Constant, ast.BinOp, ast.UnaryOp, ast.operator, ast.unaryop, ast.Expression)) for x in ast.walk(e)) else None
        except Exception:
            return None
    return v if isinstance(v, (int, bytes, str)) and not isinstance(v, bool) else None


def _inline_new_module_constants(relpath: str, tree: ast.Module) -> None:
    known = set(_ref().get(f"{relpath}::module-names", []))
    if not known and f"{relpath}::module-names" not in _ref():
        return  # file unknown to the reference: leave as is
    binds: Dict[str, List[ast.AST]] = {}
    for st in tree.body:
        if isinstance(st, ast.Assign) and len(st.targets) == 1 and isinstance(st.targets[0], ast.Name):
            binds.setdefault(st.targets[0].id, []).append(st.value)
        elif isinstance(st, ast.AnnAssign) and isinstance(st.target, ast.Name) and st.value is not None:
            binds.setdefault(st.target.id, []).append(st.value)
    consts = {}
    for name, vals in binds.items():
        if name in known or len(vals) != 1:
            continue
        v = _const_value(vals[0])
        if v is not None:
            consts[name] = v
    if not consts:
        return
    # never rebound anywhere else in the module (any Store / Del / global / import of that name)
    for n in ast.walk(tree):
        if isinstance(n, ast.Name) and isinstance(n.ctx, (ast.Store, ast.Del)) and n.id in consts:
            par_ok = any(isinstance(st, (ast.Assign, ast.AnnAssign)) and (n in getattr(st, "targets", []) or n is getattr(st, "target", None)) for st in tree.body)
            if not par_ok:
                consts.pop(n.id, None)
        elif isinstance(n, (ast.Global, ast.Nonlocal)):
            for x in n.names:
                consts.pop(x, None)
        elif isinstance(n, ast.arg) and n.arg in consts:
            consts.pop(n.arg, None)
        elif isinstance(n, ast.alias) and (n.asname or n.name).split(".")[0] in consts:
            consts.pop((n.asname or n.name).split(".")[0], None)
    if not consts:
        return

    class Sub(ast.NodeTransformer):
        def visit_Name(self, node):
            if isinstance(node.ctx, ast.Load) and node.id in consts:
                return ast.copy_location(ast.Constant(consts[node.id]), node)
            return node
    for st in tree.body:
        if isinstance(st, (ast.FunctionDef, ast.ClassDef, ast.AsyncFunctionDef)):
            Sub().visit(st)
    tree.body = [st for st in tree.body if not (isinstance(st, ast.Assign) and len(st.targets) == 1 and isinstance(st.targets[0], ast.Name) and st.targets[0].id in consts)
                 and not (isinstance(st, ast.AnnAssign) and isinstance(st.target, ast.Name) and st.target.id in consts)]


def _split_tuple_assigns(tree: ast.Module) -> None:
    for p in ast.walk(tree):
        for fld in ("body", "orelse", "finalbody"):
            lst = getattr(p, fld, None)
            if not isinstance(lst, list):
                continue
            i = 0
            while i < len(lst):
                st = lst[i]
                if isinstance(st, ast.Assign) and len(st.targets) == 1 and isinstance(st.targets[0], ast.Tuple) and isinstance(st.value, ast.Tuple) \
                        and len(st.targets[0].elts) == len(st.value.elts) and all(isinstance(t, ast.Name) for t in st.targets[0].elts):
                    tg, vs = st.targets[0].elts, st.value.elts
                    ok = not any(isinstance(x, (ast.Call, ast.Await, ast.NamedExpr, ast.Starred)) for v in vs for x in ast.walk(v))
                    for a in range(len(tg)):
                        for b in range(a + 1, len(vs)):
                            if any(isinstance(x, ast.Name) and x.id == tg[a].id for x in ast.walk(vs[b])):
                                ok = False
                    if ok and len({t.id for t in tg}) == len(tg):
                        new = [ast.copy_location(ast.Assign(targets=[t], value=v), st) for t, v in zip(tg, vs)]
                        lst[i:i + 1] = new
                        i += len(new)
                        continue
                i += 1


def _ifexp_forms(fn: ast.FunctionDef):
    """targets (dump, Load-normalised) assigned by `t = a if c else b` and by `if c: t = a else: t = b` in this function."""
    ex, stmt = [], []
    for n in ast.walk(fn):
        if isinstance(n, ast.Assign) and len(n.targets) == 1 and isinstance(n.value, ast.IfExp) and isinstance(n.targets[0], (ast.Name, ast.Attribute)):
            ex.append(ast.dump(n.targets[0]))
        if isinstance(n, ast.If) and len(n.body) == 1 and len(n.orelse) == 1 and isinstance(n.body[0], ast.Assign) and isinstance(n.orelse[0], ast.Assign) \
                and len(n.body[0].targets) == 1 and len(n.orelse[0].targets) == 1 and ast.dump(n.body[0].targets[0]) == ast.dump(n.orelse[0].targets[0]) \
                and isinstance(n.body[0].targets[0], (ast.Name, ast.Attribute)):
            stmt.append(ast.dump(n.body[0].targets[0]))
    return ex, stmt


def _orient_ifexp(fn: ast.FunctionDef, ref_ex: List[str], ref_stmt: List[str]) -> None:
    for p in ast.walk(fn):
        for fld in ("body", "orelse", "finalbody"):
            lst = getattr(p, fld, None)
            if not isinstance(lst, list):
                continue
            for i, n in enumerate(lst):
                if isinstance(n, ast.Assign) and len(n.targets) == 1 and isinstance(n.value, ast.IfExp) and isinstance(n.targets[0], (ast.Name, ast.Attribute)):
                    d = ast.dump(n.targets[0])
                    if d not in ref_ex and d in ref_stmt:
                        import copy
                        new_if = ast.copy_location(ast.If(test=n.value.test, body=[ast.copy_location(ast.Assign(targets=[n.targets[0]], value=n.value.body), n)],
                                                          orelse=[ast.copy_location(ast.Assign(targets=[copy.deepcopy(n.targets[0])], value=n.value.orelse), n)]), n)
                        lst[i] = _Canon().visit_If(new_if)
                elif isinstance(n, ast.If) and len(n.body) == 1 and len(n.orelse) == 1 and isinstance(n.body[0], ast.Assign) and isinstance(n.orelse[0], ast.Assign) \
                        and len(n.body[0].targets) == 1 and len(n.orelse[0].targets) == 1 and ast.dump(n.body[0].targets[0]) == ast.dump(n.orelse[0].targets[0]) \
                        and isinstance(n.body[0].targets[0], (ast.Name, ast.Attribute)):
                    d = ast.dump(n.body[0].targets[0])
                    if d not in ref_stmt and d in ref_ex:
                        lst[i] = ast.copy_location(ast.Assign(targets=[n.body[0].targets[0]], value=ast.IfExp(test=n.test, body=n.body[0].value, orelse=n.orelse[0].value)), n)


def _len_tests(fn: ast.FunctionDef) -> List[str]:
    out = []
    for n in ast.walk(fn):
        if isinstance(n, (ast.If, ast.While)):
            t = n.test
            if isinstance(t, ast.Compare) and len(t.ops) == 1 and isinstance(t.left, ast.Call) and isinstance(t.left.func, ast.Name) and t.left.func.id == "len" \
                    and len(t.left.args) == 1 and isinstance(t.comparators[0], ast.Constant) and t.comparators[0].value == 0 and isinstance(t.ops[0], (ast.Eq, ast.NotEq, ast.Gt)):
                out.append(type(t.ops[0]).__name__ + "|" + ast.dump(t.left.args[0]))
    return out


def _orient_len_tests(fn: ast.FunctionDef, ref_len: List[str]) -> None:
    by = {}
    for k in ref_len:
        op, d = k.split("|", 1)
        by.setdefault(d, op)
    for n in ast.walk(fn):
        if isinstance(n, (ast.If, ast.While)):
            t = n.test
            neg = False
            if isinstance(t, ast.UnaryOp) and isinstance(t.op, ast.Not):
                t, neg = t.operand, True
            if isinstance(t, (ast.Name, ast.Attribute, ast.Subscript)) and ast.dump(t) in by:
                op = by[ast.dump(t)]
                call = ast.Call(func=ast.Name("len", ast.Load()), args=[t], keywords=[])
                if neg:
                    new = ast.Compare(left=call, ops=[ast.Eq()], comparators=[ast.Constant(0)])
                else:
                    new = ast.Compare(left=call, ops=[ast.Gt() if op == "Gt" else ast.NotEq()], comparators=[ast.Constant(0)])
                if op == "Eq" and not neg:
                    # reference spells the emptiness test; the positive form is `not (len(E) == 0)`: keep as != 0
                    pass
                n.test = ast.copy_location(new, n.test)
                ast.fix_missing_locations(n.test)


def align_params(trees: Dict[str, ast.Module]) -> None:
    """step (s): undo parameter renames, tree-wide (definitions first, then keyword arguments at the call sites)."""
    ref = _ref()
    renames: Dict[str, List[Dict[str, str]]] = {}
    defs_by_name: Dict[str, int] = {}
    for rel, t in trees.items():
        def visit(body, prefix):
            for st in body:
                if isinstance(st, ast.ClassDef):
                    visit(st.body, prefix + st.name + ".")
                elif isinstance(st, ast.FunctionDef):
                    simple = prefix.rstrip(".").split(".")[-1] if st.name == "__init__" and prefix else st.name
                    defs_by_name[simple] = defs_by_name.get(simple, 0) + 1
                    want = ref.get(f"{rel}::{prefix}{st.name}::params")
                    if want is None:
                        continue
                    a = st.args
                    cur = [x.arg for x in a.posonlyargs + a.args]
                    if len(cur) != len(want) or cur == want or a.vararg or a.kwarg:
                        continue
                    mapping = {c: w for c, w in zip(cur, want) if c != w}
                    names = {x.id for x in ast.walk(st) if isinstance(x, ast.Name)} | set(cur)
                    if any(w in names for w in mapping.values()) or len(set(mapping.values())) != len(mapping):
                        continue
                    if any(isinstance(x, (ast.FunctionDef, ast.Lambda, ast.ClassDef)) for b in st.body for x in ast.walk(b)):
                        continue
                    for x in a.posonlyargs + a.args:
                        if x.arg in mapping:
                            x.arg = mapping[x.arg]
                    for x in ast.walk(st):
                        if isinstance(x, ast.Name) and x.id in mapping:
                            x.id = mapping[x.id]
                    renames.setdefault(simple, []).append(mapping)
        visit(t.body, "")
    for t in trees.values():
        for n in ast.walk(t):
            if isinstance(n, ast.Call) and n.keywords:
                name = n.func.id if isinstance(n.func, ast.Name) else (n.func.attr if isinstance(n.func, ast.Attribute) else None)
                if name in renames and len(renames[name]) == 1 and defs_by_name.get(name) == 1:
                    mp = renames[name][0]
                    for k in n.keywords:
                        if k.arg in mp:
                            k.arg = mp[k.arg]


def _shape(fn: ast.FunctionDef) -> str:
    """dump of a function body with every identifier blanked: equal for a function and its renamed copy"""
    import copy
    f = copy.deepcopy(fn)
    for x in ast.walk(f):
        if isinstance(x, ast.Name):
            x.id = "_"
        elif isinstance(x, ast.arg):
            x.arg = "_"
            x.annotation = None
        elif isinstance(x, ast.Attribute):
            x.attr = "_"
        elif isinstance(x, ast.Constant) and isinstance(x.value, str):
            x.value = ""
        elif isinstance(x, ast.keyword):
            x.arg = "_" if x.arg else None
    return ast.dump(ast.Module(body=f.body, type_ignores=[]))


def _class_attr_profile(cls: ast.ClassDef) -> Dict[str, List]:
    prof: Dict[str, Dict[str, int]] = {}
    for st in cls.body:
        if isinstance(st, ast.FunctionDef):
            for x in ast.walk(st):
                if isinstance(x, ast.Attribute) and isinstance(x.value, ast.Name) and x.value.id == "self":
                    prof.setdefault(x.attr, {})
                    prof[x.attr][st.name] = prof[x.attr].get(st.name, 0) + 1
    return {a: sorted(m.items()) for a, m in prof.items()}


def align_names(trees: Dict[str, ast.Module]) -> None:
    """steps (t) and (u): undo renames of functions / methods and of instance attributes, tree-wide."""
    ref = _ref()
    ref_funcs = set(ref.get("::function-names", []))
    ref_attrs = set(ref.get("::attribute-names", []))
    if not ref_funcs:
        return
    all_idents = set()
    all_attrs = set()
    for t in trees.values():
        for x in ast.walk(t):
            if isinstance(x, ast.Name):
                all_idents.add(x.id)
            elif isinstance(x, ast.Attribute):
                all_idents.add(x.attr)
                all_attrs.add(x.attr)
            elif isinstance(x, (ast.FunctionDef, ast.ClassDef)):
                all_idents.add(x.name)
    fn_map: Dict[str, str] = {}
    attr_map: Dict[str, str] = {}
    for rel, t in trees.items():
        scopes = [("", t.body)] + [(st.name + ".", st.body) for st in t.body if isinstance(st, ast.ClassDef)]
        for prefix, body in scopes:
            want = ref.get(f"{rel}::{prefix}::defs")
            if want is None:
                continue
            cur = {st.name: st for st in body if isinstance(st, ast.FunctionDef)}
            missing = [n for n in want if n not in cur]
            new = [n for n in cur if n not in want]
            for mname in missing:
                cands = [n for n in new if n not in ref_funcs and n not in ref_attrs and _shape(cur[n]) == want[mname]]
                if len(cands) == 1 and mname not in all_idents and cands[0] not in fn_map:
                    fn_map[cands[0]] = mname
                    new.remove(cands[0])
        for st in t.body:
            if isinstance(st, ast.ClassDef):
                wantp = ref.get(f"{rel}::{st.name}::attrs")
                if wantp is None:
                    continue
                curp = _class_attr_profile(st)
                # method names inside profiles may themselves be renamed: map them first
                inv = {v: k for k, v in fn_map.items()}
                def norm(p):
                    return sorted((fn_map.get(m, m), c) for m, c in p)
                missing = [a for a in wantp if a not in curp]
                new = [a for a in curp if a not in wantp]
                for a in missing:
                    cands = [n for n in new if n not in ref_attrs and n not in ref_funcs and norm(curp[n]) == [tuple(x) for x in wantp[a]]]
                    if len(cands) == 1 and a not in all_attrs and attr_map.get(cands[0], a) == a:
                        attr_map[cands[0]] = a
                        new.remove(cands[0])
    if not fn_map and not attr_map:
        return
    for t in trees.values():
        for x in ast.walk(t):
            if isinstance(x, ast.FunctionDef) and x.name in fn_map:
                x.name = fn_map[x.name]
            elif isinstance(x, ast.Name) and x.id in fn_map:
                x.id = fn_map[x.id]
            elif isinstance(x, ast.Attribute):
                if x.attr in fn_map:
                    x.attr = fn_map[x.attr]
                elif x.attr in attr_map:
                    x.attr = attr_map[x.attr]
            elif isinstance(x, ast.alias) and x.name in fn_map:
                x.name = fn_map[x.name]
            elif isinstance(x, ast.keyword) and x.arg in attr_map:
                pass


def signature_table(trees: Dict[str, ast.Module]) -> Dict[str, List[str]]:
    """simple name -> parameter names (without self) when every repository function / constructor of that name has the same signature."""
    cands: Dict[str, List[List[str]]] = {}
    for t in trees.values():
        for n in ast.walk(t):
            if isinstance(n, ast.ClassDef):
                for st in n.body:
                    if isinstance(st, ast.FunctionDef):
                        ps = [a.arg for a in st.args.args]
                        if st.args.vararg or st.args.posonlyargs or st.args.kwarg:
                            ps = None
                        elif ps and ps[0] in ("self", "cls"):
                            ps = ps[1:]
                        cands.setdefault(n.name if st.name == "__init__" else st.name, []).append(ps)
        for st in t.body:
            if isinstance(st, ast.FunctionDef):
                ps = None if (st.args.vararg or st.args.posonlyargs or st.args.kwarg) else [a.arg for a in st.args.args]
                cands.setdefault(st.name, []).append(ps)
    return {k: v[0] for k, v in cands.items() if all(x is not None for x in v) and len({tuple(x) for x in v}) == 1}


def _call_shapes(fn: ast.FunctionDef, table: Dict[str, List[str]]) -> Dict[str, List]:
    """callee simple name -> [n positional, [keyword names]] when every call of that callee in the function has the same shape."""
    seen: Dict[str, set] = {}
    for n in ast.walk(fn):
        if isinstance(n, ast.Call):
            name = n.func.id if isinstance(n.func, ast.Name) else (n.func.attr if isinstance(n.func, ast.Attribute) else None)
            if name in table and all(k.arg is not None for k in n.keywords) and not any(isinstance(a, ast.Starred) for a in n.args):
                seen.setdefault(name, set()).add((len(n.args), tuple(k.arg for k in n.keywords)))
    return {k: [next(iter(v))[0], list(next(iter(v))[1])] for k, v in seen.items() if len(v) == 1}


def _orient_calls(fn: ast.FunctionDef, table: Dict[str, List[str]], ref_shapes: Dict[str, List]) -> None:
    """Re-express a call of a repository function in the positional / keyword shape the reference tree uses for that callee in this function."""
    for n in ast.walk(fn):
        if not isinstance(n, ast.Call) or any(isinstance(a, ast.Starred) for a in n.args) or not all(k.arg is not None for k in n.keywords):
            continue
        name = n.func.id if isinstance(n.func, ast.Name) else (n.func.attr if isinstance(n.func, ast.Attribute) else None)
        ps = table.get(name) if name else None
        shape = ref_shapes.get(name) if name else None
        if not ps or not shape:
            continue
        npos, kws = shape
        if (len(n.args), [k.arg for k in n.keywords]) == (npos, kws):
            continue
        if len(n.args) > len(ps):
            continue
        bind = {ps[i]: a for i, a in enumerate(n.args)}
        ok = True
        for k in n.keywords:
            if k.arg in bind or k.arg not in ps:
                ok = False
            bind[k.arg] = k.value
        want_params = ps[:npos] + kws
        if not ok or set(bind) != set(want_params) or len(want_params) != len(set(want_params)):
            continue
        n.args = [bind[p] for p in ps[:npos]]
        n.keywords = [ast.keyword(arg=k, value=bind[k]) for k in kws]


def _simple_assign(st) -> Optional[str]:
    """target name of a call-free assignment / augmented assignment to a local"""
    if isinstance(st, ast.Assign) and len(st.targets) == 1 and isinstance(st.targets[0], ast.Name):
        t, v = st.targets[0].id, st.value
    elif isinstance(st, ast.AugAssign) and isinstance(st.target, ast.Name):
        t, v = st.target.id, st.value
    else:
        return None
    if any(isinstance(x, (ast.Call, ast.Await, ast.NamedExpr, ast.Subscript)) for x in ast.walk(v)):
        return None
    return t


def _independent(a, b) -> bool:
    ta, tb = _simple_assign(a), _simple_assign(b)
    if ta is None or tb is None or ta == tb:
        return False
    ra = {x.id for x in ast.walk(a.value) if isinstance(x, ast.Name)} | ({ta} if isinstance(a, ast.AugAssign) else set())
    rb = {x.id for x in ast.walk(b.value) if isinstance(x, ast.Name)} | ({tb} if isinstance(b, ast.AugAssign) else set())
    return ta not in rb and tb not in ra


def _adjacent_pairs(fn: ast.FunctionDef) -> List[List[str]]:
    out = []
    for p in ast.walk(fn):
        for fld in ("body", "orelse", "finalbody"):
            lst = getattr(p, fld, None)
            if isinstance(lst, list):
                for i in range(len(lst) - 1):
                    if _independent(lst[i], lst[i + 1]):
                        out.append([ast.dump(lst[i]), ast.dump(lst[i + 1])])
    return out


def _order_independent_assigns(fn: ast.FunctionDef, ref_pairs: List[List[str]]) -> None:
    refset = {(a, b) for a, b in ref_pairs}
    for p in ast.walk(fn):
        for fld in ("body", "orelse", "finalbody"):
            lst = getattr(p, fld, None)
            if not isinstance(lst, list):
                continue
            for _round in range(4):
                changed = False
                for i in range(len(lst) - 1):
                    a, b = lst[i], lst[i + 1]
                    if _independent(a, b):
                        da, db = ast.dump(a), ast.dump(b)
                        if (db, da) in refset and (da, db) not in refset:
                            lst[i], lst[i + 1] = b, a
                            changed = True
                if not changed:
                    break


_JUMPS = (ast.Return, ast.Continue, ast.Raise, ast.Break)


def _else_shapes(fn: ast.FunctionDef) -> Dict[str, bool]:
    """test dump -> has a (non-elif) else, for ifs whose body ends in a jump; tests occurring with both shapes are left out."""
    seen: Dict[str, set] = {}
    for n in ast.walk(fn):
        if isinstance(n, ast.If) and n.body and isinstance(n.body[-1], _JUMPS):
            seen.setdefault(ast.dump(n.test), set()).add(bool(n.orelse))
    return {k: next(iter(v)) for k, v in seen.items() if len(v) == 1}


def _orient_else_shapes(fn: ast.FunctionDef, ref_shape: Dict[str, bool]) -> None:
    for p in ast.walk(fn):
        for fld in ("body", "orelse", "finalbody"):
            lst = getattr(p, fld, None)
            if not isinstance(lst, list):
                continue
            i = 0
            while i < len(lst):
                n = lst[i]
                if isinstance(n, ast.If) and n.body and isinstance(n.body[-1], _JUMPS):
                    want = ref_shape.get(ast.dump(n.test))
                    if want is True and not n.orelse and i < len(lst) - 1:
                        n.orelse = lst[i + 1:]
                        del lst[i + 1:]
                    elif want is False and n.orelse:
                        tail = n.orelse
                        n.orelse = []
                        lst[i + 1:i + 1] = tail
                i += 1


SIGNATURES: Dict[str, List[str]] = {}


def _inline_new_helpers(relpath: str, tree: ast.Module) -> None:
    ref = _ref()
    if not any(k.startswith(relpath + "::") for k in ref):
        return
    import copy

    def scopes():
        yield "", tree.body, None
        for st in tree.body:
            if isinstance(st, ast.ClassDef):
                yield st.name + ".", st.body, st
    for prefix, body, cls in list(scopes()):
        for h in [st for st in body if isinstance(st, ast.FunctionDef)]:
            if f"{relpath}::{prefix}{h.name}" in ref or h.name.startswith("__") or h.decorator_list:
                continue
            a = h.args
            if a.vararg or a.kwarg or a.kwonlyargs or a.posonlyargs or a.defaults:
                continue
            params = [x.arg for x in a.args]
            if cls is not None:
                if not params or params[0] != "self":
                    continue
                params = params[1:]
            # shape of the helper: no yield, no nested defs; returns: none, or exactly one `return e` as last statement
            if any(isinstance(x, (ast.Yield, ast.YieldFrom, ast.FunctionDef, ast.Lambda, ast.Global, ast.Nonlocal)) for st in h.body for x in ast.walk(st)):
                continue
            rets = [x for st in h.body for x in ast.walk(st) if isinstance(x, ast.Return)]
            tail = h.body[-1] if h.body else None
            if len(rets) > 1 or (rets and rets[0] is not tail):
                continue
            # call sites in the whole module
            sites = []
            for n in ast.walk(tree):
                if isinstance(n, ast.Call):
                    fn = n.func
                    if (cls is None and isinstance(fn, ast.Name) and fn.id == h.name) or \
                            (cls is not None and isinstance(fn, ast.Attribute) and fn.attr == h.name and isinstance(fn.value, ast.Name) and fn.value.id == "self"):
                        sites.append(n)
            refs = [n for n in ast.walk(tree) if (isinstance(n, ast.Name) and n.id == h.name) or (isinstance(n, ast.Attribute) and n.attr == h.name)]
            if len(sites) != 1 or len(refs) != 1:
                continue
            call = sites[0]
            if call.keywords or len(call.args) != len(params) or not all(isinstance(x, ast.Name) for x in call.args):
                continue
            # find the statement list holding the call as a whole statement
            done = False
            for p in ast.walk(tree):
                if done:
                    break
                for fld in ("body", "orelse", "finalbody"):
                    lst = getattr(p, fld, None)
                    if not isinstance(lst, list):
                        continue
                    for i, st in enumerate(lst):
                        as_stmt = isinstance(st, ast.Expr) and st.value is call
                        as_assign = isinstance(st, ast.Assign) and st.value is call and rets and rets[0].value is not None
                        if not (as_stmt or as_assign):
                            continue
                        # the helper's own locals must not meet names of the caller
                        owner = None
                        for q in ast.walk(tree):
                            if isinstance(q, ast.FunctionDef) and q is not h and any(x is st for x in ast.walk(q)):
                                owner = q  # innermost is found last in walk order only for nested defs; good enough: nested defs are not inlined into
                        h_locals = {x.id for b in h.body for x in ast.walk(b) if isinstance(x, ast.Name) and isinstance(x.ctx, ast.Store)} - set(params)
                        if owner is None or any(isinstance(x, ast.Name) and x.id in h_locals for x in ast.walk(owner)):
                            continue
                        mapping = {pn: an.id for pn, an in zip(params, call.args) if pn != an.id}
                        new_body = copy.deepcopy(h.body)
                        # locals of the helper must not clash with names of the caller other than through the parameters
                        caller = p if isinstance(p, ast.FunctionDef) else None
                        if mapping:
                            used = {x.id for b in new_body for x in ast.walk(b) if isinstance(x, ast.Name)}
                            if any(v in used for v in mapping.values()):
                                continue
                            for b in new_body:
                                for x in ast.walk(b):
                                    if isinstance(x, ast.Name) and x.id in mapping:
                                        x.id = mapping[x.id]
                        if rets:
                            last = new_body[-1]
                            if as_assign:
                                new_body[-1] = ast.copy_location(ast.Assign(targets=st.targets, value=last.value), st)
                            elif last.value is None:
                                new_body = new_body[:-1]
                            else:
                                new_body[-1] = ast.copy_location(ast.Expr(value=last.value), st)
                        for b in new_body:
                            for x in ast.walk(b):
                                if hasattr(x, "lineno"):
                                    x.lineno = getattr(st, "lineno", x.lineno)
                        lst[i:i + 1] = new_body or [ast.copy_location(ast.Pass(), st)]
                        body.remove(h)
                        done = True
                        break
                    if done:
                        break


def canonicalise(relpath: str, tree: ast.Module) -> ast.Module:
    from . import canon2
    canon2.inline_new_helpers(relpath, tree, _ref())
    _inline_new_helpers(relpath, tree)
    _inline_new_module_constants(relpath, tree)
    canon2.inline_new_constants(relpath, tree, _ref())
    _split_tuple_assigns(tree)
    tree = _Canon().visit(tree)
    normalise_locals(relpath, tree)
    ast.fix_missing_locations(tree)
    return tree


def build_reference(root: str) -> Dict[str, List[str]]:
    """Tool: compute the reference table from a tree (run by hand, result committed as vt/ref_locals.json)."""
    out = {}
    pk = os.path.join(root, "tlexport")
    raws = {}
    for dirpath, dirnames, filenames in os.walk(pk):
        for fn in sorted(filenames):
            if fn.endswith(".py"):
                raws[os.path.relpath(os.path.join(dirpath, fn), root)] = ast.parse(open(os.path.join(dirpath, fn)).read())
    sigs = signature_table(raws)
    fnames, anames = set(), set()
    for rel, t in raws.items():
        scopes = [("", t.body)] + [(st.name + ".", st.body) for st in t.body if isinstance(st, ast.ClassDef)]
        for prefix, body in scopes:
            d = {st.name: _shape(st) for st in body if isinstance(st, ast.FunctionDef)}
            if d:
                out[f"{rel}::{prefix}::defs"] = d
                fnames |= set(d)
        for st in t.body:
            if isinstance(st, ast.ClassDef):
                pr = _class_attr_profile(st)
                out[f"{rel}::{st.name}::attrs"] = pr
                out[f"{rel}::{st.name}::classnames"] = sorted({y.id for x in st.body if isinstance(x, (ast.Assign, ast.AnnAssign)) for y in ast.walk(x)
                                                              if isinstance(y, ast.Name) and isinstance(y.ctx, ast.Store)})
                anames |= set(pr)
        for x in ast.walk(t):
            if isinstance(x, ast.Attribute):
                anames.add(x.attr)
            elif isinstance(x, ast.ClassDef):
                fnames.add(x.name)
    out["::function-names"] = sorted(fnames)
    out["::attribute-names"] = sorted(anames)
    for dirpath, dirnames, filenames in os.walk(pk):
        dirnames[:] = sorted(d for d in dirnames if d != "__pycache__")
        for fn in sorted(filenames):
            if not fn.endswith(".py"):
                continue
            path = os.path.join(dirpath, fn)
            rel = os.path.relpath(path, root)
            raw = ast.parse(open(path).read())
            out[f"{rel}::module-names"] = sorted({t.id for st in raw.body if isinstance(st, (ast.Assign, ast.AnnAssign))
                                                  for t in (st.targets if isinstance(st, ast.Assign) else [st.target]) if isinstance(t, ast.Name)})
            _split_tuple_assigns(raw)
            t = _Canon().visit(raw)

            def visit(body, prefix):
                for st in body:
                    if isinstance(st, ast.ClassDef):
                        visit(st.body, prefix + st.name + ".")
                    elif isinstance(st, ast.FunctionDef):
                        names = binding_order(st)
                        out[f"{rel}::{prefix}{st.name}"] = names
                        if not (st.args.vararg or st.args.kwarg):
                            out[f"{rel}::{prefix}{st.name}::params"] = [x.arg for x in st.args.posonlyargs + st.args.args]
                        cmps = sorted({_cmp_key(n.left, n.comparators[0]) for n in ast.walk(st)
                                       if isinstance(n, ast.Compare) and len(n.ops) == 1 and isinstance(n.ops[0], (ast.Eq, ast.NotEq))})
                        if cmps:
                            out[f"{rel}::{prefix}{st.name}::=="] = cmps
                        ex, stm = _ifexp_forms(st)
                        if ex:
                            out[f"{rel}::{prefix}{st.name}::ifexp"] = sorted(set(ex))
                        if stm:
                            out[f"{rel}::{prefix}{st.name}::ifstmt"] = sorted(set(stm))
                        prs = _adjacent_pairs(st)
                        if prs:
                            out[f"{rel}::{prefix}{st.name}::order"] = prs
                        cs = _call_shapes(st, sigs)
                        if cs:
                            out[f"{rel}::{prefix}{st.name}::calls"] = cs
                        es = _else_shapes(st)
                        if es:
                            out[f"{rel}::{prefix}{st.name}::else"] = es
                        lens = _len_tests(st)
                        if lens:
                            out[f"{rel}::{prefix}{st.name}::len"] = sorted(set(lens))
                        lts = sorted({_lt_key(n.ops[0], n.left, n.comparators[0]) for n in ast.walk(st)
                                      if isinstance(n, ast.Compare) and len(n.ops) == 1 and type(n.ops[0]) in _FLIP})
                        if lts:
                            out[f"{rel}::{prefix}{st.name}::<"] = lts
                        from . import canon2
                        out[f"{rel}::{prefix}{st.name}::iters"] = canon2.iter_kinds(st)
                        wt = canon2.while_tests(st)
                        if wt:
                            out[f"{rel}::{prefix}{st.name}::while"] = wt
                        bt = canon2.bool_targets(st)
                        if bt:
                            out[f"{rel}::{prefix}{st.name}::booltgt"] = bt
                        bools = {}
                        for n in ast.walk(st):
                            if isinstance(n, ast.BoolOp) and len(n.values) >= 2:
                                dumps = [ast.dump(v) for v in n.values]
                                bools[type(n.op).__name__ + "|" + "|".join(sorted(dumps))] = dumps
                        if bools:
                            out[f"{rel}::{prefix}{st.name}::bool"] = bools
                    elif isinstance(st, (ast.With, ast.Try, ast.If)):
                        visit(st.body, prefix)
            visit(t.body, "")
    return out


if __name__ == "__main__":
    import sys
    ref = build_reference(sys.argv[1] if len(sys.argv) > 1 else "/repo")
    with open(REF_PATH, "w") as fh:
        json.dump(ref, fh, indent=0, sort_keys=True)
    print(len(ref), "functions with locals")
    # the guard inventory is taken from the same reference tree (after canonicalisation with the table just written)
    _REF = None
    from .rules import guards
    g = guards.build_reference(sys.argv[1] if len(sys.argv) > 1 else "/repo")
    with open(guards.REF_PATH, "w") as fh:
        json.dump(g, fh, indent=0, sort_keys=True)
    print(sum(len(v) for k, v in g.items() if not k.startswith("::")), "effect statements in the guard inventory;", len(g["::writes"]), "functions in the write inventory")
